import Sessions.Mutex.Exec
/-! Driver mode `mx`: `driver mx <logfile>...` reads logs written by the Go harness in mode `mx` (the real
`mutexes.go` under the virtual clock) and runs the conformance checkers of `Sessions/Mutex/Exec.lean` on them — the
checkers `Mx.reach_conforms` / `Mx.reach_exclusion_log` prove complete for the transition system in which
`Mx.mutex_exclusion`, `Mx.deadlock_free`, … hold.

Log lines are `<t> <words…>`; the ones read here are

* manager events (from the add-only hook in the manager loop): `acq k locksBefore`, `rel k locksBefore`,
  `tok k locks` (just before the token is sent: after an `acq` the value is still `locksBefore`, after a `rel` it is the
  value after the decrement), `purge k locks`.  An `acq`/`rel` followed by its `tok` becomes `Ev.acq k l true` /
  `Ev.rel k l true`, one that is not followed by a `tok` becomes `… false`.  A `tok` that does not belong to the event
  before it, or carries another `locks` value than that event implies, is itself a non-conforming event.
* caller events: `ret L g k` (`Lock(k)` returned in goroutine `g`) and `call U g k` (`g` calls the matching `Unlock`).

Output per log (the index counts events of the respective list from 0, `line` is the line of the log file, from 1):
`events <manager events> <caller events>`, `trace ok|fail <index> line <n>`, `proviso ok|fail <index> line <n>`,
`exclusion ok|fail <index> line <n>`, `discipline ok|fail <index> line <n>`. -/
namespace Drv
open Mx.Exec

/-- manager event waiting for its possible `tok`: kind (`true` = acq), key, locksBefore, line. -/
structure MxPending where
  isAcq : Bool
  k : Nat
  l : Nat
  line : Nat

structure MxAcc where
  evs : Array Ev := #[]
  evLines : Array Nat := #[]
  calls : Array CallEv := #[]
  callLines : Array Nat := #[]
  pending : Option MxPending := none
  /-- first manager line that is not a well-formed event: (index it would have had, line) -/
  bad : Option (Nat × Nat) := none

def MxAcc.push (a : MxAcc) (e : Ev) (line : Nat) : MxAcc :=
  { a with evs := a.evs.push e, evLines := a.evLines.push line }

def MxAcc.flush (a : MxAcc) : MxAcc :=
  match a.pending with
  | none => a
  | some p =>
    let a := { a with pending := none }
    if p.isAcq then a.push (.acq p.k p.l false) p.line else a.push (.rel p.k p.l false) p.line

def MxAcc.markBad (a : MxAcc) (line : Nat) : MxAcc :=
  match a.bad with
  | some _ => a
  | none => { a with bad := some (a.evs.size + (if a.pending.isSome then 1 else 0), line) }

/-- the event a `tok k l` completes, if it is the one the pending event implies. -/
def MxAcc.tok (a : MxAcc) (k l line : Nat) : MxAcc :=
  match a.pending with
  | none => a.markBad line
  | some p =>
    let a' := { a with pending := none }
    if p.k = k ∧ p.isAcq ∧ l = p.l then a'.push (.acq p.k p.l true) p.line
    else if p.k = k ∧ !p.isAcq ∧ 0 < p.l ∧ l + 1 = p.l then a'.push (.rel p.k p.l true) p.line
    else (a.flush).markBad line

def mxLine (a : MxAcc) (lineNo : Nat) (l : String) : MxAcc :=
  match (l.splitOn " ").filter (· ≠ "") with
  | [_, "acq", k, n] =>
    match parseEv ("acq " ++ k ++ " " ++ n ++ " 0") with
    | some (.acq k n _) => { a.flush with pending := some ⟨true, k, n, lineNo⟩ }
    | _ => a.flush.markBad lineNo
  | [_, "rel", k, n] =>
    match parseEv ("rel " ++ k ++ " " ++ n ++ " 0") with
    | some (.rel k n _) => { a.flush with pending := some ⟨false, k, n, lineNo⟩ }
    | _ => a.flush.markBad lineNo
  | [_, "tok", k, n] =>
    match k.toNat?, n.toNat? with
    | some k, some n => a.tok k n lineNo
    | _, _ => a.flush.markBad lineNo
  | [_, "purge", k, n] =>
    match parseEv ("purge " ++ k ++ " " ++ n) with
    | some e => a.flush.push e lineNo
    | none => a.flush.markBad lineNo
  | [_, "ret", "L", g, k] =>
    match parseCallEv ("lockret " ++ g ++ " " ++ k) with
    | some e => { a with calls := a.calls.push e, callLines := a.callLines.push lineNo }
    | none => a
  | [_, "call", "U", g, k] =>
    match parseCallEv ("unlock " ++ g ++ " " ++ k) with
    | some e => { a with calls := a.calls.push e, callLines := a.callLines.push lineNo }
    | none => a
  | _ => a

def parseMxLog (lines : Array String) : MxAcc := Id.run do
  let mut a : MxAcc := {}
  let mut n := 0
  for l in lines do
    n := n + 1
    a := mxLine a n l
  return a.flush

def verdict (name : String) (r : Option Nat) (lines : Array Nat) : String :=
  match r with
  | none => name ++ " ok"
  | some i => name ++ " fail " ++ toString i ++ " line " ++ toString (lines.getD i 0)

/-- the earlier of the checker's verdict and a malformed manager line. -/
def mergeBad (r : Option Nat) (bad : Option (Nat × Nat)) (lines : Array Nat) : Option Nat × Array Nat :=
  match r, bad with
  | r, none => (r, lines)
  | none, some (i, ln) => (some i, (lines.extract 0 i).push ln)
  | some j, some (i, ln) => if j < i then (some j, lines) else (some i, (lines.extract 0 i).push ln)

def mxReport (path : String) (many : Bool) : IO Unit := do
  let out ← IO.getStdout
  let lines ← IO.FS.lines path
  let a := parseMxLog lines
  let evs := a.evs.toList
  let calls := a.calls.toList
  if many then out.putStrLn ("file " ++ path)
  out.putStrLn ("events " ++ toString evs.length ++ " " ++ toString calls.length)
  let (tr, trLines) := mergeBad (checkTrace evs) a.bad a.evLines
  out.putStrLn (verdict "trace" tr trLines)
  out.putStrLn (verdict "proviso" (checkProviso evs) a.evLines)
  out.putStrLn (verdict "exclusion" (checkExclusion calls) a.callLines)
  out.putStrLn (verdict "discipline" (checkDiscipline calls) a.callLines)

def runMx (args : List String) : IO UInt32 := do
  match args with
  | [] => IO.eprintln "usage: driver mx <logfile>..."; return 2
  | [p] => mxReport p false; return 0
  | ps => for p in ps do mxReport p true
          return 0

/-! sanity: the conversion on the shapes the harness writes -/

#guard (parseMxLog #["0 call L 0 1", "0 acq 1 0", "0 tok 1 0", "0 ret L 0 1", "5 call L 1 1", "5 acq 1 1",
    "9 call U 0 1", "9 rel 1 2", "9 tok 1 1", "9 ret L 1 1", "9 call U 1 1", "9 rel 1 1", "9 purge 1 0"]).evs.toList
    == [.acq 1 0 true, .acq 1 1 false, .rel 1 2 true, .rel 1 1 false, .purgeDel 1 0]
#guard (parseMxLog #["0 acq 1 0", "0 tok 1 0", "0 ret L 0 1", "9 call U 0 1", "9 ret L 1 1"]).calls.toList
    == [.lockRet 0 1, .unlockCall 0 1, .lockRet 1 1]
-- a token with the wrong `locks` value is a malformed manager line, reported right after the event it follows
#guard (parseMxLog #["0 acq 1 0", "0 tok 1 0", "9 rel 1 1", "9 tok 1 1"]).bad == some (2, 4)
#guard (parseMxLog #["0 tok 1 0"]).bad == some (0, 1)

end Drv
