import Sessions.Password.All
import Std.Data.HashSet
/-! Driver mode `pw`: `driver pw <common.txt> <dict.txt> <harness output>` prints, per query line of the
harness output, the result code of the Lean model `Pw.classify` (the lower-cased forms are the ones Go's
`strings.ToLower` produced, as logged by the harness), or `inconsistent` when the logged ToLower table is
not a function. The word lists are the ones an independent reader extracted from the Go source constants. -/
namespace Drv
open Pw

def hexv (c : Char) : Nat :=
  if '0' ≤ c && c ≤ '9' then c.toNat - 48 else if 'a' ≤ c && c ≤ 'f' then c.toNat - 87 else 0

def unhex : List Char → List UInt8
  | a :: b :: r => UInt8.ofNat (hexv a * 16 + hexv b) :: unhex r
  | _ => []

def field (s : String) : Bytes := if s == "-" then [] else unhex s.toList

def pairs : List String → List (Bytes × Bytes)
  | a :: b :: r => (field a, field b) :: pairs r
  | _ => []

def loadList (path : String) : IO (Std.HashSet Bytes) := do
  let ls ← IO.FS.lines path
  return ls.foldl (fun s l => s.insert l.toUTF8.toList) {}

def runPw (args : List String) : IO UInt32 := do
  match args with
  | [commonPath, dictPath, queries] =>
    let common ← loadList commonPath
    let dict ← loadList dictPath
    let out ← IO.getStdout
    let ls ← IO.FS.lines queries
    for l in ls do
      let toks := (l.splitOn " ").filter (· ≠ "")
      match toks with
      | "lists" :: _ => pure ()
      | _code :: pw :: pwl :: rest =>
        let p := field pw
        let pl := field pwl
        let ns := pairs rest
        if !tableConsistent ((p, pl) :: ns) then out.putStrLn "inconsistent"
        else out.putStrLn (toString (classify common dict pl p ns))
      | _ => out.putStrLn "bad"
    return 0
  | _ => IO.eprintln "usage: driver pw <common.txt> <dict.txt> <queries>"; return 2
end Drv
