/-! Driver mode `pw` (stub, filled in by its check). -/
namespace Drv
def runPw (_args : List String) : IO UInt32 := do
  IO.eprintln "mode not implemented"
  return 2
end Drv
