/-! Driver mode `codec` (stub, filled in by its check). -/
namespace Drv
def runCodec (_args : List String) : IO UInt32 := do
  IO.eprintln "mode not implemented"
  return 2
end Drv
