import Sessions.Model.Codec
/-!
Driver mode `codec`: `driver codec <case file>` reads the `rt <gob|json> us=… cr=… la=… ip=… ua=… rf=… da=…` lines the
codec checks feed to the real package, builds the model session (`Sx.Sess`), applies the MODEL's `Sx.enc` and `Sx.dec`
(the functions the coherence and crash theorems are about) and prints what comes back in the harness's notation, instants
without zone. Cases with nested data values, integers beyond 2^53 or non-integral floats are outside the model's value
type and print `skip`.
-/
namespace Drv.Cdc
open Sx

def hexNib (n : Nat) : Char := if n < 10 then Char.ofNat (48 + n) else Char.ofNat (87 + n)

def hexOf (bs : List UInt8) : String :=
  String.ofList (bs.foldr (fun b acc => hexNib (b.toNat / 16) :: hexNib (b.toNat % 16) :: acc) [])

def hexV (c : Char) : Nat :=
  if '0' ≤ c && c ≤ '9' then c.toNat - 48 else if 'a' ≤ c && c ≤ 'f' then c.toNat - 87 else if 'A' ≤ c && c ≤ 'F' then c.toNat - 55 else 0

def unhexBytes : List Char → List UInt8
  | a :: b :: r => UInt8.ofNat (hexV a * 16 + hexV b) :: unhexBytes r
  | _ => []

def strOfHex (s : String) : Option String := String.fromUTF8? (ByteArray.mk (unhexBytes s.toList).toArray)

def safeCh (c : Char) : Bool :=
  c.isAlphanum || c == '+' || c == '/' || c == '=' || c == '.' || c == '_' || c == '-' || c == ':'

def qq (s : String) : String :=
  if s.isEmpty then "~" else if s.toList.all safeCh then s else "~" ++ hexOf s.toUTF8.toList

def unqq (s : String) : Option String :=
  match s.toList with
  | '~' :: r => strOfHex (String.ofList r)
  | _ => some s

/-- IEEE-754 bits of the float64 holding the integer `n`, for |n| ≤ 2^53 -/
def log2 (n : Nat) : Nat := if n ≤ 1 then 0 else 1 + log2 (n / 2)

def floatBitsOfInt (n : Int) : Option Nat :=
  let a := n.natAbs
  if a == 0 then some 0
  else if a > 2 ^ 53 then none
  else
    let e := log2 a
    let mant := (a - 2 ^ e) * 2 ^ (52 - e)
    some ((if n < 0 then 2 ^ 63 else 0) + (e + 1023) * 2 ^ 52 + mant)

def hexNat (n : Nat) : String :=
  if n < 16 then String.singleton (hexNib n) else hexNat (n / 16) ++ String.singleton (hexNib (n % 16))

/-- an integral float64 given by its bits: the integer it holds, if it is one with |n| ≤ 2^53 -/
def intOfFloatBits (b : Nat) : Option Int :=
  if b == 2 ^ 63 then none          -- -0.0 is not an integer value of the model
  else if b == 0 then some 0
  else
    let sign := b / 2 ^ 63
    let ex := (b / 2 ^ 52) % 2048
    let mant := b % 2 ^ 52
    if ex < 1023 || ex > 1023 + 53 then none
    else
      let e := ex - 1023
      let full := 2 ^ 52 + mant
      if e ≤ 52 then
        if full % 2 ^ (52 - e) != 0 then none
        else
          let v : Int := (full / 2 ^ (52 - e) : Nat)
          some (if sign == 1 then -v else v)
      else
        let v : Int := (full * 2 ^ (e - 52) : Nat)
        some (if sign == 1 then -v else v)

def parseValue (s : String) : Option Val :=
  match s.toList with
  | 's' :: r => (strOfHex (String.ofList r)).map Val.str
  | 'i' :: r => (String.ofList r).toInt?.map Val.int
  | 'I' :: _ => none            -- int64 is a distinct Go type; the model has one integer type
  | 'F' :: r => (intOfFloatBits ((String.ofList r).toList.foldl (fun acc c => acc * 16 + hexV c) 0)).map Val.flt
  | ['b', '0'] => some (.bool false)
  | ['b', '1'] => some (.bool true)
  | ['n'] => some .null
  | _ => none

def renderValue : Val → Option String
  | .str s => some ("s" ++ hexOf s.toUTF8.toList)
  | .int n => some ("i" ++ toString n)
  | .flt n => (floatBitsOfInt n).map (fun b => "F" ++ hexNat b)
  | .bool b => some (if b then "b1" else "b0")
  | .null => some "n"

/-- `M(~hexkey=value;…)` with flat values only -/
def parseData (s : String) : Option (Option Data) :=
  if s == "nil" then some none
  else if s.startsWith "M(" && s.endsWith ")" then
    let inner := ((s.drop 2).toString.dropEnd 1).toString
    if inner.isEmpty then some (some [])
    else if inner.contains '(' then none
    else
      (inner.splitOn ";").foldr (fun kv acc =>
        match acc, kv.splitOn "=" with
        | some (some d), [k, v] =>
          match unqq k, parseValue v with
          | some k', some v' => some (some ((k', v') :: d))
          | _, _ => none
        | _, _ => none) (some (some []))
  else none

def keyLe (a b : String) : Bool := !(b.toUTF8.toList.map (·.toNat) < a.toUTF8.toList.map (·.toNat))

def renderDataM : Option Data → Option String
  | none => some "nil"
  | some d =>
    let sorted := d.mergeSort (fun a b => keyLe a.1 b.1)
    (sorted.mapM (fun kv => (renderValue kv.2).map (fun v => "~" ++ hexOf kv.1.toUTF8.toList ++ "=" ++ v))).map
      (fun parts => "M(" ++ ";".intercalate parts ++ ")")

/-- `<sec>.<nanos>@<offset>` or `zero` → ns since the Unix epoch -/
def parseInstant (s : String) : Option Int :=
  if s == "zero" then some (-62135596800 * 1000000000)
  else
    match (s.splitOn "@") with
    | [a, _] =>
      match a.splitOn "." with
      | [sec, ns] =>
        match sec.toInt?, ns.toNat? with
        | some x, some y => some (x * 1000000000 + y)
        | _, _ => none
      | _ => none
    | _ => none

def renderInstant (t : Int) : String :=
  let sec := t / 1000000000
  let ns := t % 1000000000
  toString sec ++ "." ++ toString ns

def field (toks : List String) (k : String) : Option String :=
  (toks.find? (fun t => t.startsWith (k ++ "="))).map (fun t => (t.drop (k.length + 1)).toString)

def runCodec (args : List String) : IO UInt32 := do
  match args with
  | [path] =>
    let out ← IO.getStdout
    let ls ← IO.FS.lines path
    for l in ls do
      let toks := (l.splitOn " ").filter (· ≠ "")
      match toks with
      | "rt" :: codec :: rest =>
        let c : Codec := if codec == "json" then .json else .gob
        let r : Option String := do
          let us ← field rest "us"
          let user : Option (String × Nat) ← (if us == "-" then some none else
            match us.toList with
            | 's' :: h => (strOfHex (String.ofList h)).map (fun u => some (u, 0))
            | _ => none)
          let cr ← (field rest "cr").bind parseInstant
          let la ← (field rest "la").bind parseInstant
          let ip ← (field rest "ip").bind unqq
          let ua ← (field rest "ua").bind String.toNat?
          let rf ← field rest "rf"
          let ref : Option ID ← (if rf == "-" then some none else (unqq rf).map (fun s => some (ID.lit s)))
          let da ← (field rest "da").bind parseData
          let o : Sess := { id := .lit "x", user := user, created := cr, lastAccess := la, ip := ip, ua := ua, ref := ref, data := da }
          let back := dec (fun _ => 0) (.lit "x") (enc c o)
          let daS ← renderDataM back.data
          some ("us=" ++ (match back.user with | none => "-" | some (u, _) => "s" ++ hexOf u.toUTF8.toList)
            ++ " cr=" ++ renderInstant back.created ++ " la=" ++ renderInstant back.lastAccess ++ " ip=" ++ qq back.ip
            ++ " ua=" ++ toString back.ua
            ++ " rf=" ++ (match back.ref with | none => "-" | some (.lit s) => qq s | some (.gen _) => "?")
            ++ " da=" ++ daS)
        out.putStrLn (match r with | some s => "rt " ++ codec ++ " " ++ s | none => "skip")
      | _ => pure ()
    return 0
  | _ => IO.eprintln "usage: driver codec <cases>"; return 2
end Drv.Cdc
