import Sessions.Ids.All
/-! Driver mode `ids`: `driver ids <harness log>` recomputes, with the Lean functions the C19 theorems are
about, every identifier the real package produced from the recorded inputs (random bytes read, clock
readings, MAC address, generator state) and prints one expected value per `sid`/`rid`/`cuid` line. -/
namespace Drv

def hexn (c : Char) : Nat :=
  if '0' ≤ c && c ≤ '9' then c.toNat - 48 else if 'a' ≤ c && c ≤ 'f' then c.toNat - 87 else 0

def unhexNat : List Char → List Nat
  | a :: b :: r => (hexn a * 16 + hexn b) :: unhexNat r
  | _ => []

def bytesOf (s : String) : List Nat := if s == "-" then [] else unhexNat s.toList

def runIds (args : List String) : IO UInt32 := do
  match args with
  | [log] =>
    let out ← IO.getStdout
    let ls ← IO.FS.lines log
    let mut mac : Nat := 0
    let mut lt : Nat := 0
    let mut lc : Nat := 0
    for l in ls do
      match (l.splitOn " ").filter (· ≠ "") with
      | ["sid", _v, hx, _rt] => out.putStrLn ("sid " ++ Ids.sessionIDString (bytesOf hx))
      | ["rid", _n, _v, hx, _e] => out.putStrLn ("rid " ++ Ids.randomIDString (bytesOf hx))
      | ["cuidstart", m, t, c] =>
        mac := Ids.macHash (bytesOf m)
        lt := t.toNat!
        lc := c.toNat!
      | ["cuid", sec, nanos, _v] =>
        let (s, lt', lc') := Ids.cuidStep lt lc (Ids.cuidTimestamp sec.toNat! nanos.toNat!) mac
        lt := lt'
        lc := lc'
        out.putStrLn ("cuid " ++ s)
      | _ => pure ()
    return 0
  | _ => IO.eprintln "usage: driver ids <log>"; return 2
end Drv
