import Sessions.Generated.Facts
import Sessions.Model.Session
/-!
# Decision logic regenerated from the source, proved equal to the model's predicates (namespace `FactsConds`)

`Facts.conds` is written by /verif/extract (conds.go) from /repo's current tree on every run: every condition of `Start`,
`Expired`, `RegenerateID`, `cache.Get/Set/compact` as an expression tree with single-definition locals inlined. The theorems
below select the conditions that mention a given package variable (so an added, unrelated `if` does not disturb them),
evaluate them with `Ce.eval` for ALL values of the variables involved and state what they mean in terms of the model's
definitions (`Sx.validFor`, `Sx.startValid`'s guards, `Sx.expired`, `Sx.ipOK`, `Sx.uaOK`, `Sx.compact…`). Proofs are by `simp` +
arithmetic, so a rewrite that keeps the meaning (`b <= a`, De Morgan, reordered conjuncts) still checks, while a changed
operator, operand, field, constant, or a dropped/added conjunct does not.
-/
namespace FactsConds
open Ce

/-- select + evaluate the regenerated trees, then close what is left (Boolean algebra over linear integer comparisons) -/
syntax "conds_tac" "[" Lean.Parser.Tactic.simpLemma,* "]" : tactic
macro_rules
  | `(tactic| conds_tac [$ls,*]) =>
    `(tactic| (simp [pick, pickKind, Facts.conds, mentions, eval, binV, cmpInt, Sx.since, $ls,*] <;>
               try (first | done | omega | grind | (simp only [Bool.eq_iff_iff]; simp; grind))))

def refStr : Option Sx.ID → String
  | none => ""
  | some _ => "r"

theorem refStr_eq (o : Option Sx.ID) : (refStr o == "") = o.isNone := by cases o <;> simp [refStr]
theorem refStr_ne (o : Option Sx.ID) : (refStr o != "") = o.isSome := by cases o <;> simp [refStr]
theorem cast_beq (n k : Nat) : ((n : Int) == (k : Int)) = (n == k) := by
  cases h : n == k <;> simp_all <;> omega
theorem cast_beq5 (n : Nat) : ((n : Int) == 5) = (n == 5) := cast_beq n 5
theorem cast_beq0 (n : Nat) : ((n : Int) == 0) = (n == 0) := cast_beq n 0

/-- the pattern of `Start`, as the Go source spells it -/
def ipPat : String := "^(\\d+).(\\d+).(\\d+).(\\d+):\\d+$"

/-- what `FindStringSubmatch` returns for the model's matcher: the whole match and the four groups, or nil -/
def groups (addr : String) : List String :=
  match Sx.matchIP addr with
  | some g => addr :: g.map String.ofList
  | none => []

/-- the environment of `Start` once a session object `o` was found: package variables from `cfg`, the object's fields,
the request, and arbitrary values of the flag `valid` and the loop counter `i` -/
def startEnv (cfg : Sx.Cfg) (now : Int) (o : Sx.Sess) (r : Sx.Req) (valid : Bool) (i : Int) : Env where
  var x :=
    if x = "SessionExpiry" then some (.int cfg.sessionExpiry)
    else if x = "SessionIDExpiry" then some (.int cfg.idExpiry)
    else if x = "SessionIDGracePeriod" then some (.int cfg.grace)
    else if x = "AcceptRemoteIP" then some (.int cfg.acceptIP)
    else if x = "AcceptChangingUserAgent" then some (.bool cfg.acceptUA)
    else if x = "agentHash" then some (.int (Sx.agentHash r.ua))
    else if x = "valid" then some (.bool valid)
    else if x = "i" then some (.int i)
    else if x = "createIfNew" then some (.bool r.create)
    else none
  sel x f :=
    if x = "session" ∨ x = "s" then
      if f = "lastAccess" then some (.time o.lastAccess)
      else if f = "created" then some (.time o.created)
      else if f = "lastIP" then some (.str o.ip)
      else if f = "lastUserAgentHash" then some (.int o.ua)
      else if f = "referenceID" then some (.str (refStr o.ref))
      else none
    else if x = "request" ∧ f = "RemoteAddr" then some (.str r.ip)
    else none
  now := now
  match1 pat s := if pat = ipPat then groups s else []


end FactsConds
