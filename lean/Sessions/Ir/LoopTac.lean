import Sessions.Ir.Loop
import Sessions.Ir.Compact
/-! Symbolic evaluation of the statement layer with loops (`Ir/Loop.lean`): the tactic `ir2_eval`, and how `Sx.start`'s results read. -/
namespace Ir
open Sx Sx.Loc

/-- `Start`'s results as Go results: `(nil, nil)`, `(session, nil)`, `(nil, error)` -/
def ofStart (r : State × Res × List Ev) : Out :=
  (r.1,
   (match r.2.1 with
    | .nil => .ret [.ptr none, .err false]
    | .sess h => .ret [.ptr (some h), .err false]
    | .err _ => .ret [.ptr none, .err true]),
   r.2.2)

theorem ofStart_nil (s : State) (e : List Ev) : ofStart (s, .nil, e) = (s, .ret [.ptr none, .err false], e) := id rfl
theorem ofStart_sess (s : State) (h : Nat) (e : List Ev) : ofStart (s, .sess h, e) = (s, .ret [.ptr (some h), .err false], e) := id rfl
theorem ofStart_err (s : State) (w : String) (e : List Ev) : ofStart (s, .err w, e) = (s, .ret [.ptr none, .err true], e) := id rfl
theorem ofStart_ite (c : Prop) [Decidable c] (a b : State × Res × List Ev) :
    ofStart (if c then a else b) = if c then ofStart a else ofStart b := by split <;> rfl

/-- the parameters under which `Start` is compared with the model: the address loop may evaluate its condition 4 times, the
reference-chain loop has the fuel of `Sx.follow`, exhaustion reads `(nil, error)` -/
def startPar (cfg : Cfg) (lenOf : ID → Nat) : Par :=
  { cfg := cfg, lenOf := lenOf,
    fuel := fun k st => if k = 0 then 4 else st.store.length + st.cache.length + 1,
    exhausted := [.ptr none, .err true] }

/-- Evaluate the statement layer on a concrete tree. The interpreter's functions are unfolded only when they are applied to a machine
state in constructor form (`M.mk …`), never under the binder of a continuation: evaluation is call by value, and a continuation is
simplified once, after it has been applied. -/
syntax "ir2_eval" "[" Lean.Parser.Tactic.simpLemma,* "]" : tactic
set_option hygiene false in
macro_rules
  | `(tactic| ir2_eval [$ls,*]) =>
    `(tactic| simp (config := { maxSteps := 4000000 }) [execP,
        (fun (st : State) (env : List (String × V)) (es : List Ev) (hs : List String) (l : ID → Nat) => ev.eq_1 (m := (M.mk st env es hs l))),
        (fun (st : State) (env : List (String × V)) (es : List Ev) (hs : List String) (l : ID → Nat) => ev.eq_2 (m := (M.mk st env es hs l))),
        (fun (st : State) (env : List (String × V)) (es : List Ev) (hs : List String) (l : ID → Nat) => ev.eq_3 (m := (M.mk st env es hs l))),
        (fun (st : State) (env : List (String × V)) (es : List Ev) (hs : List String) (l : ID → Nat) => ev.eq_4 (m := (M.mk st env es hs l))),
        (fun (st : State) (env : List (String × V)) (es : List Ev) (hs : List String) (l : ID → Nat) => ev.eq_5 (m := (M.mk st env es hs l))),
        (fun (st : State) (env : List (String × V)) (es : List Ev) (hs : List String) (l : ID → Nat) => ev.eq_6 (m := (M.mk st env es hs l))),
        (fun (st : State) (env : List (String × V)) (es : List Ev) (hs : List String) (l : ID → Nat) => ev.eq_7 (m := (M.mk st env es hs l))),
        (fun (st : State) (env : List (String × V)) (es : List Ev) (hs : List String) (l : ID → Nat) => ev.eq_8 (m := (M.mk st env es hs l))),
        (fun (st : State) (env : List (String × V)) (es : List Ev) (hs : List String) (l : ID → Nat) => ev.eq_9 (m := (M.mk st env es hs l))),
        (fun (st : State) (env : List (String × V)) (es : List Ev) (hs : List String) (l : ID → Nat) => ev.eq_10 (m := (M.mk st env es hs l))),
        (fun (st : State) (env : List (String × V)) (es : List Ev) (hs : List String) (l : ID → Nat) => ev.eq_11 (m := (M.mk st env es hs l))),
        (fun (st : State) (env : List (String × V)) (es : List Ev) (hs : List String) (l : ID → Nat) => ev.eq_12 (m := (M.mk st env es hs l))),
        (fun (st : State) (env : List (String × V)) (es : List Ev) (hs : List String) (l : ID → Nat) => ev.eq_13 (m := (M.mk st env es hs l))),
        (fun (st : State) (env : List (String × V)) (es : List Ev) (hs : List String) (l : ID → Nat) => ev.eq_14 (m := (M.mk st env es hs l))),
        (fun (st : State) (env : List (String × V)) (es : List Ev) (hs : List String) (l : ID → Nat) => ev.eq_15 (m := (M.mk st env es hs l))),
        (fun (st : State) (env : List (String × V)) (es : List Ev) (hs : List String) (l : ID → Nat) => ev.eq_16 (m := (M.mk st env es hs l))),
        (fun (st : State) (env : List (String × V)) (es : List Ev) (hs : List String) (l : ID → Nat) => ev.eq_17 (m := (M.mk st env es hs l))),
        (fun (st : State) (env : List (String × V)) (es : List Ev) (hs : List String) (l : ID → Nat) => ev.eq_18 (m := (M.mk st env es hs l))),
        (fun (st : State) (env : List (String × V)) (es : List Ev) (hs : List String) (l : ID → Nat) => ev.eq_19 (m := (M.mk st env es hs l))),
        (fun (st : State) (env : List (String × V)) (es : List Ev) (hs : List String) (l : ID → Nat) => ev.eq_20 (m := (M.mk st env es hs l))),
        (fun (st : State) (env : List (String × V)) (es : List Ev) (hs : List String) (l : ID → Nat) => evs.eq_1 (m := (M.mk st env es hs l))),
        (fun (st : State) (env : List (String × V)) (es : List Ev) (hs : List String) (l : ID → Nat) => evs.eq_2 (m := (M.mk st env es hs l))),
        (fun (st : State) (env : List (String × V)) (es : List Ev) (hs : List String) (l : ID → Nat) => evf.eq_1 (m := (M.mk st env es hs l))),
        (fun (st : State) (env : List (String × V)) (es : List Ev) (hs : List String) (l : ID → Nat) => evf.eq_2 (m := (M.mk st env es hs l))),
        (fun (st : State) (env : List (String × V)) (es : List Ev) (hs : List String) (l : ID → Nat) => run.eq_1 (m := (M.mk st env es hs l))),
        (fun (st : State) (env : List (String × V)) (es : List Ev) (hs : List String) (l : ID → Nat) => run.eq_2 (m := (M.mk st env es hs l))),
        (fun (st : State) (env : List (String × V)) (es : List Ev) (hs : List String) (l : ID → Nat) => run.eq_3 (m := (M.mk st env es hs l))),
        (fun (st : State) (env : List (String × V)) (es : List Ev) (hs : List String) (l : ID → Nat) => run.eq_4 (m := (M.mk st env es hs l))),
        (fun (st : State) (env : List (String × V)) (es : List Ev) (hs : List String) (l : ID → Nat) => run.eq_5 (m := (M.mk st env es hs l))),
        (fun (st : State) (env : List (String × V)) (es : List Ev) (hs : List String) (l : ID → Nat) => run.eq_6 (m := (M.mk st env es hs l))),
        (fun (st : State) (env : List (String × V)) (es : List Ev) (hs : List String) (l : ID → Nat) => run.eq_7 (m := (M.mk st env es hs l))),
        (fun (st : State) (env : List (String × V)) (es : List Ev) (hs : List String) (l : ID → Nat) => run.eq_8 (m := (M.mk st env es hs l))),
        (fun (st : State) (env : List (String × V)) (es : List Ev) (hs : List String) (l : ID → Nat) => run.eq_9 (m := (M.mk st env es hs l))),
        (fun (st : State) (env : List (String × V)) (es : List Ev) (hs : List String) (l : ID → Nat) => run.eq_10 (m := (M.mk st env es hs l))),
        (fun (st : State) (env : List (String × V)) (es : List Ev) (hs : List String) (l : ID → Nat) => run.eq_11 (m := (M.mk st env es hs l))),
        (fun (st : State) (env : List (String × V)) (es : List Ev) (hs : List String) (l : ID → Nat) => run.eq_12 (m := (M.mk st env es hs l))),
        (fun (st : State) (env : List (String × V)) (es : List Ev) (hs : List String) (l : ID → Nat) => run.eq_13 (m := (M.mk st env es hs l))),
        (fun (st : State) (env : List (String × V)) (es : List Ev) (hs : List String) (l : ID → Nat) => run.eq_14 (m := (M.mk st env es hs l))),
        (fun (st : State) (env : List (String × V)) (es : List Ev) (hs : List String) (l : ID → Nat) => run.eq_15 (m := (M.mk st env es hs l))),
        (fun (st : State) (env : List (String × V)) (es : List Ev) (hs : List String) (l : ID → Nat) => runs.eq_1 (m := (M.mk st env es hs l))),
        (fun (st : State) (env : List (String × V)) (es : List Ev) (hs : List String) (l : ID → Nat) => runs.eq_2 (m := (M.mk st env es hs l))),
        (fun (st : State) (env : List (String × V)) (es : List Ev) (hs : List String) (l : ID → Nat) => one.eq_def (m := (M.mk st env es hs l))),
        (fun (st : State) (env : List (String × V)) (es : List Ev) (hs : List String) (l : ID → Nat) => selV.eq_def (m := (M.mk st env es hs l))),
        (fun (st : State) (env : List (String × V)) (es : List Ev) (hs : List String) (l : ID → Nat) => indexV.eq_def (m := (M.mk st env es hs l))),
        (fun (st : State) (env : List (String × V)) (es : List Ev) (hs : List String) (l : ID → Nat) => storeIdx.eq_def (m := (M.mk st env es hs l))),
        (fun (st : State) (env : List (String × V)) (es : List Ev) (hs : List String) (l : ID → Nat) => prim.eq_def (m := (M.mk st env es hs l))),
        (fun (st : State) (env : List (String × V)) (es : List Ev) (hs : List String) (l : ID → Nat) => store.eq_def (m := (M.mk st env es hs l))),
        (fun (st : State) (env : List (String × V)) (es : List Ev) (hs : List String) (l : ID → Nat) => store2.eq_def (m := (M.mk st env es hs l))),
        (fun (st : State) (env : List (String × V)) (es : List Ev) (hs : List String) (l : ID → Nat) => rhs.eq_def (m := (M.mk st env es hs l))),
        (fun (st : State) (env : List (String × V)) (es : List Ev) (hs : List String) (l : ID → Nat) => M.bind.eq_1 (M.mk st env es hs l)),
        (fun (st : State) (env : List (String × V)) (es : List Ev) (hs : List String) (l : ID → Nat) => M.stuck.eq_1 (M.mk st env es hs l)),
        (fun (st : State) (env : List (String × V)) (es : List Ev) (hs : List String) (l : ID → Nat) => M.panic.eq_1 (M.mk st env es hs l)),
        (fun (st : State) (env : List (String × V)) (es : List Ev) (hs : List String) (l : ID → Nat) => M.withSt.eq_1 (M.mk st env es hs l)),
        (fun (st : State) (env : List (String × V)) (es : List Ev) (hs : List String) (l : ID → Nat) => M.emit.eq_1 (M.mk st env es hs l)),
        (fun (st : State) (env : List (String × V)) (es : List Ev) (hs : List String) (l : ID → Nat) => M.norm.eq_1 (M.mk st env es hs l)),
        loop, storeAll, storeAll2, bindAll, setVar, getVar, incDec,
        bind_norm, bind_ret, bind_brk, bind_panic, bind_stuck, bind_ite, next_norm, next_brk, next_ret, next_panic, next_stuck, next_ite,
        trim_norm, trim_brk, trim_ret, trim_panic, trim_stuck, trim_ite, merge_norm, ite_cons, ite_pair, ite_vbool, ite_vint, ite_vhash,
        ite_vstr, ofStart_nil, ofStart_sess, ofStart_err, ofStart_ite,
        aliasAllOK, aliasOK, Expr.isIdent, getField, setField, setFields, setCk, globV, zeroOf, binop, unop, eqV,
        coerceAll, coerce, zeroSess, ipPat,
        State.obj, State.setObj, State.alloc, getD_set_self, getD_append_length, set_append_length, $ls,*])

end Ir
