import Sessions.Ir.Sem
import Sessions.Proofs.Local.Basics
/-!
# Rewrite lemmas for evaluating translated code symbolically (namespace `Ir`)

Facts about the MODEL only (nothing here mentions generated code): heap reads/writes on lists, the frame of `cacheSet`, and the
canonical form of a `cacheSet` call (`Set` overwrites `lastAccess`, so the value the object carried before is irrelevant).
-/
namespace Ir
open Sx Sx.Loc

theorem getD_set_self {α : Type} {l : List α} {i : Nat} (hv : i < l.length) (a d : α) : (l.set i a)[i]?.getD d = a := by
  simp [hv]

theorem getD_append_length {α : Type} (l : List α) (a d : α) : (l ++ [a])[l.length]?.getD d = a := by simp

theorem set_append_length {α : Type} (l : List α) (a b : α) : (l ++ [a]).set l.length b = l ++ [b] := by
  induction l with
  | nil => rfl
  | cons x r ih => simp [ih]

/-- a copy of `cacheSet` for calls in canonical form -/
def cacheSetN (cfg : Cfg) (s : State) (h : Nat) : State × Bool × List Ev := cacheSet cfg s h

/-- `cache.Set` stamps `lastAccess` first: whatever value the object carried is irrelevant -/
theorem cacheSet_canon (cfg : Cfg) (s : State) (h : Nat) :
    cacheSet cfg s h = cacheSetN cfg (s.setObj h { s.obj h with lastAccess := s.now }) h := by
  unfold cacheSetN
  by_cases hv : h < s.heap.length
  · have h1 : (s.setObj h { s.obj h with lastAccess := s.now }).obj h = { s.obj h with lastAccess := s.now } :=
      obj_setObj_self hv _
    have h2 : (s.setObj h { s.obj h with lastAccess := s.now }).setObj h { s.obj h with lastAccess := s.now }
        = s.setObj h { s.obj h with lastAccess := s.now } := by
      simp [State.setObj]
    simp only [cacheSet, h1, setObj_now, h2]
  · rw [setObj_oob hv]

theorem cacheSetN_heap (cfg : Cfg) (s : State) (h : Nat) :
    (cacheSetN cfg s h).1.heap = s.heap.set h { s.obj h with lastAccess := s.now } := (cacheSet_fr cfg s h).heap
theorem cacheSetN_now (cfg : Cfg) (s : State) (h : Nat) : (cacheSetN cfg s h).1.now = s.now := cacheSet_now cfg s h
theorem cacheSetN_nextId (cfg : Cfg) (s : State) (h : Nat) : (cacheSetN cfg s h).1.nextId = s.nextId := cacheSet_nextId cfg s h
theorem cacheSetN_timers (cfg : Cfg) (s : State) (h : Nat) : (cacheSetN cfg s h).1.timers = s.timers := cacheSet_timers cfg s h
theorem cacheSetN_vers (cfg : Cfg) (s : State) (h : Nat) : (cacheSetN cfg s h).1.vers = s.vers := cacheSet_vers cfg s h
theorem cacheSetN_extra (cfg : Cfg) (s : State) (h : Nat) : (cacheSetN cfg s h).1.extra = s.extra := cacheSet_extra cfg s h


theorem compact_heap (cfg : Cfg) (req : Int) (s : State) : (compact cfg req s).1.heap = s.heap :=
  (compact_flushed cfg req s).fr.heap

/-- a record found under `id` decodes to an object carrying `id` -/
theorem loadRec_found_id {s s0 : State} {id : ID} {o : Sess} {e0 : List Ev} (hl : loadRec s id = (s0, .found o, e0)) :
    o.id = id := by
  have hc := loadRec_cases s id
  rw [hl] at hc
  cases hc <;> rfl

theorem ofHRes_hres (s : State) (b : Bool) (e : List Ev) : ofHRes (s, hres b, e) = (s, .ret [.err (!b)], e) := by
  cases b <;> rfl

theorem ofHRes_val (s : State) (v : Val) (e : List Ev) : ofHRes (s, .val v, e) = (s, .ret [.val v], e) := rfl
theorem ofHRes_panic (s : State) (e : List Ev) : ofHRes (s, .panic, e) = (s, .panic, e) := rfl
theorem ofHRes_ok (s : State) (e : List Ev) : ofHRes (s, .ok, e) = (s, .ret [.err false], e) := rfl
theorem ofHRes_err (s : State) (e : List Ev) : ofHRes (s, .err, e) = (s, .ret [.err true], e) := rfl

/-- Evaluate the interpreter on a concrete generated tree (`simp` with the equations of `Ir.exec` and its helpers, the heap
operations of the model unfolded to list operations), with the given extra rewrite rules (the generated definition, the projection
form of the model function, hypotheses), then split the remaining `if`s and close the branches. -/
syntax "ir_eval" "[" Lean.Parser.Tactic.simpLemma,* "]" : tactic
macro_rules
  | `(tactic| ir_eval [$ls,*]) =>
    `(tactic| simp [Ir.exec, Ir.execLe, bindAll, M.bind, M.stuck, M.panic, exs, ex, rhs, ev, evs, evf, one, prim, getVar, store, storeAll,
        aliasAllOK, aliasOK, Expr.isIdent, selV, indexV, storeIdx, getField, setField, setFields, setCk, globV, zeroOf, binop, unop, eqV,
        M.withSt, M.emit, coerceAll, coerce, ofErr, ofHRes_hres, ofHRes_val, ofHRes_panic, ofHRes_ok, ofHRes_err, ofGet, zeroSess,
        State.obj, State.setObj, State.alloc, getD_set_self, getD_append_length, set_append_length, $ls,*])

/-- `ir_eval`, then case analysis on the conditions that are left -/
syntax "ir_tac" "[" Lean.Parser.Tactic.simpLemma,* "]" : tactic
macro_rules
  | `(tactic| ir_tac [$ls,*]) =>
    `(tactic| (ir_eval [$ls,*]) <;> (try (repeat' split)) <;> (try simp_all [ofHRes_hres, ofHRes_val, ofHRes_panic, ofHRes_ok, ofHRes_err]))

end Ir
