/-!
# A small intermediate representation of straight-line Go (namespace `Ir`)

`/verif/extract/ir.go` translates the `go/ast` body of selected functions of rivo/sessions, statement by statement and
expression by expression (no pattern matching on the particular function), into values of these datatypes
(`Facts.ir_<Name> : Ir.Fn` in the regenerated `Sessions/Generated/Facts.lean`). `Sessions/Ir/Sem.lean` gives them their
Go meaning over the state of the hand-written model; `Sessions/FactsIr*.lean` prove the translated functions equal to the
model's functions. Core Lean only.

Grammar (Go on the left):

```
x                       ident "x"        a local: parameter, receiver, `:=`/`var` declared (shadowing declarations are
                                         renamed apart by the extractor: the second `err` becomes "err'1")
sessions, Persistence   glob "…"         any other unqualified identifier: package-level variable/function, builtin (`delete`)
time.Now                pkg "time" "Now" identifier qualified by an imported package
nil true "s" 12         nil, bool, str, int
e.f                     sel e "f"
m[k]                    index m k        (`commaOk m k` where two values are taken: `v, ok := m[k]`)
!e  -e                  un "!" e
a != b                  bin "!=" a b
f(a, b)                 call f [a, b]
&Session{f: e, …}       newSession [("f", e), …]
fmt.Errorf("…", err), errors.New("…")   mkErr   (the message is dropped; the arguments must be identifiers or literals)
map[K]V, []T, *T        typ "<source text>"   (a type as an argument: `make(map[string]interface{})`)
anything else           unk "<source text>"

a, b := e1, e2          define ["a", "b"] [e1, e2]      ("_" is the blank identifier)
l1, l2 = e1, e2         assign [l1, l2] [e1, e2]
var x T                 varDecl "x" "T"
f(a)                    expr (call …)
x.Lock() x.RLock()      lock x "Lock"            x.Unlock() x.RUnlock()     unlock x "Unlock"
defer x.Unlock()        deferUnlock x "Unlock"
if init; c { … } else { … }     ite [init] c […] […]
return e1, e2           ret [e1, e2]
go func() { … }()       go […]
for init; c; post { … } forCond k [init] c [post] […]   (also `for c { … }`; k = ordinal of the loop in the function)
break                   brk                      i++  i--     incDec i "++"
anything else           unk "<source text>"     (range, `for {}`, switch, select, labels, goto, continue, op-assign, …)
```
-/
namespace Ir

inductive Expr where
  | ident (x : String)
  | glob (x : String)
  | pkg (p x : String)
  | nil
  | bool (b : Bool)
  | str (s : String)
  | int (n : Int)
  | sel (e : Expr) (f : String)
  | index (m k : Expr)
  | commaOk (m k : Expr)
  | un (op : String) (e : Expr)
  | bin (op : String) (a b : Expr)
  | call (f : Expr) (args : List Expr)
  | newSession (fields : List (String × Expr))
  | mkErr
  | typ (text : String)
  | unk (text : String)
deriving Repr, Inhabited

inductive Stmt where
  | define (lhs : List String) (rhs : List Expr)
  | assign (lhs : List Expr) (rhs : List Expr)
  | varDecl (x : String) (ty : String)
  | expr (e : Expr)
  | lock (e : Expr) (op : String)
  | unlock (e : Expr) (op : String)
  | deferUnlock (e : Expr) (op : String)
  | ite (init : List Stmt) (c : Expr) (t e : List Stmt)
  | ret (es : List Expr)
  | go (body : List Stmt)
  | forCond (id : Nat) (init : List Stmt) (c : Expr) (post : List Stmt) (body : List Stmt)
  | brk
  | incDec (x : Expr) (op : String)
  | unk (text : String)
deriving Repr, Inhabited

/-- a translated function: receiver (if a method) and parameters by name, the types of the results as source text, the body -/
structure Fn where
  name : String
  recv : Option String := none
  params : List String := []
  results : List String := []
  body : List Stmt
deriving Repr, Inhabited

end Ir
