import Sessions.Ir.Syntax
import Sessions.Model.Session
/-!
# The meaning of the translated Go code over the model's state (namespace `Ir`)

**What is translated.** `/verif/extract/ir.go` re-reads /repo on every run and translates the bodies of
`Session.RegenerateID`, `Session.Destroy`, `cache.Set`, `cache.Delete`, `cache.Get`, `Session.Set`, `Session.Delete`,
`Session.LogOut`, `Session.GetAndDelete`, `Session.Get`, `Session.LogIn` into `Facts.ir_<Name> : Ir.Fn` (grammar: `Sessions/Ir/Syntax.lean`).
The translation is generic (statement by statement, expression by expression); the only things it abstracts are the texts of
error messages (`fmt.Errorf`/`errors.New` with identifier/literal arguments become `mkErr`, a non-nil error) and the
names of locals (shadowing declarations are renamed apart). Anything outside the subset becomes `unk`, on which the
interpreter below gets stuck, so that no equivalence theorem can be proved about the function (fail closed).

**What this file is.** `Ir.exec cfg f s args` is a total big-step interpreter (continuation passing, structural recursion
on the tree) giving that statement tree its Go meaning over the state `Sx.State` of the hand-written model:
* locals live in an environment (`M.env`); a `*Session` is a handle into `State.heap` (`V.ptr`); reading/writing a field of
  a session is `State.obj`/`State.setObj`; a session-id string is an `Sx.ID` (`V.id`), the empty string in `referenceID` is
  `none` as in `Sess.ref`; `time.Now()` is `State.now`, `time.Since(t)` is `Sx.since now t`; the package variables are the fields of `Sx.Cfg`;
  `c.sessions` is `State.cache` (`m[k]` = `Sx.lookup`, `m[k] = v` = `Sx.insert`, `delete` = `Sx.erase`), `s.data` the `data`
  field (`nil` map = `none`: assignment panics, reading and `delete` do not);
* control flow (`if` with init, `return`, sequencing, short-circuit `&&`/`||`), tuple assignment, comma-ok, composite
  literal `&Session{…}` (allocation of a heap object whose unnamed fields are zero) are interpreted here;
* lock/unlock/`defer …Unlock()` statements are skipped explicitly (the model is sequential at request granularity; the locking
  discipline is the subject of `FactsLocks`/`FactsCacheAtomic`, not of this file).

`Start` (two loops, `break`, `i++`) is translated as well (`Facts.ir_Start`); loops are interpreted by the statement layer of
`Sessions/Ir/Loop.lean` (`Ir.run`/`Ir.runs`/`Ir.execP`: fuel per loop, block scoping, merging of branches), which shares `ev` and `prim`
with this file; `ex`/`exs` below are stuck on a loop. Additional primitives for `Start`: `fnv.New64a()`/`fmt.Fprint(hash, s)`/`hash.Sum64()` ↦
`Sx.fnv1a` of what was written, `request.Header.Get("User-Agent")`/`request.RemoteAddr` ↦ the model request's `ua`/`ip`,
`len(id)` ↦ `M.lenOf id`, `regexp.MustCompile(pat).FindStringSubmatch(a)` ↦ `Ir.groups a` (whole match + 4 groups of `Sx.matchIP`, or nil),
`time.Since`, `make(map[string]interface{})`, `s.Destroy(w, r)` ↦ `Sx.destroy`.

**The trusted seam** is `prim`: calls to functions OUTSIDE the function being translated are not translated but interpreted by
the model's primitives, in call order, with their events appended in that order:
`sessions.Set(x)` ↦ `Sx.cacheSet`, `sessions.Get` ↦ `Sx.cacheGet`, `sessions.Delete` ↦ `Sx.cacheDelete`,
`c.compact(n)` ↦ `Sx.compact`, `Persistence.SaveSession(id, x)` ↦ `Sx.saveRec` of the object as it is at the time of the call,
`Persistence.LoadSession` ↦ `Sx.loadRec` (a found object is allocated on the heap, its `id` field still empty), `Persistence.DeleteSession` ↦ `Sx.delRec`,
`generateSessionID()` ↦ `ID.gen nextId` (never fails; `nextId` incremented), `NewSessionCookie()` + `cookie.Name = SessionCookie` +
`cookie.Value = id` + `http.SetCookie(response, cookie)` ↦ `Ev.setCookie id`, `request.Cookie(SessionCookie)` ↦ the request's cookie
(absent: `http.ErrNoCookie`), `deleteCookie(cookie, response)` ↦ `Ev.delCookie` (nil cookie: panic),
`go func() { time.Sleep(d); sessions.Delete(x) }()` ↦ a timer `(now + d, x)`, `s.LogOut()` ↦ `Sx.hlogout`, `LogOut(uid)` ↦ `Sx.logoutUser`,
`s.RegenerateID(w)` ↦ `Sx.regenerate`. (The cache primitives are themselves translated and proved equal to the model in
`FactsIrCache`, so for `sessions.Set/Get/Delete` the seam is closed one level down: what remains trusted there is `compact`
and the three persistence calls.) Also trusted: that a `*http.Cookie` held in a local is not aliased (copying one is stuck).

**What the theorems say** (`Sessions/FactsIr{Regen,Cache,Handlers,Login}.lean`, rebuilt on every run against the regenerated
trees): for ALL configurations, states (including both oracles) and arguments,
`Ir.exec cfg Facts.ir_RegenerateID s [.ptr (some h), .opaque] = Ir.ofErr (Sx.regenerate cfg s h)` — running the code the repository
contains now yields exactly the model's state, the model's success flag (as a nil/non-nil error) and the model's events in
order; likewise `Destroy` = `Sx.destroy`, `cache.Set/Delete/Get` = `Sx.cacheSet/cacheDelete/cacheGet`, `Session.Set/Delete/LogOut/
GetAndDelete` = `Sx.hset/hdel/hlogout/hgetdel`, `Session.LogIn` = `Sx.hlogin`, `Session.Get` = `Sx.hget`. The only hypotheses are structural: the handle is
valid (`h < s.heap.length`) where fields of the object are written, and for `cache.Get` the cached handles are valid. So every
theorem proved about `Sx.regenerate`, `Sx.cacheSet`, … is a theorem about the translated code, modulo the seam above. The proofs are
`simp` evaluations of the interpreter on the concrete tree (`ir_tac`, `Sessions/Ir/Lemmas.lean`) followed by case splits: a renamed
local, a reworded message, `if err := f(); err != nil` against two statements, reordered independent statements still check; a
changed order of calls, a different operand, a dropped `return`/statement, a loop, do not. Integers are unbounded
(`time.Duration`/`int` are 64-bit in Go; see `Cond/Expr.lean`).
-/
namespace Ir
open Sx

/-- what the model needs to know of a `*http.Cookie` -/
structure Ck where
  named : Bool := false          -- `Name` was set to `SessionCookie`
  value : Option ID := none      -- `Value` (a session id)
  fromReq : Bool := false        -- it came with the request
deriving DecidableEq, Repr, Inhabited

/-- Go values -/
inductive V where
  | opaque                       -- a value the model does not look at (response writer, results nobody may use)
  | nil                          -- the untyped `nil`
  | bool (b : Bool)
  | int (n : Int)                -- int, time.Duration
  | time (t : Int)               -- time.Time on the model's clock
  | str (s : String)             -- an ordinary string
  | id (i : ID)                  -- a string that is a session id
  | hash (n : Nat)               -- the user-agent hash
  | err (e : Bool)               -- an error; `true` = non-nil
  | ptr (h : Option Nat)         -- *Session; `none` = nil
  | user (u : Option (String × Nat))   -- User; `none` = nil
  | val (v : Val)                -- interface{} payload of the data map
  | cache                        -- the *cache (there is one: the package variable `sessions`)
  | cacheMap                     -- its map `c.sessions`
  | dataMap (h : Nat)            -- the map `s.data` of heap object `h`
  | pers                         -- the package variable `Persistence`
  | req (c : Option ID)          -- *http.Request: the session cookie it carries
  | cookie (c : Option Ck)       -- *http.Cookie; `none` = nil
  | cookieName                   -- the package variable `SessionCookie`
  | idLocks                      -- the package variable `sessionIDMutexes`
  | uid (u : String)             -- what `user.GetID()` returns
  | userArg (u : String)         -- a non-nil `User` argument whose id is `u` (its version is the user table's)
  | request (c : Option ID) (ip ua : String)   -- *http.Request as `Start` sees it: session cookie, remote address, User-Agent
  | header (ua : String)         -- its `Header`
  | hasher (k : Nat)             -- a hash.Hash64 from `fnv.New64a()`: index into `M.hs` (what was written to it)
  | regex (pat : String)         -- a compiled regular expression
  | strs (l : List String)       -- []string (nil = [])
  | newMap                       -- `make(map[string]interface{})`
deriving DecidableEq, Repr, Inhabited

inductive Outcome where
  | ret (vs : List V)            -- `return`
  | fall                         -- the end of the body was reached
  | panic                        -- a run-time panic (nil map assignment, nil dereference)
  | stuck (why : String)         -- outside the interpreted subset
  | norm (env : List (String × V)) (hs : List String)   -- (statement level, `Ir/Loop.lean`) the statement completed normally
  | brk (env : List (String × V)) (hs : List String)    -- (statement level) `break`
deriving DecidableEq, Repr, Inhabited

/-- final state, outcome, events in order -/
abbrev Out := State × Outcome × List Ev

/-- the machine: model state, locals, events so far -/
structure M where
  st : State
  env : List (String × V)
  evs : List Ev
  hs : List String := []          -- what was written to each hasher
  lenOf : ID → Nat := fun _ => 24 -- the byte length of a session-id string

def M.stuck (m : M) (why : String) : Out := (m.st, .stuck why, m.evs)
def M.panic (m : M) : Out := (m.st, .panic, m.evs)
def M.withSt (m : M) (s : State) : M := { m with st := s }
def M.emit (m : M) (e : List Ev) : M := { m with evs := m.evs ++ e }
def M.bind (m : M) (x : String) (v : V) : M := if x = "_" then m else { m with env := (x, v) :: m.env }

def getVar (x : String) : List (String × V) → Option V
  | [] => none
  | (y, v) :: r => if y = x then some v else getVar x r

def bindAll : List String → List V → M → Option M
  | [], [], m => some m
  | x :: xs, v :: vs, m => bindAll xs vs (m.bind x v)
  | _, _, _ => none

/-- exactly one value -/
def one (vs : List V) (m : M) (k : V → M → Out) : Out :=
  match vs with
  | [v] => k v m
  | _ => m.stuck "single value expected"

/-! ### fields of `Session` -/

def getField (f : String) (h : Nat) (o : Sess) : Option V :=
  if f = "id" then some (.id o.id)
  else if f = "user" then some (.user o.user)
  else if f = "created" then some (.time o.created)
  else if f = "lastAccess" then some (.time o.lastAccess)
  else if f = "lastIP" then some (.str o.ip)
  else if f = "lastUserAgentHash" then some (.hash o.ua)
  else if f = "referenceID" then some (match o.ref with | none => .str "" | some i => .id i)
  else if f = "data" then some (.dataMap h)
  else none

def setField (ver : String → Nat) (f : String) (v : V) (o : Sess) : Option Sess :=
  if f = "id" then (match v with | .id i => some { o with id := i } | _ => none)
  else if f = "user" then
    (match v with
     | .user u => some { o with user := u }
     | .userArg u => some { o with user := some (u, ver u) }
     | .nil => some { o with user := none }
     | _ => none)
  else if f = "created" then (match v with | .time t => some { o with created := t } | _ => none)
  else if f = "lastAccess" then (match v with | .time t => some { o with lastAccess := t } | _ => none)
  else if f = "lastIP" then (match v with | .str s => some { o with ip := s } | _ => none)
  else if f = "lastUserAgentHash" then (match v with | .hash n => some { o with ua := n } | _ => none)
  else if f = "referenceID" then
    (match v with
     | .id i => some { o with ref := some i }
     | .str s => if s = "" then some { o with ref := none } else none
     | _ => none)
  else if f = "data" then (match v with | .newMap => some { o with data := some [] } | _ => none)
  else none

/-- the zero `Session` of a composite literal -/
def zeroSess : Sess := { id := .lit "", user := none, created := 0, lastAccess := 0, ip := "", ua := 0, ref := none, data := none }

def setFields (ver : String → Nat) : List (String × V) → Sess → Option Sess
  | [], o => some o
  | (f, v) :: r, o => match setField ver f v o with | some o' => setFields ver r o' | none => none

def setCk (f : String) (v : V) (c : Ck) : Option Ck :=
  if f = "Name" then (match v with | .cookieName => some { c with named := true } | _ => none)
  else if f = "Value" then (match v with | .id i => some { c with value := some i } | _ => none)
  else none

/-! ### operators, package variables, zero values -/

def eqV (a b : V) : Option Bool :=
  match a, b with
  | .err e, .nil | .nil, .err e => some !e
  | .ptr h, .nil | .nil, .ptr h => some h.isNone
  | .user u, .nil | .nil, .user u => some u.isNone
  | .cookie c, .nil | .nil, .cookie c => some c.isNone
  | .nil, .nil => some true           -- a variable that was assigned the untyped `nil`
  | .int x, .int y => some (x == y)
  | .bool x, .bool y => some (x == y)
  | .str x, .str y => some (x == y)
  | .id x, .id y => some (x == y)
  | .time x, .time y => some (x == y)
  | .hash x, .hash y => some (x == y)
  | .hash x, .int y => if 0 ≤ y then some (x == y.toNat) else none
  -- a session id is never the empty string (the empty `referenceID` is `none`, see `getField`)
  | .id _, .str s | .str s, .id _ => if s = "" then some false else none
  | _, _ => none

def binop (op : String) (a b : V) : Option V :=
  if op = "==" then (eqV a b).map .bool
  else if op = "!=" then (eqV a b).map (fun x => .bool !x)
  else
    match a, b with
    | .int x, .int y =>
      if op = "+" then some (.int (x + y)) else if op = "-" then some (.int (x - y))
      else if op = "<" then some (.bool (decide (x < y))) else if op = "<=" then some (.bool (decide (x ≤ y)))
      else if op = ">" then some (.bool (decide (x > y))) else if op = ">=" then some (.bool (decide (x ≥ y)))
      else none
    | _, _ => none

def unop (op : String) (a : V) : Option V :=
  match a with
  | .bool b => if op = "!" then some (.bool !b) else none
  | .int x => if op = "-" then some (.int (-x)) else none
  | _ => none

def globV (cfg : Cfg) (x : String) : Option V :=
  if x = "sessions" then some .cache
  else if x = "Persistence" then some .pers
  else if x = "SessionCookie" then some .cookieName
  else if x = "sessionIDMutexes" then some .idLocks
  else if x = "MaxSessionCacheSize" then some (.int cfg.maxCache)
  else if x = "SessionExpiry" then some (.int cfg.sessionExpiry)
  else if x = "SessionIDExpiry" then some (.int cfg.idExpiry)
  else if x = "SessionIDGracePeriod" then some (.int cfg.grace)
  else if x = "SessionCacheExpiry" then some (.int cfg.cacheExpiry)
  else if x = "AcceptRemoteIP" then some (.int cfg.acceptIP)
  else if x = "AcceptChangingUserAgent" then some (.bool cfg.acceptUA)
  else none

def zeroOf (ty : String) : Option V :=
  if ty = "int" then some (.int 0)
  else if ty = "error" then some (.err false)
  else if ty = "bool" then some (.bool false)
  else if ty = "string" then some (.str "")
  else if ty = "*Session" then some (.ptr none)
  else if ty = "uint64" then some (.hash 0)
  else none

/-- the untyped `nil` returned as a result of the given type -/
def coerce (ty : String) (v : V) : V :=
  match v with
  | .nil => if ty = "error" then .err false else if ty = "*Session" then .ptr none else if ty = "interface{}" then .val .null else .nil
  | v => v

def coerceAll : List String → List V → List V
  | t :: ts, v :: vs => coerce t v :: coerceAll ts vs
  | _, vs => vs

/-! ### selectors and maps -/

def selV (f : String) (v : V) (m : M) (k : List V → M → Out) : Out :=
  match v with
  | .ptr (some h) => (match getField f h (m.st.obj h) with | some x => k [x] m | none => m.stuck ("field " ++ f))
  | .ptr none => m.panic
  | .cache => if f = "sessions" then k [.cacheMap] m else m.stuck ("field " ++ f)
  | .cookie (some c) =>
    if f = "Value" then (match c.value with | some i => k [.id i] m | none => k [.str ""] m) else m.stuck ("field " ++ f)
  | .cookie none => m.panic
  | .request _ ip ua =>
    if f = "Header" then k [.header ua] m else if f = "RemoteAddr" then k [.str ip] m else m.stuck ("field " ++ f)
  | _ => m.stuck ("selector " ++ f)

/-- `a[i]`: the value and whether the key is present -/
def indexV (a i : V) (m : M) (k : V → Bool → M → Out) : Out :=
  match a, i with
  | .cacheMap, .id x => k (.ptr (lookup x m.st.cache)) (lookup x m.st.cache).isSome m
  | .dataMap h, .str key =>
    k (.val ((lookup key ((m.st.obj h).data.getD [])).getD .null)) (lookup key ((m.st.obj h).data.getD [])).isSome m
  | .strs l, .int i => if 0 ≤ i ∧ i.toNat < l.length then k (.str (l.getD i.toNat "")) true m else m.panic
  | _, _ => m.stuck "index"

/-- `a[i] = v` -/
def storeIdx (a i v : V) (m : M) (k : M → Out) : Out :=
  match a, i, v with
  | .cacheMap, .id x, .ptr (some h) => k (m.withSt { m.st with cache := insert x h m.st.cache })
  | .dataMap h, .str key, .val x =>
    (match (m.st.obj h).data with
     | none => m.panic
     | some d => k (m.withSt (m.st.setObj h { m.st.obj h with data := some (insert key x d) })))
  | _, _, _ => m.stuck "map assignment"

/-! ### calls: the trusted seam -/

/-- the address pattern of `Start`, as the Go source spells it -/
def ipPat : String := "^(\\d+).(\\d+).(\\d+).(\\d+):\\d+$"

/-- what `FindStringSubmatch` returns for the model's matcher: the whole match and the four groups, or nil -/
def groups (addr : String) : List String :=
  match matchIP addr with
  | some g => addr :: g.map String.ofList
  | none => []

inductive Callee where
  | fn (g : String)              -- `g(…)`
  | pfn (p x : String)           -- `p.x(…)` of an imported package
  | meth (r : V) (name : String) -- `r.name(…)`


def prim (cfg : Cfg) (le : ID → ID → Bool) (c : Callee) (vs : List V) (m : M) (k : List V → M → Out) : Out :=
  match c with
  | .fn g =>
    if g = "generateSessionID" then
      (match vs with
       | [] => k [.id (.gen m.st.nextId), .err false] (m.withSt { m.st with nextId := m.st.nextId + 1 })
       | _ => m.stuck "generateSessionID")
    else if g = "NewSessionCookie" then
      (match vs with
       | [] => k [.cookie (some {})] m
       | _ => m.stuck "NewSessionCookie")
    else if g = "deleteCookie" then
      (match vs with
       | [.cookie c, .opaque] =>
         (match c with
          | none => m.panic
          | some ck => if ck.named then k [] (m.emit [.delCookie]) else m.stuck "deleteCookie: not the session cookie")
       | _ => m.stuck "deleteCookie")
    else if g = "delete" then
      (match vs with
       | [.cacheMap, .id i] => k [] (m.withSt { m.st with cache := erase i m.st.cache })
       | [.dataMap h, .str key] =>
         k [] (m.withSt (m.st.setObj h { m.st.obj h with data := (m.st.obj h).data.map (erase key) }))
       | _ => m.stuck "delete")
    else if g = "LogOut" then
      (match vs with
       | [.uid u] => let r := logoutUser cfg le m.st u; k [.err (!r.2.1)] ((m.withSt r.1).emit r.2.2)
       | _ => m.stuck "LogOut")
    else if g = "len" then
      (match vs with
       | [.id i] => k [.int (m.lenOf i)] m
       | [.str s] => k [.int (if s = "" then 0 else s.utf8ByteSize)] m
       | [.strs l] => k [.int l.length] m
       | _ => m.stuck "len")
    else if g = "make" then
      (match vs with
       | [.newMap] => k [.newMap] m
       | _ => m.stuck "make")
    else m.stuck ("call of " ++ g)
  | .pfn p x =>
    if p = "time" ∧ x = "Now" then
      (match vs with
       | [] => k [.time m.st.now] m
       | _ => m.stuck "time.Now")
    else if p = "time" ∧ x = "Since" then
      (match vs with
       | [.time t] => k [.int (since m.st.now t)] m
       | _ => m.stuck "time.Since")
    else if p = "http" ∧ x = "SetCookie" then
      (match vs with
       | [.opaque, .cookie (some ck)] =>
         if ck.named ∧ ck.fromReq = false then
           (match ck.value with
            | some i => k [] (m.emit [.setCookie i])
            | none => m.stuck "http.SetCookie: no value")
         else m.stuck "http.SetCookie: not a new session cookie"
       | _ => m.stuck "http.SetCookie")
    else if p = "fnv" ∧ x = "New64a" then
      (match vs with
       | [] => k [.hasher m.hs.length] { m with hs := m.hs ++ [""] }
       | _ => m.stuck "fnv.New64a")
    else if p = "fmt" ∧ x = "Fprint" then
      (match vs with
       | [.hasher j, .str t] => k [.opaque, .opaque] { m with hs := m.hs.set j (m.hs.getD j "" ++ t) }
       | _ => m.stuck "fmt.Fprint")
    else if p = "regexp" ∧ x = "MustCompile" then
      (match vs with
       | [.str pat] => k [.regex pat] m
       | _ => m.stuck "regexp.MustCompile")
    else m.stuck ("call of " ++ p ++ "." ++ x)
  | .meth r name =>
    match r with
    | .time t =>
      if name = "Add" then
        (match vs with
         | [.int d] => k [.time (t + d)] m
         | _ => m.stuck "Time.Add")
      else m.stuck ("Time." ++ name)
    | .cache =>
      if name = "Set" then
        (match vs with
         | [.ptr (some h)] => let r := cacheSet cfg m.st h; k [.err (!r.2.1)] ((m.withSt r.1).emit r.2.2)
         | [.ptr none] => m.panic
         | _ => m.stuck "cache.Set")
      else if name = "Delete" then
        (match vs with
         | [.id i] => let r := cacheDelete m.st i; k [.err (!r.2.1)] ((m.withSt r.1).emit r.2.2)
         | _ => m.stuck "cache.Delete")
      else if name = "Get" then
        (match vs with
         | [.id i] =>
           (match cacheGet cfg m.st i with
            | (s1, .err, e1) => k [.ptr none, .err true] ((m.withSt s1).emit e1)
            | (s1, .nil, e1) => k [.ptr none, .err false] ((m.withSt s1).emit e1)
            | (s1, .some h, e1) => k [.ptr (some h), .err false] ((m.withSt s1).emit e1))
         | _ => m.stuck "cache.Get")
      else if name = "compact" then
        (match vs with
         | [.int n] => let r := compact cfg n m.st; k [.opaque, .opaque] ((m.withSt r.1).emit r.2)
         | _ => m.stuck "cache.compact")
      else m.stuck ("cache." ++ name)
    | .pers =>
      if name = "SaveSession" then
        (match vs with
         | [.id i, .ptr (some h)] => let r := saveRec cfg m.st i (m.st.obj h); k [.err (!r.2.1)] ((m.withSt r.1).emit r.2.2)
         | _ => m.stuck "SaveSession")
      else if name = "DeleteSession" then
        (match vs with
         | [.id i] => let r := delRec m.st i; k [.err (!r.2.1)] ((m.withSt r.1).emit r.2.2)
         | _ => m.stuck "DeleteSession")
      else if name = "LoadSession" then
        (match vs with
         | [.id i] =>
           (match loadRec m.st i with
            | (s0, .fail, e0) => k [.ptr none, .err true] ((m.withSt s0).emit e0)
            | (s0, .nil, e0) => k [.ptr none, .err false] ((m.withSt s0).emit e0)
            | (s0, .found o, e0) =>
              -- the id is not part of a stored record: the decoded object does not carry it yet
              k [.ptr (some (s0.alloc { o with id := .lit "" }).1), .err false] ((m.withSt (s0.alloc { o with id := .lit "" }).2).emit e0))
         | _ => m.stuck "LoadSession")
      else m.stuck ("Persistence." ++ name)
    | .req c =>
      if name = "Cookie" then
        (match vs with
         | [.cookieName] => k [.cookie (c.map (fun i => { named := true, value := some i, fromReq := true })), .err c.isNone] m
         | _ => m.stuck "Request.Cookie")
      else m.stuck ("Request." ++ name)
    | .request c _ _ =>
      if name = "Cookie" then
        (match vs with
         | [.cookieName] =>
           k [.cookie (c.map (fun i => { named := true, value := some i, fromReq := true })), .err c.isNone] m
         | _ => m.stuck "Request.Cookie")
      else m.stuck ("Request." ++ name)
    | .header ua =>
      if name = "Get" then
        (match vs with
         | [.str key] => if key = "User-Agent" then k [.str ua] m else m.stuck "Header.Get: key"
         | _ => m.stuck "Header.Get")
      else m.stuck ("Header." ++ name)
    | .hasher j =>
      if name = "Sum64" then
        (match vs with
         | [] => k [.hash (fnv1a (m.hs.getD j "").toUTF8.toList)] m
         | _ => m.stuck "Sum64")
      else m.stuck ("Hash64." ++ name)
    | .regex pat =>
      if name = "FindStringSubmatch" then
        (match vs with
         | [.str a] => if pat = ipPat then k [.strs (groups a)] m else m.stuck "FindStringSubmatch: pattern"
         | _ => m.stuck "FindStringSubmatch")
      else m.stuck ("Regexp." ++ name)
    | .idLocks =>
      if name = "Lock" ∨ name = "Unlock" then k [] m else m.stuck ("sessionIDMutexes." ++ name)
    | .userArg u =>
      if name = "GetID" then
        (match vs with
         | [] => k [.uid u] m
         | _ => m.stuck "GetID")
      else m.stuck ("User." ++ name)
    | .ptr (some h) =>
      if name = "LogOut" then
        (match vs with
         | [] =>
           let r := hlogout cfg m.st h; k [.err (r.2.1 != HRes.ok)] ((m.withSt r.1).emit r.2.2)
         | _ => m.stuck "Session.LogOut")
      else if name = "Destroy" then
        (match vs with
         | [.opaque, .request c _ _] => let x := destroy m.st h c.isSome; k [.err (!x.2.1)] ((m.withSt x.1).emit x.2.2)
         | _ => m.stuck "Session.Destroy")
      else if name = "RegenerateID" then
        (match vs with
         | [.opaque] => let r := regenerate cfg m.st h; k [.err (!r.2.1)] ((m.withSt r.1).emit r.2.2)
         | _ => m.stuck "Session.RegenerateID")
      else m.stuck ("Session." ++ name)
    | _ => m.stuck ("method " ++ name)

/-! ### expressions -/

mutual
/-- the values of an expression (several for a call with several results, and for `v, ok := m[k]`) -/
def ev (cfg : Cfg) (le : ID → ID → Bool) (e : Expr) (m : M) (k : List V → M → Out) : Out :=
  match e with
  | .ident x => (match getVar x m.env with | some v => k [v] m | none => m.stuck ("unbound " ++ x))
  | .glob x => (match globV cfg x with | some v => k [v] m | none => m.stuck ("package-level " ++ x))
  | .pkg p x => m.stuck ("value of " ++ p ++ "." ++ x)
  | .nil => k [.nil] m
  | .bool b => k [.bool b] m
  | .str s => k [.str s] m
  | .int n => k [.int n] m
  | .sel a f => ev cfg le a m (fun vs m => one vs m (fun v m => selV f v m k))
  | .index a i =>
    ev cfg le a m (fun vs m => one vs m (fun va m =>
      ev cfg le i m (fun ws m => one ws m (fun vi m => indexV va vi m (fun v _ m => k [v] m)))))
  | .commaOk a i =>
    ev cfg le a m (fun vs m => one vs m (fun va m =>
      ev cfg le i m (fun ws m => one ws m (fun vi m => indexV va vi m (fun v ok m => k [v, .bool ok] m)))))
  | .un op a =>
    ev cfg le a m (fun vs m => one vs m (fun v m =>
      match unop op v with | some r => k [r] m | none => m.stuck ("operator " ++ op)))
  | .bin op a b =>
    ev cfg le a m (fun vs m => one vs m (fun va m =>
      if op = "&&" then
        (match va with
         | .bool x => if x then ev cfg le b m k else k [.bool false] m
         | _ => m.stuck "&&")
      else if op = "||" then
        (match va with
         | .bool x => if x then k [.bool true] m else ev cfg le b m k
         | _ => m.stuck "||")
      else
        ev cfg le b m (fun ws m => one ws m (fun vb m =>
          match binop op va vb with | some r => k [r] m | none => m.stuck ("operator " ++ op)))))
  | .call f args =>
    (match f with
     | .glob g => evs cfg le args m (fun vs m => prim cfg le (.fn g) vs m k)
     | .pkg p x => evs cfg le args m (fun vs m => prim cfg le (.pfn p x) vs m k)
     | .sel r name =>
       ev cfg le r m (fun rs m => one rs m (fun vr m => evs cfg le args m (fun vs m => prim cfg le (.meth vr name) vs m k)))
     | _ => m.stuck "callee")
  | .newSession fs =>
    evf cfg le fs m (fun fvs m =>
      match setFields m.st.ver fvs zeroSess with
      | some o => k [.ptr (some (m.st.alloc o).1)] (m.withSt (m.st.alloc o).2)
      | none => m.stuck "composite literal")
  | .mkErr => k [.err true] m
  | .typ t => if t = "map[string]interface{}" then k [.newMap] m else m.stuck ("type " ++ t)
  | .unk t => m.stuck ("not translated: " ++ t)
/-- single-valued expressions left to right -/
def evs (cfg : Cfg) (le : ID → ID → Bool) (es : List Expr) (m : M) (k : List V → M → Out) : Out :=
  match es with
  | [] => k [] m
  | e :: r => ev cfg le e m (fun vs m => one vs m (fun v m => evs cfg le r m (fun ws m => k (v :: ws) m)))
def evf (cfg : Cfg) (le : ID → ID → Bool) (fs : List (String × Expr)) (m : M) (k : List (String × V) → M → Out) : Out :=
  match fs with
  | [] => k [] m
  | (f, e) :: r => ev cfg le e m (fun vs m => one vs m (fun v m => evf cfg le r m (fun ws m => k ((f, v) :: ws) m)))
end

/-! ### statements -/

/-- is the expression a bare local (a copy of whatever it holds)? -/
def Expr.isIdent : Expr → Bool
  | .ident _ => true
  | _ => false

/-- a `*http.Cookie` must not be copied (the environment holds cookies by value) -/
def aliasOK (e : Expr) (v : V) : Bool :=
  match v with
  | .cookie _ => !e.isIdent
  | _ => true

/-- `l = v` -/
def store (cfg : Cfg) (le : ID → ID → Bool) (l : Expr) (v : V) (m : M) (k : M → Out) : Out :=
  match l with
  | .ident x => k (m.bind x v)
  | .sel a f =>
    ev cfg le a m (fun vs m => one vs m (fun tv m =>
      match tv with
      | .ptr (some h) =>
        (match setField m.st.ver f v (m.st.obj h) with
         | some o => k (m.withSt (m.st.setObj h o))
         | none => m.stuck ("assignment to field " ++ f))
      | .ptr none => m.panic
      | .cookie (some c) =>
        (match a, setCk f v c with
         | .ident x, some c' => k (m.bind x (.cookie (some c')))
         | _, _ => m.stuck ("assignment to cookie field " ++ f))
      | .cookie none => m.panic
      | _ => m.stuck ("assignment to ." ++ f)))
  | .index a i =>
    ev cfg le a m (fun vs m => one vs m (fun va m =>
      ev cfg le i m (fun ws m => one ws m (fun vi m => storeIdx va vi v m k))))
  | _ => m.stuck "assignment target"

def storeAll (cfg : Cfg) (le : ID → ID → Bool) : List Expr → List V → M → (M → Out) → Out
  | [], [], m, k => k m
  | l :: ls, v :: vs, m, k => store cfg le l v m (fun m => storeAll cfg le ls vs m k)
  | _, _, m, _ => m.stuck "assignment count"

def aliasAllOK : List Expr → List V → Bool
  | e :: es, v :: vs => aliasOK e v && aliasAllOK es vs
  | _, _ => true

/-- the right-hand sides of `:=`/`=`: one multi-valued expression, or as many single-valued ones as there are targets -/
def rhs (cfg : Cfg) (le : ID → ID → Bool) (es : List Expr) (m : M) (k : List V → M → Out) : Out :=
  match es with
  | [e] => ev cfg le e m (fun vs m => if aliasAllOK [e] vs then k vs m else m.stuck "copy of a cookie pointer")
  | es => evs cfg le es m (fun vs m => if aliasAllOK es vs then k vs m else m.stuck "copy of a cookie pointer")

mutual
def ex (cfg : Cfg) (le : ID → ID → Bool) (res : List String) (s : Stmt) (m : M) (k : M → Out) : Out :=
  match s with
  | .define xs es =>
    rhs cfg le es m (fun vs m => match bindAll xs vs m with | some m' => k m' | none => m.stuck "assignment count")
  | .assign ls es => rhs cfg le es m (fun vs m => storeAll cfg le ls vs m k)
  | .varDecl x ty => (match zeroOf ty with | some v => k (m.bind x v) | none => m.stuck ("zero value of " ++ ty))
  | .expr e => ev cfg le e m (fun _ m => k m)
  | .lock _ _ => k m
  | .unlock _ _ => k m
  | .deferUnlock _ _ => k m
  | .ite init c t e =>
    exs cfg le res init m (fun m =>
      ev cfg le c m (fun vs m => one vs m (fun v m =>
        match v with
        | .bool b => if b then exs cfg le res t m k else exs cfg le res e m k
        | _ => m.stuck "condition")))
  | .ret es =>
    (match es with
     | [e] => ev cfg le e m (fun vs m => (m.st, .ret (coerceAll res vs), m.evs))
     | es => evs cfg le es m (fun vs m => (m.st, .ret (coerceAll res vs), m.evs)))
  | .go body =>
    (match body with
     | [.expr (.call (.pkg p x) [d]), .expr (.call (.sel c name) [a])] =>
       if p = "time" ∧ x = "Sleep" ∧ name = "Delete" then
         ev cfg le d m (fun ds m => ev cfg le c m (fun cs m => ev cfg le a m (fun as m =>
           match ds, cs, as with
           | [.int dv], [.cache], [.id i] => k (m.withSt { m.st with timers := m.st.timers ++ [(m.st.now + dv, i)] })
           | _, _, _ => m.stuck "go: operands")))
       else m.stuck "go: body"
     | _ => m.stuck "go: body")
  | .forCond _ _ _ _ _ => m.stuck "loop (see Ir/Loop.lean)"
  | .brk => m.stuck "break (see Ir/Loop.lean)"
  | .incDec _ _ => m.stuck "inc/dec (see Ir/Loop.lean)"
  | .unk t => m.stuck ("not translated: " ++ t)
def exs (cfg : Cfg) (le : ID → ID → Bool) (res : List String) (ss : List Stmt) (m : M) (k : M → Out) : Out :=
  match ss with
  | [] => k m
  | s :: r => ex cfg le res s m (fun m => exs cfg le res r m k)
end

/-- run a translated function on the receiver (if any) followed by the arguments; `le` is the order in which
`Persistence.UserSessions` lists ids (only `LogOut(userID)` inside `LogIn` looks at it) -/
def execLe (cfg : Cfg) (le : ID → ID → Bool) (f : Fn) (s : State) (args : List V) : Out :=
  match bindAll (f.recv.toList ++ f.params) args { st := s, env := [], evs := [] } with
  | some m => exs cfg le f.results f.body m (fun m => (m.st, .fall, m.evs))
  | none => (s, .stuck "arguments", [])

def exec (cfg : Cfg) (f : Fn) (s : State) (args : List V) : Out := execLe cfg (fun _ _ => true) f s args

/-! ### how the model's results read as Go results -/

/-- a function returning `error`: the model's success flag -/
def ofErr (r : State × Bool × List Ev) : Out := (r.1, .ret [.err (!r.2.1)], r.2.2)

/-- the handler methods -/
def ofHRes (r : State × HRes × List Ev) : Out :=
  (r.1,
   (match r.2.1 with
    | .ok => .ret [.err false]
    | .err => .ret [.err true]
    | .val v => .ret [.val v]
    | .panic => .panic
    | _ => .stuck "result"),
   r.2.2)

/-- `cache.Get` -/
def ofGet (r : State × GetRes × List Ev) : Out :=
  (r.1,
   (match r.2.1 with
    | .err => .ret [.ptr none, .err true]
    | .nil => .ret [.ptr none, .err false]
    | .some h => .ret [.ptr (some h), .err false]),
   r.2.2)

end Ir
