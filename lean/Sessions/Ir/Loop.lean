import Sessions.Ir.Sem
/-!
# Statements with loops, block scoping and merging of branches (namespace `Ir`)

`Ir.run`/`Ir.runs` interpret the same statement trees as `Ir.ex`/`Ir.exs` (`Sem.lean`), with the same expression semantics and the same
primitives (`ev`, `prim`), but in DIRECT style: a statement yields an `Out` whose outcome is `norm env hs` (completed normally, with
these locals), `brk env hs` (`break`), or a final outcome (`ret`, `panic`, `stuck`). That makes three things possible:

* **loops** `for init; cond; post { body }` / `for cond { body }` with `break` and `i++`. To stay total the interpreter gives every
  loop a FUEL `P.fuel k st` (k = ordinal of the loop in the function, st = the model state at loop entry): one unit per evaluation of
  the condition. When the fuel is exhausted the function returns `P.exhausted`. For `Start` the theorem instantiates loop 0 (the
  address loop, at most 4 evaluations of `i < AcceptRemoteIP`) with 4, loop 1 (following the reference chain) with
  `store.length + cache.length + 1` — exactly the fuel of the model's `Sx.follow` — and `P.exhausted` with `(nil, error)`, which is what
  `Sx.follow` yields at fuel 0 ("Reference session not found"). Go itself would loop forever on a cycle of reference records; reachable
  states have none (`More.i3_acyclic`, `follow_fuel_enough`), so there the fuel is never exhausted.
* **block scoping**: an assignment to a local updates it in place (`setVar`), a declaration conses; on leaving a block (`if` with its init,
  the then/else blocks, a loop, a loop body) the locals declared inside are dropped (`Out.trim`), as in Go.
* **merging**: because both branches of an `if` that complete normally then carry the same variables, `if c then norm … else norm …` can be
  rewritten into ONE `norm` whose values are `if c then … else …` (`merge_norm` and the `ite_*` lemmas below). Symbolic evaluation of
  `valid := true; if … { valid = false }; if valid && … { … for … { if … { valid = false; break } } }` therefore yields one machine state whose
  `valid` is a Boolean expression, instead of a tree of copies of the rest of the function.
-/
namespace Ir
open Sx

/-- what the statement layer needs besides the configuration -/
structure Par where
  cfg : Cfg
  le : ID → ID → Bool := fun _ _ => true          -- order of `Persistence.UserSessions` (only `LogOut(userID)` looks at it)
  lenOf : ID → Nat := fun _ => 24                   -- byte length of a session-id string
  fuel : Nat → State → Nat := fun _ _ => 0          -- fuel of the k-th loop, from the model state at loop entry
  exhausted : List V := []                          -- what the function returns when a loop runs out of fuel

def M.norm (m : M) : Out := (m.st, .norm m.env m.hs, m.evs)

/-- continue with the machine state of a normally completed statement -/
def Out.bind (lenOf : ID → Nat) (o : Out) (f : M → Out) : Out :=
  match o with
  | (st, .norm env hs, evs) => f { st := st, env := env, evs := evs, hs := hs, lenOf := lenOf }
  | o => o

/-- after a loop body: `break` leaves the loop, normal completion goes on with `f` -/
def Out.next (lenOf : ID → Nat) (o : Out) (f : M → Out) : Out :=
  match o with
  | (st, .norm env hs, evs) => f { st := st, env := env, evs := evs, hs := hs, lenOf := lenOf }
  | (st, .brk env hs, evs) => (st, .norm env hs, evs)
  | o => o

/-- leave a block that was entered with `n` locals -/
def Out.trim (n : Nat) (o : Out) : Out :=
  match o with
  | (st, .norm env hs, evs) => (st, .norm (env.drop (env.length - n)) hs, evs)
  | (st, .brk env hs, evs) => (st, .brk (env.drop (env.length - n)) hs, evs)
  | o => o

def setVar (x : String) (v : V) : List (String × V) → Option (List (String × V))
  | [] => none
  | (y, w) :: r => if y = x then some ((y, v) :: r) else (setVar x v r).map ((y, w) :: ·)

/-- `l = v` with assignment to a local in place -/
def store2 (P : Par) (l : Expr) (v : V) (m : M) (k : M → Out) : Out :=
  match l with
  | .ident x =>
    if x = "_" then k m else
    (match setVar x v m.env with
     | some env => k { m with env := env }
     | none => m.stuck ("assignment to undeclared " ++ x))
  | .sel (.ident x) f =>
    (match getVar x m.env with
     | some (.cookie (some c)) =>
       (match setCk f v c with
        | some c' =>
          (match setVar x (.cookie (some c')) m.env with
           | some env => k { m with env := env }
           | none => m.stuck "cookie")
        | none => m.stuck ("assignment to cookie field " ++ f))
     | _ => store P.cfg P.le l v m k)
  | l => store P.cfg P.le l v m k

def storeAll2 (P : Par) : List Expr → List V → M → (M → Out) → Out
  | [], [], m, k => k m
  | l :: ls, v :: vs, m, k => store2 P l v m (fun m => storeAll2 P ls vs m k)
  | _, _, m, _ => m.stuck "assignment count"

/-- `x++` / `x--` -/
def incDec (op : String) (v : V) : Option V :=
  match v with
  | .int n => if op = "++" then some (.int (n + 1)) else if op = "--" then some (.int (n - 1)) else none
  | _ => none

/-- a loop with fuel: one unit per evaluation of the condition -/
def loop (lenOf : ID → Nat) (exhausted : List V) (condF : M → (Bool → M → Out) → Out) (bodyF postF : M → Out) : Nat → M → Out
  | 0, m => (m.st, .ret exhausted, m.evs)
  | n + 1, m =>
    condF m (fun b m1 =>
      if b then (bodyF m1).next lenOf (fun m2 => (postF m2).bind lenOf (loop lenOf exhausted condF bodyF postF n))
      else m1.norm)

mutual
def run (P : Par) (res : List String) (s : Stmt) (m : M) : Out :=
  match s with
  | .define xs es =>
    rhs P.cfg P.le es m (fun vs m => match bindAll xs vs m with | some m' => m'.norm | none => m.stuck "assignment count")
  | .assign ls es => rhs P.cfg P.le es m (fun vs m => storeAll2 P ls vs m M.norm)
  | .varDecl x ty => (match zeroOf ty with | some v => (m.bind x v).norm | none => m.stuck ("zero value of " ++ ty))
  | .expr e => ev P.cfg P.le e m (fun _ m => m.norm)
  | .lock _ _ => m.norm
  | .unlock _ _ => m.norm
  | .deferUnlock _ _ => m.norm
  | .ite init c t e =>
    ((runs P res init m).bind P.lenOf (fun m1 =>
      ev P.cfg P.le c m1 (fun vs m2 => one vs m2 (fun v m3 =>
        match v with
        | .bool b => if b then (runs P res t m3).trim m3.env.length else (runs P res e m3).trim m3.env.length
        | _ => m3.stuck "condition")))).trim m.env.length
  | .ret es =>
    (match es with
     | [e] => ev P.cfg P.le e m (fun vs m => (m.st, .ret (coerceAll res vs), m.evs))
     | es => evs P.cfg P.le es m (fun vs m => (m.st, .ret (coerceAll res vs), m.evs)))
  | .go body => ex P.cfg P.le res (.go body) m M.norm
  | .forCond k init c post body =>
    ((runs P res init m).bind P.lenOf (fun m1 =>
      loop P.lenOf P.exhausted
        (fun m k' => ev P.cfg P.le c m (fun vs m => one vs m (fun v m => match v with | .bool b => k' b m | _ => m.stuck "condition")))
        (fun m => (runs P res body m).trim m.env.length)
        (fun m => runs P res post m)
        (P.fuel k m1.st) m1)).trim m.env.length
  | .brk => (m.st, .brk m.env m.hs, m.evs)
  | .incDec x op =>
    ev P.cfg P.le x m (fun vs m => one vs m (fun v m =>
      match incDec op v with
      | some w => store2 P x w m M.norm
      | none => m.stuck ("operator " ++ op)))
  | .unk t => m.stuck ("not translated: " ++ t)
def runs (P : Par) (res : List String) (ss : List Stmt) (m : M) : Out :=
  match ss with
  | [] => m.norm
  | s :: r => (run P res s m).bind P.lenOf (runs P res r)
end

/-- run a translated function (statement layer with loops) on the receiver (if any) followed by the arguments -/
def execP (P : Par) (f : Fn) (s : State) (args : List V) : Out :=
  match bindAll (f.recv.toList ++ f.params) args { st := s, env := [], evs := [], lenOf := P.lenOf } with
  | some m =>
    (match runs P f.results f.body m with
     | (st, .norm _ _, evs) => (st, .fall, evs)
     | (st, .brk _ _, evs) => (st, .stuck "break outside a loop", evs)
     | o => o)
  | none => (s, .stuck "arguments", [])

/-! ### rewrite rules for symbolic evaluation -/

theorem bind_norm (l : ID → Nat) (st : State) (env : List (String × V)) (hs : List String) (evs : List Ev) (f : M → Out) :
    Out.bind l (st, .norm env hs, evs) f = f { st := st, env := env, evs := evs, hs := hs, lenOf := l } := id rfl
theorem bind_ret (l : ID → Nat) (st : State) (vs : List V) (evs : List Ev) (f : M → Out) :
    Out.bind l (st, .ret vs, evs) f = (st, .ret vs, evs) := id rfl
theorem bind_brk (l : ID → Nat) (st : State) (env : List (String × V)) (hs : List String) (evs : List Ev) (f : M → Out) :
    Out.bind l (st, .brk env hs, evs) f = (st, .brk env hs, evs) := id rfl
theorem bind_panic (l : ID → Nat) (st : State) (evs : List Ev) (f : M → Out) : Out.bind l (st, .panic, evs) f = (st, .panic, evs) := id rfl
theorem bind_stuck (l : ID → Nat) (st : State) (w : String) (evs : List Ev) (f : M → Out) :
    Out.bind l (st, .stuck w, evs) f = (st, .stuck w, evs) := id rfl
theorem bind_ite (l : ID → Nat) (c : Prop) [Decidable c] (a b : Out) (f : M → Out) :
    Out.bind l (if c then a else b) f = if c then Out.bind l a f else Out.bind l b f := by split <;> rfl

theorem next_norm (l : ID → Nat) (st : State) (env : List (String × V)) (hs : List String) (evs : List Ev) (f : M → Out) :
    Out.next l (st, .norm env hs, evs) f = f { st := st, env := env, evs := evs, hs := hs, lenOf := l } := id rfl
theorem next_brk (l : ID → Nat) (st : State) (env : List (String × V)) (hs : List String) (evs : List Ev) (f : M → Out) :
    Out.next l (st, .brk env hs, evs) f = (st, .norm env hs, evs) := id rfl
theorem next_ret (l : ID → Nat) (st : State) (vs : List V) (evs : List Ev) (f : M → Out) :
    Out.next l (st, .ret vs, evs) f = (st, .ret vs, evs) := id rfl
theorem next_panic (l : ID → Nat) (st : State) (evs : List Ev) (f : M → Out) : Out.next l (st, .panic, evs) f = (st, .panic, evs) := id rfl
theorem next_stuck (l : ID → Nat) (st : State) (w : String) (evs : List Ev) (f : M → Out) :
    Out.next l (st, .stuck w, evs) f = (st, .stuck w, evs) := id rfl
theorem next_ite (l : ID → Nat) (c : Prop) [Decidable c] (a b : Out) (f : M → Out) :
    Out.next l (if c then a else b) f = if c then Out.next l a f else Out.next l b f := by split <;> rfl

theorem trim_norm (n : Nat) (st : State) (env : List (String × V)) (hs : List String) (evs : List Ev) :
    Out.trim n (st, .norm env hs, evs) = (st, .norm (env.drop (env.length - n)) hs, evs) := id rfl
theorem trim_brk (n : Nat) (st : State) (env : List (String × V)) (hs : List String) (evs : List Ev) :
    Out.trim n (st, .brk env hs, evs) = (st, .brk (env.drop (env.length - n)) hs, evs) := id rfl
theorem trim_ret (n : Nat) (st : State) (vs : List V) (evs : List Ev) : Out.trim n (st, .ret vs, evs) = (st, .ret vs, evs) := id rfl
theorem trim_panic (n : Nat) (st : State) (evs : List Ev) : Out.trim n (st, .panic, evs) = (st, .panic, evs) := id rfl
theorem trim_stuck (n : Nat) (st : State) (w : String) (evs : List Ev) : Out.trim n (st, .stuck w, evs) = (st, .stuck w, evs) := id rfl
theorem trim_ite (n : Nat) (c : Prop) [Decidable c] (a b : Out) :
    Out.trim n (if c then a else b) = if c then Out.trim n a else Out.trim n b := by split <;> rfl

/-- two normally completed branches are one normally completed statement -/
theorem merge_norm (c : Prop) [Decidable c] (st st' : State) (env env' : List (String × V)) (hs hs' : List String) (evs evs' : List Ev) :
    (if c then ((st, .norm env hs, evs) : Out) else (st', .norm env' hs', evs')) =
      (if c then st else st', .norm (if c then env else env') (if c then hs else hs'), if c then evs else evs') := by
  split <;> rfl

theorem ite_cons {α : Type} (c : Prop) [Decidable c] (a b : α) (l l' : List α) :
    (if c then a :: l else b :: l') = (if c then a else b) :: (if c then l else l') := by split <;> rfl
theorem ite_pair (c : Prop) [Decidable c] (x : String) (a b : V) : (if c then (x, a) else (x, b)) = (x, if c then a else b) := by
  split <;> rfl
theorem ite_vbool (c : Prop) [Decidable c] (a b : Bool) : (if c then V.bool a else V.bool b) = V.bool (if c then a else b) := by
  split <;> rfl
theorem ite_vint (c : Prop) [Decidable c] (a b : Int) : (if c then V.int a else V.int b) = V.int (if c then a else b) := by
  split <;> rfl
theorem ite_vhash (c : Prop) [Decidable c] (a b : Nat) : (if c then V.hash a else V.hash b) = V.hash (if c then a else b) := by
  split <;> rfl
theorem ite_vstr (c : Prop) [Decidable c] (a b : String) : (if c then V.str a else V.str b) = V.str (if c then a else b) := by
  split <;> rfl

end Ir
