import Sessions.Ir.Lemmas
/-!
# `compact` looks at the heap only through the cached handles (namespace `Ir`)

`Persistence.LoadSession` returns a fresh object whose `id` field is not set yet (the id is not part of a stored record);
`cache.Get` sets it after having compacted the cache. The model's `loadRec` returns the object with its id. To relate the two,
`compact` run on two heaps that agree on every cached handle does the same thing (a fact about the model only).
-/
namespace Ir
open Sx Sx.Loc

set_option linter.unusedSimpArgs false

/-- the state with another heap -/
abbrev withHeap (s : State) (H : List Sess) : State := { s with heap := H }

@[simp] theorem withHeap_now (s : State) (H : List Sess) : (withHeap s H).now = s.now := rfl
@[simp] theorem withHeap_cache (s : State) (H : List Sess) : (withHeap s H).cache = s.cache := rfl
@[simp] theorem withHeap_picks (s : State) (H : List Sess) : (withHeap s H).picks = s.picks := rfl
@[simp] theorem withHeap_heap (s : State) (H : List Sess) : (withHeap s H).heap = H := rfl
theorem withHeap_setCache (s : State) (H : List Sess) (c : List (ID × Nat)) :
    { withHeap s H with cache := c } = withHeap { s with cache := c } H := rfl

/-- the heap `H` and the heap of `s` hold the same objects at the handles of `l` -/
def AgreeOn (l : List (ID × Nat)) (s : State) (H : List Sess) : Prop := ∀ e ∈ l, (withHeap s H).obj e.2 = s.obj e.2

theorem AgreeOn.of_heap {l : List (ID × Nat)} {s s' : State} {H : List Sess} (ha : AgreeOn l s H) (hh : s'.heap = s.heap) :
    AgreeOn l s' H := by
  intro e he
  have := ha e he
  simp only [State.obj, withHeap] at this ⊢
  rw [hh]; exact this

theorem AgreeOn.mono {l l' : List (ID × Nat)} {s : State} {H : List Sess} (ha : AgreeOn l s H) (hs : ∀ e ∈ l', e ∈ l) :
    AgreeOn l' s H := fun e he => ha e (hs e he)

theorem saveRec_withHeap (cfg : Cfg) (s : State) (H : List Sess) (id : ID) (o : Sess) :
    saveRec cfg (withHeap s H) id o = (withHeap (saveRec cfg s id o).1 H, (saveRec cfg s id o).2.1, (saveRec cfg s id o).2.2) := by
  cases hf : s.fails.headD false with
  | true => rw [saveRec_fail id o (by simpa [withHeap] using hf), saveRec_fail id o hf]; rfl
  | false => rw [saveRec_ok id o (by simpa [withHeap] using hf), saveRec_ok id o hf]; rfl

theorem sweep_withHeap (cfg : Cfg) (H : List Sess) :
    ∀ (l : List (ID × Nat)) (s : State), AgreeOn l s H →
      sweep cfg (withHeap s H) l = (withHeap (sweep cfg s l).1 H, (sweep cfg s l).2.1, (sweep cfg s l).2.2)
  | [], s, _ => rfl
  | (id, h) :: rest, s, ha => by
    have h0 : (withHeap s H).obj h = s.obj h := ha (id, h) List.mem_cons_self
    have hr : AgreeOn rest s H := ha.mono (fun e he => List.mem_cons_of_mem _ he)
    rw [sweep_cons, sweep_cons, h0, saveRec_withHeap]
    have ih := sweep_withHeap cfg H rest { (saveRec cfg s id (s.obj h)).1 with cache := erase id (saveRec cfg s id (s.obj h)).1.cache }
      (hr.of_heap (saveRec_fr cfg s id (s.obj h)).heap)
    have ih2 := sweep_withHeap cfg H rest s hr
    rw [ih, ih2]
    split
    · split <;> rfl
    · rfl

theorem minLA_withHeap (H : List Sess) : ∀ (l : List (ID × Nat)) (s : State), AgreeOn l s H → minLA (withHeap s H) l = minLA s l
  | [], _, _ => rfl
  | (id, h) :: rest, s, ha => by
    have h0 : (withHeap s H).obj h = s.obj h := ha (id, h) List.mem_cons_self
    have hr : AgreeOn rest s H := ha.mono (fun e he => List.mem_cons_of_mem _ he)
    simp only [minLA, h0, minLA_withHeap H rest s hr]

theorem firstMin_withHeap (H : List Sess) (m : Int) :
    ∀ (l : List (ID × Nat)) (s : State), AgreeOn l s H → firstMin (withHeap s H) m l = firstMin s m l
  | [], _, _ => rfl
  | (id, h) :: rest, s, ha => by
    have h0 : (withHeap s H).obj h = s.obj h := ha (id, h) List.mem_cons_self
    have hr : AgreeOn rest s H := ha.mono (fun e he => List.mem_cons_of_mem _ he)
    simp only [firstMin, h0, firstMin_withHeap H m rest s hr]

theorem firstMin_mem (s : State) (m : Int) : ∀ (l : List (ID × Nat)) (e : ID × Nat), firstMin s m l = some e → e ∈ l
  | [], _, h => by simp [firstMin] at h
  | (id, h) :: rest, e, he => by
    simp only [firstMin] at he
    split at he
    · cases he; exact List.mem_cons_self
    · exact List.mem_cons_of_mem _ (firstMin_mem s m rest e he)

theorem victim_withHeap (s : State) (H : List Sess) (ha : AgreeOn s.cache s H) : victim (withHeap s H) = victim s := by
  simp only [victim, withHeap_cache, withHeap_picks, minLA_withHeap H s.cache s ha]
  split
  · rfl
  · exact firstMin_withHeap H _ _ s (ha.mono (fun e he => mem_orderBy he))

theorem victim_mem {s : State} {e : ID × Nat} (hv : victim s = some e) : e ∈ s.cache := by
  simp only [victim] at hv
  split at hv
  · cases hv
  · exact mem_orderBy (firstMin_mem s _ _ e hv)

theorem evictLoop_withHeap (cfg : Cfg) (req : Int) (H : List Sess) :
    ∀ (fuel : Nat) (s : State), AgreeOn s.cache s H →
      evictLoop cfg req fuel (withHeap s H) = (withHeap (evictLoop cfg req fuel s).1 H, (evictLoop cfg req fuel s).2)
  | 0, _, _ => rfl
  | fuel + 1, s, ha => by
    rw [evictLoop_succ, evictLoop_succ, victim_withHeap s H ha]
    simp only [withHeap_cache]
    split
    · cases hvic : victim s with
      | none => rfl
      | some e =>
        obtain ⟨id, h⟩ := e
        have h0 : (withHeap s H).obj h = s.obj h := ha (id, h) (victim_mem hvic)
        simp only [h0, saveRec_withHeap, withHeap_cache, withHeap_setCache]
        have hsub : AgreeOn { (saveRec cfg s id (s.obj h)).1 with cache := erase id (saveRec cfg s id (s.obj h)).1.cache }.cache
            { (saveRec cfg s id (s.obj h)).1 with cache := erase id (saveRec cfg s id (s.obj h)).1.cache } H := by
          refine (AgreeOn.mono ha ?_).of_heap (saveRec_fr cfg s id (s.obj h)).heap
          intro e he
          have := mem_of_mem_erase he
          rwa [saveRec_cache] at this
        rw [evictLoop_withHeap cfg req H fuel _ hsub]
        split <;> rfl
    · rfl

/-- **`compact` on a heap that agrees with the state's heap on every cached handle does the same thing** (and leaves that heap alone). -/
theorem compact_withHeap (cfg : Cfg) (req : Int) (s : State) (H : List Sess) (ha : AgreeOn s.cache s H) :
    compact cfg req (withHeap s H) = (withHeap (compact cfg req s).1 H, (compact cfg req s).2) := by
  have hsw := sweep_withHeap cfg H (orderBy s.picks s.cache) s (ha.mono (fun e he => mem_orderBy he))
  have hfl := sweep_flushed cfg s.cache (orderBy s.picks s.cache) s (fun e he => mem_orderBy he)
  have ha1 : AgreeOn (sweep cfg s (orderBy s.picks s.cache)).1.cache (sweep cfg s (orderBy s.picks s.cache)).1 H :=
    (ha.mono hfl.cache_sub).of_heap hfl.fr.heap
  rw [compact_eq, compact_eq]
  simp only [withHeap_picks, withHeap_cache, hsw, evictLoop_withHeap cfg _ H _ _ ha1]
  split
  · rfl
  · split <;> rfl

/-- `LoadSession` leaves heap and cache alone -/
theorem loadRec_heap_cache (s : State) (id : ID) : (loadRec s id).1.heap = s.heap ∧ (loadRec s id).1.cache = s.cache := by
  have hc := loadRec_cases s id
  generalize loadRec s id = r at hc
  cases hc <;> exact ⟨rfl, rfl⟩

/-- two heaps that extend a heap in which every cached handle lies agree on the cached handles -/
theorem agreeOn_alloc (s : State) (o o' : Sess) (hc : ∀ e ∈ s.cache, e.2 < s.heap.length) :
    AgreeOn (s.alloc o).2.cache (s.alloc o).2 (s.heap ++ [o']) := by
  intro e he
  have h := hc e he
  simp [State.obj, State.alloc, withHeap, List.getElem?_append_left, h]

end Ir
