import Sessions.FactsIrStart
/-!
# `Start` block by block

The extractor emits the body of `Start` a second time, every statement as a definition of its own (`Facts.ir_Start_b_<i>`, nested for `if`s:
`…_t` / `…_e` are the then/else lists). `start_blocks` ties them to `Facts.ir_Start.body` (by `rfl`: the two translations are the same
tree). Symbolic evaluation then unfolds a block only when it is executed (`run_unfold`/`runs_unfold` rewrite in head position only), so `simp`
never traverses the statements that have not been reached.
-/
namespace FactsIr
open Sx Sx.Loc Ir

theorem start_blocks : Facts.ir_Start.body = Facts.ir_Start_b := rfl

/-- how `execP` ends -/
def finish (o : Ir.Out) : Ir.Out :=
  match o with
  | (st, .norm _ _, evs) => (st, .fall, evs)
  | (st, .brk _ _, evs) => (st, .stuck "break outside a loop", evs)
  | o => o

theorem finish_ret (st : State) (vs : List V) (evs : List Ev) : finish (st, Outcome.ret vs, evs) = (st, Outcome.ret vs, evs) := id rfl
theorem finish_ite (c : Prop) [Decidable c] (a b : Ir.Out) : finish (if c then a else b) = if c then finish a else finish b := by
  split <;> rfl

/-- running the whole of `Start` = running its blocks from the machine state holding the three arguments -/
theorem execP_start (P : Par) (s : State) (a b c : V) :
    Ir.execP P Facts.ir_Start s [a, b, c] =
      finish (Ir.runs P ["*Session", "error"] Facts.ir_Start_b
        { st := s, env := [("createIfNew", c), ("request", b), ("response", a)], evs := [], lenOf := P.lenOf }) := by
  rw [← start_blocks]
  rfl

theorem run_unfold {P : Par} {res : List String} {x y : Stmt} (h : x = y) (st : State) (env : List (String × V)) (es : List Ev)
    (hs : List String) (l : ID → Nat) : Ir.run P res x (M.mk st env es hs l) = Ir.run P res y (M.mk st env es hs l) := by rw [h]

theorem runs_unfold {P : Par} {res : List String} {x y : List Stmt} (h : x = y) (st : State) (env : List (String × V)) (es : List Ev)
    (hs : List String) (l : ID → Nat) : Ir.runs P res x (M.mk st env es hs l) = Ir.runs P res y (M.mk st env es hs l) := by rw [h]

end FactsIr
