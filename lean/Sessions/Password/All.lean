import Sessions.Password.Password
import Sessions.Password.Decode
import Sessions.Password.DecodeRT
import Sessions.Password.DecodeValid
import Sessions.Password.Classify
/-! C20: everything about passwords.go (rule cascade, Go-faithful rune decoding, driver entry point). -/
