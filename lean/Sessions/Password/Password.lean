/-! Spike: ReasonablePassword rule cascade (passwords.go) and its input-universal theorems (C20). -/
namespace Pw

inductive Res where
  | ok | tooShort | isAName | compromised | inDictionary | repetitive | sequential
deriving DecidableEq, Repr

/-- numeric value of the Go constant (iota order). -/
def Res.code : Res → Nat
  | .ok => 0 | .tooShort => 1 | .isAName => 2 | .compromised => 3 | .inDictionary => 4 | .repetitive => 5 | .sequential => 6

abbrev Bytes := List UInt8

/-- the repeated-character rule on runes, exactly as the `for index, ch := range password` loop. -/
def repetitive : List Nat → Bool
  | [] => false
  | r :: rest => r != 0 && rest.all (· == r)

/-- strings.Contains on bytes. -/
def isInfix (needle : Bytes) : Bytes → Bool
  | [] => needle.isEmpty
  | h :: t => needle.isPrefixOf (h :: t) || isInfix needle t

structure Env where
  lower : Bytes → Bytes            -- strings.ToLower (external)
  runes : Bytes → List Nat         -- range-over-string decoding (external here; Go-faithful decoder in the build phase)
  common : List Bytes
  dict : List Bytes
  sequences : List Bytes

def isName (e : Env) (pw : Bytes) (names : List Bytes) : Bool := names.any (fun n => e.lower pw == e.lower n)
def isSeq (e : Env) (pw : Bytes) : Bool := e.sequences.any (fun s => isInfix (e.lower pw) s)

def reasonable (e : Env) (pw : Bytes) (names : List Bytes) : Res :=
  if pw.length < 8 then .tooShort
  else if isName e pw names then .isAName
  else if e.common.contains pw then .compromised
  else if e.dict.contains pw then .inDictionary
  else if repetitive (e.runes pw) then .repetitive
  else if isSeq e pw then .sequential
  else .ok

/-- the rule each result stands for. -/
def applies (e : Env) (pw : Bytes) (names : List Bytes) : Res → Bool
  | .ok => true
  | .tooShort => pw.length < 8
  | .isAName => isName e pw names
  | .compromised => e.common.contains pw
  | .inDictionary => e.dict.contains pw
  | .repetitive => repetitive (e.runes pw)
  | .sequential => isSeq e pw

def rules : List Res := [.tooShort, .isAName, .compromised, .inDictionary, .repetitive, .sequential]

/-- C20, first-rule: the result is the first rule (in constant order) that applies, `ok` iff none does. -/
theorem first_rule (e : Env) (pw : Bytes) (names : List Bytes) :
    reasonable e pw names = (rules.find? (applies e pw names)).getD .ok := by
  unfold reasonable rules
  simp only [List.find?, applies]
  repeat' split
  all_goals (first | omega | (simp_all; done) | (simp_all <;> omega))

theorem ok_iff_none (e : Env) (pw : Bytes) (names : List Bytes) :
    reasonable e pw names = .ok ↔ ∀ r ∈ rules, applies e pw names r = false := by
  unfold reasonable rules
  simp only [applies, List.mem_cons, List.not_mem_nil, or_false, forall_eq_or_imp, forall_eq]
  repeat' split
  all_goals (first | omega | (simp_all; done) | (simp_all <;> omega))

/-- the length rule is exactly `< 8` bytes and comes first. -/
theorem short_iff (e : Env) (pw : Bytes) (names : List Bytes) :
    reasonable e pw names = .tooShort ↔ pw.length < 8 := by
  unfold reasonable
  by_cases h1 : pw.length < 8 <;> simp [h1]
  repeat' split
  all_goals simp

/-- every entry of either list is rejected, whatever the names. -/
theorem list_rejected (e : Env) (w : Bytes) (names : List Bytes) (h : w ∈ e.common ∨ w ∈ e.dict) :
    reasonable e w names ≠ .ok := by
  intro hok
  have := (ok_iff_none e w names).1 hok
  have hc := this .compromised (by simp [rules])
  have hd := this .inDictionary (by simp [rules])
  simp only [applies] at hc hd
  rcases h with h | h
  · simp at hc
    exact hc h
  · simp at hd
    exact hd h

/-- adding names never turns a rejected password into an accepted one. -/
theorem names_monotone (e : Env) (pw : Bytes) (names names' : List Bytes) (hsub : ∀ n ∈ names, n ∈ names')
    (hrej : reasonable e pw names ≠ .ok) : reasonable e pw names' ≠ .ok := by
  intro hok
  apply hrej
  rw [ok_iff_none] at hok ⊢
  intro r hr
  have h' := hok r hr
  cases r <;> simp only [applies] at h' ⊢ <;> try exact h'
  -- the name rule: if it applied with fewer names it applies with more
  unfold isName at *
  rw [List.any_eq_false] at h' ⊢
  intro n hn
  exact h' n (hsub n hn)

/-- non-vacuity: a concrete environment and inputs for every outcome (ASCII bytes spelled out so the kernel can decide). -/
def bs (l : List Nat) : Bytes := l.map UInt8.ofNat
def football := bs [102,111,111,116,98,97,108,108]
def aardvarks := bs [97,97,114,100,118,97,114,107,115]
def alphabet := bs [97,98,99,100,101,102,103,104,105,106,107,108,109,110,111,112,113,114,115,116,117,118,119,120,121,122]
def demoEnv : Env :=
  { lower := id, runes := fun b => b.map (·.toNat), common := [football], dict := [aardvarks], sequences := [alphabet] }
example : reasonable demoEnv football [] = .compromised := by decide
example : reasonable demoEnv aardvarks [] = .inDictionary := by decide
example : reasonable demoEnv (bs [122,122,122,122,122,122,122,122]) [] = .repetitive := by decide
example : reasonable demoEnv (bs [100,101,102,103,104,105,106,107,108]) [] = .sequential := by decide
example : reasonable demoEnv (bs [104,102,108,73,104,102,46,108,75,75,36,57,56,50]) [] = .ok := by decide
example : reasonable demoEnv (bs [97,98,99]) [] = .tooShort := by decide
example : reasonable demoEnv football [football] = .isAName := by decide

end Pw
