import Sessions.Password.Password
/-! C20: a Go-faithful model of `for _, ch := range password` (UTF-8 decoding with U+FFFD substitution, one
byte at a time on invalid input) and of the repeated-character loop. Core Lean only, computable, structurally
recursive (so the kernel can evaluate it in `decide` examples and the compiler produces a plain loop). -/
namespace Pw

/-- `utf8.RuneError`, U+FFFD. -/
def runeError : Nat := 65533

/-- `acceptRanges[..].lo` for the SECOND byte, indexed by the first byte (unicode/utf8 `first` table):
    E0 → A0 (no overlong 3-byte), F0 → 90 (no overlong 4-byte), otherwise 80. -/
def lo1 (b0 : Nat) : Nat := if b0 = 0xE0 then 0xA0 else if b0 = 0xF0 then 0x90 else 0x80
/-- `acceptRanges[..].hi` for the second byte: ED → 9F (no surrogates), F4 → 8F (≤ U+10FFFF), otherwise BF. -/
def hi1 (b0 : Nat) : Nat := if b0 = 0xED then 0x9F else if b0 = 0xF4 then 0x8F else 0xBF
/-- continuation byte `locb ≤ b ≤ hicb`. -/
def cont (b : Nat) : Bool := 0x80 ≤ b && b ≤ 0xBF
def second (b0 b1 : Nat) : Bool := lo1 b0 ≤ b1 && b1 ≤ hi1 b0

/-- `utf8.DecodeRuneInString` / `runtime.decoderune` on a non-empty suffix: `(rune, width)`.
    First-byte classes: 00..7F ASCII; 80..C1 and F5..FF invalid; C2..DF two bytes; E0..EF three; F0..F4 four.
    Any violation (short input, second byte outside the accept range, bad continuation) gives `(U+FFFD, 1)`. -/
def decodeOne : List UInt8 → Nat × Nat
  | [] => (runeError, 1)
  | b0 :: rest =>
    let n0 := b0.toNat
    if n0 < 0x80 then (n0, 1)
    else if n0 < 0xC2 then (runeError, 1)
    else if n0 < 0xE0 then
      match rest with
      | b1 :: _ =>
        if second n0 b1.toNat then (n0 % 32 * 64 + b1.toNat % 64, 2) else (runeError, 1)
      | _ => (runeError, 1)
    else if n0 < 0xF0 then
      match rest with
      | b1 :: b2 :: _ =>
        if second n0 b1.toNat && cont b2.toNat then (n0 % 16 * 4096 + b1.toNat % 64 * 64 + b2.toNat % 64, 3)
        else (runeError, 1)
      | _ => (runeError, 1)
    else if n0 < 0xF5 then
      match rest with
      | b1 :: b2 :: b3 :: _ =>
        if second n0 b1.toNat && cont b2.toNat && cont b3.toNat
        then (n0 % 8 * 262144 + b1.toNat % 64 * 4096 + b2.toNat % 64 * 64 + b3.toNat % 64, 4)
        else (runeError, 1)
      | _ => (runeError, 1)
    else (runeError, 1)

/-- the range loop: decode at the current position, then skip `width - 1` further bytes. -/
def decodeAux : Nat → List UInt8 → List Nat
  | _, [] => []
  | 0, b :: rest => (decodeOne (b :: rest)).1 :: decodeAux ((decodeOne (b :: rest)).2 - 1) rest
  | k + 1, _ :: rest => decodeAux k rest

/-- the sequence of `ch` values of `for _, ch := range string(bytes)`. -/
def decodeRunes (bytes : List UInt8) : List Nat := decodeAux 0 bytes

/-! ### facts about one decoding step -/

/-- what one step can return: width 1 with an ASCII rune or U+FFFD, or a shortest-form, non-surrogate,
    in-range scalar of the matching width. (Overlong forms, surrogates and > U+10FFFF never come out.) -/
def StepOK (p : Nat × Nat) : Prop :=
  (p.2 = 1 ∧ (p.1 < 0x80 ∨ p.1 = 65533)) ∨ (p.2 = 2 ∧ 0x80 ≤ p.1 ∧ p.1 < 0x800) ∨
  (p.2 = 3 ∧ 0x800 ≤ p.1 ∧ p.1 < 0x10000 ∧ ¬ (0xD800 ≤ p.1 ∧ p.1 ≤ 0xDFFF)) ∨ (p.2 = 4 ∧ 0x10000 ≤ p.1 ∧ p.1 < 0x110000)

theorem lo1_cases (b : Nat) :
    (b = 0xE0 ∧ lo1 b = 0xA0) ∨ (b = 0xF0 ∧ lo1 b = 0x90) ∨ (b ≠ 0xE0 ∧ b ≠ 0xF0 ∧ lo1 b = 0x80) := by
  unfold lo1; split <;> try split
  all_goals omega
theorem hi1_cases (b : Nat) :
    (b = 0xED ∧ hi1 b = 0x9F) ∨ (b = 0xF4 ∧ hi1 b = 0x8F) ∨ (b ≠ 0xED ∧ b ≠ 0xF4 ∧ hi1 b = 0xBF) := by
  unfold hi1; split <;> try split
  all_goals omega

theorem stepOK_err : StepOK (runeError, 1) := by simp [StepOK, runeError]

theorem decodeOne_spec (bs : List UInt8) : StepOK (decodeOne bs) := by
  unfold decodeOne
  cases bs with
  | nil => exact stepOK_err
  | cons b0 rest =>
    have h0 := b0.toNat_lt
    simp only
    by_cases c1 : b0.toNat < 0x80
    · simp [c1, StepOK]
    by_cases c2 : b0.toNat < 0xC2
    · simp only [c1, c2, ↓reduceIte]; exact stepOK_err
    by_cases c3 : b0.toNat < 0xE0
    · simp only [c1, c2, c3, ↓reduceIte]
      cases rest with
      | nil => exact stepOK_err
      | cons b1 rest =>
        simp only
        by_cases hs : second b0.toNat b1.toNat = true
        · simp only [hs, ↓reduceIte]
          refine Or.inr (Or.inl ⟨rfl, ?_⟩)
          dsimp only
          simp only [second, Bool.and_eq_true, decide_eq_true_eq] at hs
          have hlo := lo1_cases b0.toNat
          have hhi := hi1_cases b0.toNat
          have h1 := b1.toNat_lt
          omega
        · simp only [hs]; exact stepOK_err
    by_cases c4 : b0.toNat < 0xF0
    · simp only [c1, c2, c3, c4, ↓reduceIte]
      match rest with
      | [] => exact stepOK_err
      | [_] => exact stepOK_err
      | b1 :: b2 :: rest =>
        simp only
        by_cases hs : (second b0.toNat b1.toNat && cont b2.toNat) = true
        · simp only [hs, ↓reduceIte]
          refine Or.inr (Or.inr (Or.inl ⟨rfl, ?_⟩))
          dsimp only
          simp only [second, cont, Bool.and_eq_true, decide_eq_true_eq] at hs
          have hlo := lo1_cases b0.toNat
          have hhi := hi1_cases b0.toNat
          have h1 := b1.toNat_lt
          have h2 := b2.toNat_lt
          omega
        · simp only [hs]; exact stepOK_err
    by_cases c5 : b0.toNat < 0xF5
    · simp only [c1, c2, c3, c4, c5, ↓reduceIte]
      match rest with
      | [] => exact stepOK_err
      | [_] => exact stepOK_err
      | [_, _] => exact stepOK_err
      | b1 :: b2 :: b3 :: rest =>
        simp only
        by_cases hs : (second b0.toNat b1.toNat && cont b2.toNat && cont b3.toNat) = true
        · simp only [hs, ↓reduceIte]
          refine Or.inr (Or.inr (Or.inr ⟨rfl, ?_⟩))
          dsimp only
          simp only [second, cont, Bool.and_eq_true, decide_eq_true_eq] at hs
          have hlo := lo1_cases b0.toNat
          have hhi := hi1_cases b0.toNat
          have h1 := b1.toNat_lt
          have h2 := b2.toNat_lt
          have h3 := b3.toNat_lt
          omega
        · simp only [hs]; exact stepOK_err
    · simp only [c1, c2, c3, c4, c5, ↓reduceIte]; exact stepOK_err

theorem decodeOne_ascii (b : UInt8) (rest : List UInt8) (h : b.toNat < 128) : decodeOne (b :: rest) = (b.toNat, 1) := by
  simp [decodeOne, h]

/-- C20: on pure-ASCII input (every byte < 0x80; NUL included) the runes are the bytes. -/
theorem decodeRunes_ascii (bs : List UInt8) (h : ∀ b ∈ bs, b.toNat < 128) : decodeRunes bs = bs.map (·.toNat) := by
  unfold decodeRunes
  induction bs with
  | nil => rfl
  | cons b rest ih =>
    rw [decodeAux, decodeOne_ascii b rest (h b (by simp))]
    simp only [Nat.sub_self, List.map_cons]
    rw [ih (fun x hx => h x (by simp [hx]))]
example : ∀ b ∈ bs [113, 119, 101, 114, 116, 121, 0, 127], b.toNat < 128 := by decide

/-- every rune delivered by the range loop is a Unicode scalar value (U+FFFD for each undecodable byte). -/
theorem decodeAux_scalar (k : Nat) (bytes : List UInt8) :
    ∀ r ∈ decodeAux k bytes, r < 0x110000 ∧ ¬ (0xD800 ≤ r ∧ r ≤ 0xDFFF) := by
  induction bytes generalizing k with
  | nil => intro r hr; simp [decodeAux] at hr
  | cons b rest ih =>
    cases k with
    | zero =>
      intro r hr
      simp only [decodeAux, List.mem_cons] at hr
      rcases hr with rfl | hr
      · have := decodeOne_spec (b :: rest)
        unfold StepOK at this
        omega
      · exact ih _ r hr
    | succ k => intro r hr; simp only [decodeAux] at hr; exact ih _ r hr

theorem decodeRunes_scalar (bytes : List UInt8) : ∀ r ∈ decodeRunes bytes, r < 0x110000 ∧ ¬ (0xD800 ≤ r ∧ r ≤ 0xDFFF) :=
  decodeAux_scalar 0 bytes

theorem decodeAux_length (k : Nat) (bytes : List UInt8) : (decodeAux k bytes).length ≤ bytes.length := by
  induction bytes generalizing k with
  | nil => simp [decodeAux]
  | cons b rest ih =>
    cases k with
    | zero => simp only [decodeAux, List.length_cons]; have := ih ((decodeOne (b :: rest)).2 - 1); omega
    | succ k => simp only [decodeAux, List.length_cons]; have := ih k; omega

/-- at most one rune per byte, and at least one rune for a non-empty string. -/
theorem decodeRunes_length (bytes : List UInt8) : (decodeRunes bytes).length ≤ bytes.length := decodeAux_length 0 bytes
theorem decodeRunes_ne_nil (b : UInt8) (rest : List UInt8) : decodeRunes (b :: rest) ≠ [] := by
  simp [decodeRunes, decodeAux]

/-! ### examples: the Go corner cases named in C20 -/
/-- "zürich": ü = C3 BC decodes to U+00FC. -/
example : decodeRunes (bs [122, 0xC3, 0xBC, 114, 105, 99, 104]) = [122, 252, 114, 105, 99, 104] := by decide
/-- 8 × 0xFF: eight U+FFFD. -/
example : decodeRunes (bs [255, 255, 255, 255, 255, 255, 255, 255]) = List.replicate 8 65533 := by decide
/-- overlong "/" (C0 AF), a surrogate (ED A0 80), > U+10FFFF (F4 90 80 80), truncated (E2 82): all U+FFFD per byte. -/
example : decodeRunes (bs [0xC0, 0xAF, 0xED, 0xA0, 0x80, 0xF4, 0x90, 0x80, 0x80, 0xE2, 0x82]) = List.replicate 11 65533 := by decide
/-- €, 😀 and the maximal scalar U+10FFFF. -/
example : decodeRunes (bs [0xE2, 0x82, 0xAC, 0xF0, 0x9F, 0x98, 0x80, 0xF4, 0x8F, 0xBF, 0xBF]) = [0x20AC, 0x1F600, 0x10FFFF] := by decide
/-- an invalid sequence consumes ONE byte; decoding resumes at the next byte (E2 then "(" then A1). -/
example : decodeRunes (bs [0xE2, 0x28, 0xA1]) = [65533, 40, 65533] := by decide

/-! ## the repeated-character rule -/

/-- the Go loop, literally. `atStart` is `index == 0` (the first rune is the only one at byte index 0, every rune
    has width ≥ 1); the result is the final value of `first`. `break` = stop and return 0. -/
def repLoop : (atStart : Bool) → (first : Nat) → List Nat → Nat
  | _, first, [] => first
  | true, _, ch :: rest => repLoop false ch rest
  | false, first, ch :: rest => if ch != first then 0 else repLoop false first rest

theorem repLoop_false (first : Nat) (rest : List Nat) :
    repLoop false first rest = if rest.all (· == first) then first else 0 := by
  induction rest with
  | nil => simp [repLoop]
  | cons ch rest ih =>
    simp only [repLoop, ih, List.all_cons]
    by_cases h : ch = first <;> simp [h]

/-- `var first rune; for … {…}; if first != 0` is the model `repetitive`, for every rune list incl. the empty one. -/
theorem repLoop_eq_repetitive (rs : List Nat) : (repLoop true 0 rs != 0) = repetitive rs := by
  cases rs with
  | nil => rfl
  | cons r rest =>
    simp only [repLoop, repLoop_false, repetitive]
    by_cases h : rest.all (· == r) = true
    · simp [h]
    · simp only [Bool.not_eq_true] at h; simp [h]

/-- C20 `repetitive_iff`: the rule fires exactly on one or more copies of a single non-NUL rune. -/
theorem repetitive_iff (rs : List Nat) : repetitive rs = true ↔ ∃ r n, r ≠ 0 ∧ rs = List.replicate (n + 1) r := by
  cases rs with
  | nil => simp [repetitive]
  | cons r rest =>
    simp only [repetitive, Bool.and_eq_true, bne_iff_ne, ne_eq, List.all_eq_true, beq_iff_eq]
    constructor
    · rintro ⟨h0, hall⟩
      refine ⟨r, rest.length, h0, ?_⟩
      rw [List.replicate_succ, (List.eq_replicate_iff.2 ⟨rfl, hall⟩ : rest = List.replicate rest.length r)]
      simp
    · rintro ⟨r', n, h0, heq⟩
      rw [List.replicate_succ] at heq
      injection heq with h1 h2
      subst h1
      exact ⟨h0, fun x hx => by rw [h2] at hx; exact (List.mem_replicate.1 hx).2⟩
example : ∃ r n, r ≠ 0 ∧ decodeRunes (bs [255, 255, 255, 255, 255, 255, 255, 255]) = List.replicate (n + 1) r :=
  ⟨65533, 7, by decide, by decide⟩

/-- 8 × 0xFF is flagged (8 × U+FFFD), 8 × NUL is not (`first` stays 0), NUL then letters is not. -/
example : repetitive (decodeRunes (bs [255, 255, 255, 255, 255, 255, 255, 255])) = true := by decide
example : repetitive (decodeRunes (bs [0, 0, 0, 0, 0, 0, 0, 0])) = false := by decide
example : repetitive (decodeRunes (bs [0, 97, 97, 97, 97, 97, 97, 97])) = false := by decide
/-- "üüüü" (8 bytes, 4 runes) is flagged; bytes C3 BC C3 BC … are not all equal but the runes are. -/
example : repetitive (decodeRunes (bs [0xC3, 0xBC, 0xC3, 0xBC, 0xC3, 0xBC, 0xC3, 0xBC])) = true := by decide
/-- FF FE alternating decodes to all-U+FFFD and is flagged although the bytes differ. -/
example : repetitive (decodeRunes (bs [255, 254, 255, 254, 255, 254, 255, 254])) = true := by decide

end Pw
