import Sessions.Password.Decode
/-! On valid UTF-8 — i.e. on the encoding (Lean core `String.utf8EncodeChar`) of any list of Unicode scalar
values — `decodeRunes` returns exactly the code points. So for valid-UTF-8 passwords "one repeated character"
in C20 literally means: the string is `n ≥ 1` copies of one non-NUL character. -/
namespace Pw

theorem decodeOne_two (b0 b1 : UInt8) (rest : List UInt8) (h0 : 0xC2 ≤ b0.toNat) (h0' : b0.toNat < 0xE0)
    (h1 : 0x80 ≤ b1.toNat ∧ b1.toNat ≤ 0xBF) :
    decodeOne (b0 :: b1 :: rest) = (b0.toNat % 32 * 64 + b1.toNat % 64, 2) := by
  have hlo := lo1_cases b0.toNat
  have hhi := hi1_cases b0.toNat
  have hs : second b0.toNat b1.toNat = true := by simp only [second, Bool.and_eq_true, decide_eq_true_eq]; omega
  have c1 : ¬ b0.toNat < 0x80 := by omega
  have c2 : ¬ b0.toNat < 0xC2 := by omega
  simp only [decodeOne]
  rw [if_neg c1, if_neg c2, if_pos h0', if_pos hs]

theorem decodeOne_three (b0 b1 b2 : UInt8) (rest : List UInt8) (h0 : 0xE0 ≤ b0.toNat) (h0' : b0.toNat < 0xF0)
    (h1 : lo1 b0.toNat ≤ b1.toNat ∧ b1.toNat ≤ hi1 b0.toNat) (h2 : 0x80 ≤ b2.toNat ∧ b2.toNat ≤ 0xBF) :
    decodeOne (b0 :: b1 :: b2 :: rest) = (b0.toNat % 16 * 4096 + b1.toNat % 64 * 64 + b2.toNat % 64, 3) := by
  have hs : (second b0.toNat b1.toNat && cont b2.toNat) = true := by
    simp only [second, cont, Bool.and_eq_true, decide_eq_true_eq]; omega
  have c1 : ¬ b0.toNat < 0x80 := by omega
  have c2 : ¬ b0.toNat < 0xC2 := by omega
  have c3 : ¬ b0.toNat < 0xE0 := by omega
  simp only [decodeOne]
  rw [if_neg c1, if_neg c2, if_neg c3, if_pos h0', if_pos hs]

theorem decodeOne_four (b0 b1 b2 b3 : UInt8) (rest : List UInt8) (h0 : 0xF0 ≤ b0.toNat) (h0' : b0.toNat < 0xF5)
    (h1 : lo1 b0.toNat ≤ b1.toNat ∧ b1.toNat ≤ hi1 b0.toNat) (h2 : 0x80 ≤ b2.toNat ∧ b2.toNat ≤ 0xBF)
    (h3 : 0x80 ≤ b3.toNat ∧ b3.toNat ≤ 0xBF) :
    decodeOne (b0 :: b1 :: b2 :: b3 :: rest)
      = (b0.toNat % 8 * 262144 + b1.toNat % 64 * 4096 + b2.toNat % 64 * 64 + b3.toNat % 64, 4) := by
  have hs : (second b0.toNat b1.toNat && cont b2.toNat && cont b3.toNat) = true := by
    simp only [second, cont, Bool.and_eq_true, decide_eq_true_eq]; omega
  have c1 : ¬ b0.toNat < 0x80 := by omega
  have c2 : ¬ b0.toNat < 0xC2 := by omega
  have c3 : ¬ b0.toNat < 0xE0 := by omega
  have c4 : ¬ b0.toNat < 0xF0 := by omega
  simp only [decodeOne]
  rw [if_neg c1, if_neg c2, if_neg c3, if_neg c4, if_pos h0', if_pos hs]

theorem ofNat_toNat_lt (n : Nat) (h : n < 256) : (UInt8.ofNat n).toNat = n := by
  rw [UInt8.toNat_ofNat']; exact Nat.mod_eq_of_lt h

/-- one encoded character in front decodes to its code point and the loop continues right behind it. -/
theorem decodeAux_encode_append (c : Char) (rest : List UInt8) :
    decodeAux 0 (String.utf8EncodeChar c ++ rest) = c.toNat :: decodeAux 0 rest := by
  have hv : c.val.toNat < 0xD800 ∨ (0xDFFF < c.val.toNat ∧ c.val.toNat < 0x110000) := c.valid
  have hcn : c.toNat = c.val.toNat := rfl
  rw [hcn]
  unfold String.utf8EncodeChar
  simp only
  generalize c.val.toNat = v at hv ⊢
  by_cases k1 : v ≤ 0x7f
  · rw [if_pos k1]
    have e0 := ofNat_toNat_lt v (by omega)
    simp only [List.cons_append, List.nil_append, decodeAux]
    rw [decodeOne_ascii _ _ (by omega), e0]
    rfl
  rw [if_neg k1]
  by_cases k2 : v ≤ 0x7ff
  · rw [if_pos k2]
    have e0 := ofNat_toNat_lt (v / 64 % 0x20 + 0xc0) (by omega)
    have e1 := ofNat_toNat_lt (v % 0x40 + 0x80) (by omega)
    simp only [List.cons_append, List.nil_append, decodeAux]
    rw [decodeOne_two _ _ _ (by omega) (by omega) (by omega), e0, e1]
    simp only [decodeAux]
    congr 1
    omega
  rw [if_neg k2]
  by_cases k3 : v ≤ 0xffff
  · rw [if_pos k3]
    have e0 := ofNat_toNat_lt (v / 4096 % 0x10 + 0xe0) (by omega)
    have e1 := ofNat_toNat_lt (v / 64 % 0x40 + 0x80) (by omega)
    have e2 := ofNat_toNat_lt (v % 0x40 + 0x80) (by omega)
    have hlo := lo1_cases (v / 4096 % 0x10 + 0xe0)
    have hhi := hi1_cases (v / 4096 % 0x10 + 0xe0)
    simp only [List.cons_append, List.nil_append, decodeAux]
    rw [decodeOne_three _ _ _ _ (by omega) (by omega) (by rw [e0, e1]; omega) (by omega), e0, e1, e2]
    simp only [decodeAux]
    congr 1
    omega
  rw [if_neg k3]
  have e0 := ofNat_toNat_lt (v / 262144 % 0x08 + 0xf0) (by omega)
  have e1 := ofNat_toNat_lt (v / 4096 % 0x40 + 0x80) (by omega)
  have e2 := ofNat_toNat_lt (v / 64 % 0x40 + 0x80) (by omega)
  have e3 := ofNat_toNat_lt (v % 0x40 + 0x80) (by omega)
  have hlo := lo1_cases (v / 262144 % 0x08 + 0xf0)
  have hhi := hi1_cases (v / 262144 % 0x08 + 0xf0)
  simp only [List.cons_append, List.nil_append, decodeAux]
  rw [decodeOne_four _ _ _ _ _ (by omega) (by omega) (by rw [e0, e1]; omega) (by omega) (by omega), e0, e1, e2, e3]
  simp only [decodeAux]
  congr 1
  omega

/-- **valid UTF-8 decodes to its code points.** -/
theorem decodeRunes_utf8Encode (cs : List Char) :
    decodeRunes (cs.flatMap String.utf8EncodeChar) = cs.map Char.toNat := by
  unfold decodeRunes
  induction cs with
  | nil => rfl
  | cons c rest ih => rw [List.flatMap_cons, decodeAux_encode_append, ih, List.map_cons]

/-- the same for a Lean `String` (always valid UTF-8) and its byte representation. -/
theorem decodeRunes_string (s : String) : decodeRunes s.toUTF8.data.toList = s.toList.map Char.toNat := by
  have h : s.toUTF8 = s.toList.utf8Encode := by
    rw [String.toUTF8_eq_toByteArray, ← String.toByteArray_ofList, String.ofList_toList]
  rw [h, List.utf8Encode, List.toList_data_toByteArray, decodeRunes_utf8Encode]

/-- C20 on valid UTF-8: the repetition rule fires iff the text is one non-NUL character repeated. -/
theorem repetitive_string_iff (s : String) :
    repetitive (decodeRunes s.toUTF8.data.toList) = true ↔
      ∃ (c : Char) (n : Nat), c.toNat ≠ 0 ∧ s.toList = List.replicate (n + 1) c := by
  rw [decodeRunes_string, repetitive_iff]
  constructor
  · rintro ⟨r, n, hr, h⟩
    cases hs : s.toList with
    | nil => rw [hs] at h; simp at h
    | cons c t =>
      refine ⟨c, n, ?_, ?_⟩
      · rw [hs, List.map_cons, List.replicate_succ] at h; injection h with h1 _; omega
      · rw [hs] at h
        have hc : c.toNat = r := by rw [List.map_cons, List.replicate_succ] at h; injection h
        have hall : ∀ x ∈ c :: t, x = c := by
          intro x hx
          have : x.toNat ∈ (c :: t).map Char.toNat := List.mem_map.2 ⟨x, hx, rfl⟩
          rw [h] at this
          have := (List.mem_replicate.1 this).2
          exact Char.toNat_inj.1 (by omega)
        have hlen : (c :: t).length = n + 1 := by
          have := congrArg List.length h; simpa using this
        exact List.eq_replicate_iff.2 ⟨hlen, hall⟩
  · rintro ⟨c, n, hc, h⟩
    exact ⟨c.toNat, n, hc, by rw [h]; simp⟩
example : ∃ (c : Char) (n : Nat), c.toNat ≠ 0 ∧ "üüüü".toList = List.replicate (n + 1) c := ⟨'ü', 3, by decide, by decide⟩

end Pw
