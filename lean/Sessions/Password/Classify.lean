import Std.Data.HashSet
import Sessions.Password.Decode
/-! C20: the concrete, computable entry point for the driver. `classify` is `ReasonablePassword` with
 * the two embedded lists as hash sets (proved equivalent to list membership),
 * Go's `strings.ToLower` results supplied by the caller (the harness logs them; ToLower stays external),
 * the Go-faithful rune decoder `decodeRunes`, and the seven literal sequences of the source.
It is proved equal to the parametric `reasonable` for the `Env` built from these data, so all theorems of
`Password.lean` transfer. Core Lean / Std only. -/
namespace Pw

/-- the seven (uncommented) sequences of the Go source, as the UTF-8 bytes of the string literals
    (ü = C3 BC, ö = C3 B6, ä = C3 A4). -/
def goSequences : List Bytes := [
  bs [113, 119, 101, 114, 116, 121, 117, 105, 111, 112],                          -- "qwertyuiop"
  bs [113, 119, 101, 114, 116, 122, 117, 105, 111, 112, 0xC3, 0xBC],              -- "qwertzuiopü"
  bs [97, 122, 101, 114, 116, 121, 117, 105, 111, 112],                           -- "azertyuiop"
  bs [97, 115, 100, 102, 103, 104, 106, 107, 108, 0xC3, 0xB6, 0xC3, 0xA4],        -- "asdfghjklöä"
  bs [113, 115, 100, 102, 103, 104, 106, 107, 108, 109],                          -- "qsdfghjklm"
  bs [48, 49, 50, 51, 52, 53, 54, 55, 56, 57, 48],                                -- "01234567890"
  bs [97, 98, 99, 100, 101, 102, 103, 104, 105, 106, 107, 108, 109, 110, 111, 112, 113, 114, 115, 116, 117,
      118, 119, 120, 121, 122] ]                                                  -- "abcdefghijklmnopqrstuvwxyz"

/-- the byte lists above are the UTF-8 encodings of the literals as they appear in passwords.go. -/
theorem goSequences_eq : goSequences =
    ["qwertyuiop", "qwertzuiopü", "azertyuiop", "asdfghjklöä", "qsdfghjklm", "01234567890",
     "abcdefghijklmnopqrstuvwxyz"].map (fun s => s.toUTF8.toList) := by decide +kernel

/-- `strings.ToLower` restricted to ASCII input (A–Z ↦ a–z, everything else unchanged). For non-ASCII input
    Go applies `unicode.ToLower` per rune; that mapping stays external (supplied by the caller of `classify`). -/
def asciiLower (b : Bytes) : Bytes := b.map (fun c => if 65 ≤ c.toNat ∧ c.toNat ≤ 90 then c + 32 else c)

example : asciiLower (bs [81, 87, 69, 82, 84, 89, 49, 64]) = bs [113, 119, 101, 114, 116, 121, 49, 64] := by decide
theorem asciiLower_length (b : Bytes) : (asciiLower b).length = b.length := by simp [asciiLower]
theorem asciiLower_idem (b : Bytes) : asciiLower (asciiLower b) = asciiLower b := by
  simp only [asciiLower, List.map_map]
  apply List.map_congr_left
  intro c _
  simp only [Function.comp]
  by_cases h : 65 ≤ c.toNat ∧ c.toNat ≤ 90
  · have hc : (c + 32).toNat = c.toNat + 32 := by
      rw [UInt8.toNat_add]; have := c.toNat_lt; simp; omega
    have hn : ¬ (65 ≤ (c + 32).toNat ∧ (c + 32).toNat ≤ 90) := by rw [hc]; omega
    rw [if_pos h, if_neg hn]
  · rw [if_neg h, if_neg h]

/-! ## the lower-casing table supplied by the caller -/

/-- `strings.ToLower` as logged: the first entry for `b` in the table, identity when absent. -/
def lowerOf (table : List (Bytes × Bytes)) (b : Bytes) : Bytes := (table.lookup b).getD b

/-- the log is a function: every entry agrees with the first entry for the same original string.
    (True of any log of a deterministic `ToLower`; the driver can evaluate this check.) -/
def tableConsistent (table : List (Bytes × Bytes)) : Bool := table.all (fun p => table.lookup p.1 == some p.2)

theorem lowerOf_of_consistent (table : List (Bytes × Bytes)) (h : tableConsistent table = true)
    (p : Bytes × Bytes) (hp : p ∈ table) : lowerOf table p.1 = p.2 := by
  have := List.all_eq_true.1 h p hp
  simp only [beq_iff_eq] at this
  simp [lowerOf, this]

/-- the environment `ReasonablePassword` runs in, for given list contents and logged ToLower results. -/
def mkEnv (common dict : List Bytes) (table : List (Bytes × Bytes)) : Env :=
  { lower := lowerOf table, runes := decodeRunes, common := common, dict := dict, sequences := goSequences }

/-! ## the entry point -/

/-- the cascade over arbitrary membership tests for the two embedded lists. -/
def classifyWith (inCommon inDict : Bytes → Bool) (pwLower : Bytes) (pw : Bytes) (names : List (Bytes × Bytes)) : Nat :=
  if pw.length < 8 then 1
  else if names.any (fun n => pwLower == n.2) then 2
  else if inCommon pw then 3
  else if inDict pw then 4
  else if repetitive (decodeRunes pw) then 5
  else if goSequences.any (fun s => isInfix pwLower s) then 6
  else 0

/-- `ReasonablePassword(pw, names)` as the numeric Go constant (0 = PasswordOK … 6 = PasswordSequential).
    `pwLower` = `strings.ToLower(pw)`; `names` = pairs `(name, strings.ToLower(name))`;
    `common`, `dict` = the embedded lists as hash sets of byte strings. -/
def classify (common dict : Std.HashSet Bytes) (pwLower : Bytes) (pw : Bytes) (names : List (Bytes × Bytes)) : Nat :=
  classifyWith common.contains dict.contains pwLower pw names

/-- hash-set membership is list membership (so the driver's `HashSet.ofList entries` is the Go linear scan). -/
theorem contains_ofList (l : List Bytes) (x : Bytes) : (Std.HashSet.ofList l).contains x = l.contains x :=
  Std.HashSet.contains_ofList

/-- inserting one by one (how a driver may fill the set while reading the list) is the same. -/
theorem contains_insertMany (l : List Bytes) (x : Bytes) :
    ((∅ : Std.HashSet Bytes).insertMany l).contains x = l.contains x := by
  rw [Std.HashSet.contains_insertMany_list]; simp

theorem isName_mkEnv (cl dl : List Bytes) (pwLower pw : Bytes) (names : List (Bytes × Bytes))
    (hcons : tableConsistent ((pw, pwLower) :: names) = true) :
    isName (mkEnv cl dl ((pw, pwLower) :: names)) pw (names.map Prod.fst) = names.any (fun n => pwLower == n.2) := by
  have hpw : lowerOf ((pw, pwLower) :: names) pw = pwLower :=
    lowerOf_of_consistent _ hcons (pw, pwLower) (by simp)
  simp only [isName, mkEnv, List.any_map, hpw]
  rw [Bool.eq_iff_iff, List.any_eq_true, List.any_eq_true]
  constructor
  · rintro ⟨n, hn, h⟩
    refine ⟨n, hn, ?_⟩
    simp only [Function.comp] at h
    rwa [lowerOf_of_consistent _ hcons n (by simp [hn])] at h
  · rintro ⟨n, hn, h⟩
    refine ⟨n, hn, ?_⟩
    simp only [Function.comp]
    rwa [lowerOf_of_consistent _ hcons n (by simp [hn])]

/--
**`classify` is `reasonable`.** For membership tests agreeing with the lists `cl`, `dl` and a consistent
ToLower log, the driver's function is the specification instantiated with that log.
-/
theorem classifyWith_eq_reasonable (cl dl : List Bytes) (inCommon inDict : Bytes → Bool)
    (hc : ∀ x, inCommon x = cl.contains x) (hd : ∀ x, inDict x = dl.contains x)
    (pwLower pw : Bytes) (names : List (Bytes × Bytes))
    (hcons : tableConsistent ((pw, pwLower) :: names) = true) :
    classifyWith inCommon inDict pwLower pw names
      = (reasonable (mkEnv cl dl ((pw, pwLower) :: names)) pw (names.map Prod.fst)).code := by
  have hpw : lowerOf ((pw, pwLower) :: names) pw = pwLower :=
    lowerOf_of_consistent _ hcons (pw, pwLower) (by simp)
  unfold classifyWith reasonable
  rw [isName_mkEnv cl dl pwLower pw names hcons, hc, hd]
  simp only [isSeq, mkEnv, hpw]
  repeat' split
  all_goals rfl

theorem classify_eq_reasonable (cl dl : List Bytes) (common dict : Std.HashSet Bytes)
    (hc : ∀ x, common.contains x = cl.contains x) (hd : ∀ x, dict.contains x = dl.contains x)
    (pwLower pw : Bytes) (names : List (Bytes × Bytes))
    (hcons : tableConsistent ((pw, pwLower) :: names) = true) :
    classify common dict pwLower pw names
      = (reasonable (mkEnv cl dl ((pw, pwLower) :: names)) pw (names.map Prod.fst)).code :=
  classifyWith_eq_reasonable cl dl _ _ hc hd pwLower pw names hcons

theorem classify_ofList (cl dl : List Bytes) (pwLower pw : Bytes) (names : List (Bytes × Bytes))
    (hcons : tableConsistent ((pw, pwLower) :: names) = true) :
    classify (Std.HashSet.ofList cl) (Std.HashSet.ofList dl) pwLower pw names
      = (reasonable (mkEnv cl dl ((pw, pwLower) :: names)) pw (names.map Prod.fst)).code :=
  classify_eq_reasonable cl dl _ _ (contains_ofList cl) (contains_ofList dl) pwLower pw names hcons
/-- the hypotheses of `classify_ofList` are satisfiable with non-empty lists, a name and a mixed-case password. -/
example : classify (Std.HashSet.ofList [football]) (Std.HashSet.ofList [aardvarks])
      (bs [113, 119, 101, 114, 116, 121, 117, 105]) (bs [81, 87, 69, 82, 84, 89, 85, 73]) [(bs [66, 111, 98], bs [98, 111, 98])]
    = (reasonable (mkEnv [football] [aardvarks] [(bs [81, 87, 69, 82, 84, 89, 85, 73], bs [113, 119, 101, 114, 116, 121, 117, 105]),
        (bs [66, 111, 98], bs [98, 111, 98])]) (bs [81, 87, 69, 82, 84, 89, 85, 73]) [bs [66, 111, 98]]).code :=
  classify_ofList _ _ _ _ _ (by decide)
example : tableConsistent [(bs [81, 87, 69, 82, 84, 89, 85, 73], bs [113, 119, 101, 114, 116, 121, 117, 105]),
    (bs [66, 111, 98], bs [98, 111, 98]), (bs [66, 111, 98], bs [98, 111, 98])] = true := by decide
/-- an inconsistent log (same original, two different lower forms) is detected. -/
example : tableConsistent [(bs [66], bs [98]), (bs [66], bs [66])] = false := by decide

/-! ## C20 for the entry point directly (no consistency hypothesis: these only use the supplied values) -/

/-- the rule each code stands for, on the supplied data. -/
def appliesC (inCommon inDict : Bytes → Bool) (pwLower pw : Bytes) (names : List (Bytes × Bytes)) : Nat → Bool
  | 1 => pw.length < 8
  | 2 => names.any (fun n => pwLower == n.2)
  | 3 => inCommon pw
  | 4 => inDict pw
  | 5 => repetitive (decodeRunes pw)
  | 6 => goSequences.any (fun s => isInfix pwLower s)
  | _ => true

/-- C20 first-rule: the result is the least code in 1..6 whose rule applies, and 0 (PasswordOK) iff none does. -/
theorem classifyWith_first_rule (inCommon inDict : Bytes → Bool) (pwLower pw : Bytes) (names : List (Bytes × Bytes)) :
    classifyWith inCommon inDict pwLower pw names
      = (([1, 2, 3, 4, 5, 6] : List Nat).find? (appliesC inCommon inDict pwLower pw names)).getD 0 := by
  unfold classifyWith
  simp only [List.find?, appliesC]
  repeat' split
  all_goals (first | omega | (simp_all; done) | (simp_all <;> omega))

/-- C20 totality: a total function into the seven result constants. -/
theorem classifyWith_le (inCommon inDict : Bytes → Bool) (pwLower pw : Bytes) (names : List (Bytes × Bytes)) :
    classifyWith inCommon inDict pwLower pw names ≤ 6 := by
  unfold classifyWith
  repeat' split
  all_goals omega

/-- C20 `pw_short`: PasswordTooShort exactly below 8 BYTES (not runes), before any other rule. -/
theorem classifyWith_short_iff (inCommon inDict : Bytes → Bool) (pwLower pw : Bytes) (names : List (Bytes × Bytes)) :
    classifyWith inCommon inDict pwLower pw names = 1 ↔ pw.length < 8 := by
  unfold classifyWith
  by_cases h1 : pw.length < 8 <;> simp [h1]
  repeat' split
  all_goals simp

theorem classifyWith_ok_iff (inCommon inDict : Bytes → Bool) (pwLower pw : Bytes) (names : List (Bytes × Bytes)) :
    classifyWith inCommon inDict pwLower pw names = 0 ↔
      ∀ r ∈ ([1, 2, 3, 4, 5, 6] : List Nat), appliesC inCommon inDict pwLower pw names r = false := by
  unfold classifyWith
  simp only [appliesC, List.mem_cons, List.not_mem_nil, or_false, forall_eq_or_imp, forall_eq]
  generalize names.any (fun n => pwLower == n.2) = b2
  generalize inCommon pw = b3
  generalize inDict pw = b4
  generalize repetitive (decodeRunes pw) = b5
  generalize goSequences.any (fun s => isInfix pwLower s) = b6
  by_cases h1 : pw.length < 8 <;> cases b2 <;> cases b3 <;> cases b4 <;> cases b5 <;> cases b6 <;> simp [h1]

/-- C20: a password found by either membership test is rejected, whatever the names and whatever ToLower returns. -/
theorem classifyWith_list_rejected (inCommon inDict : Bytes → Bool) (pwLower w : Bytes) (names : List (Bytes × Bytes))
    (h : inCommon w = true ∨ inDict w = true) : classifyWith inCommon inDict pwLower w names ≠ 0 := by
  intro hok
  have := (classifyWith_ok_iff _ _ pwLower w names).1 hok
  have h3 := this 3 (by simp)
  have h4 := this 4 (by simp)
  simp only [appliesC] at h3 h4
  rcases h with h | h
  · rw [h] at h3; cases h3
  · rw [h] at h4; cases h4

/-- C20: adding names never turns a rejected password into an accepted one. -/
theorem classifyWith_names_monotone (inCommon inDict : Bytes → Bool) (pwLower pw : Bytes)
    (names names' : List (Bytes × Bytes)) (hsub : ∀ n ∈ names, n ∈ names')
    (hrej : classifyWith inCommon inDict pwLower pw names ≠ 0) : classifyWith inCommon inDict pwLower pw names' ≠ 0 := by
  intro hok
  apply hrej
  rw [classifyWith_ok_iff] at hok ⊢
  intro r hr
  have h' := hok r hr
  simp only [List.mem_cons, List.not_mem_nil, or_false] at hr
  rcases hr with rfl | rfl | rfl | rfl | rfl | rfl <;> simp only [appliesC] at h' ⊢ <;> try exact h'
  rw [List.any_eq_false] at h' ⊢
  intro n hn
  exact h' n (hsub n hn)
example : (∀ n ∈ ([] : List (Bytes × Bytes)), n ∈ [(football, football)])
    ∧ classifyWith (fun _ => false) [aardvarks].contains aardvarks aardvarks [] ≠ 0 := by decide

/-! ### the same five statements for the hash-set entry point `classify` -/

theorem classify_first_rule (common dict : Std.HashSet Bytes) (pwLower pw : Bytes) (names : List (Bytes × Bytes)) :
    classify common dict pwLower pw names
      = (([1, 2, 3, 4, 5, 6] : List Nat).find? (appliesC common.contains dict.contains pwLower pw names)).getD 0 :=
  classifyWith_first_rule _ _ _ _ _

theorem classify_le (common dict : Std.HashSet Bytes) (pwLower pw : Bytes) (names : List (Bytes × Bytes)) :
    classify common dict pwLower pw names ≤ 6 := classifyWith_le _ _ _ _ _

theorem classify_short_iff (common dict : Std.HashSet Bytes) (pwLower pw : Bytes) (names : List (Bytes × Bytes)) :
    classify common dict pwLower pw names = 1 ↔ pw.length < 8 := classifyWith_short_iff _ _ _ _ _

theorem classify_ok_iff (common dict : Std.HashSet Bytes) (pwLower pw : Bytes) (names : List (Bytes × Bytes)) :
    classify common dict pwLower pw names = 0 ↔
      ∀ r ∈ ([1, 2, 3, 4, 5, 6] : List Nat), appliesC common.contains dict.contains pwLower pw names r = false :=
  classifyWith_ok_iff _ _ _ _ _

/-- C20: every entry of either embedded list is rejected, whatever the names and whatever ToLower returns. -/
theorem classify_list_rejected (cl dl : List Bytes) (pwLower w : Bytes) (names : List (Bytes × Bytes))
    (h : w ∈ cl ∨ w ∈ dl) :
    classify (Std.HashSet.ofList cl) (Std.HashSet.ofList dl) pwLower w names ≠ 0 := by
  apply classifyWith_list_rejected
  simp only [contains_ofList, List.contains_iff_mem]
  exact h
example : football ∈ [football] ∨ football ∈ ([] : List Bytes) := by decide

theorem classify_names_monotone (common dict : Std.HashSet Bytes) (pwLower pw : Bytes)
    (names names' : List (Bytes × Bytes)) (hsub : ∀ n ∈ names, n ∈ names')
    (hrej : classify common dict pwLower pw names ≠ 0) : classify common dict pwLower pw names' ≠ 0 :=
  classifyWith_names_monotone _ _ _ _ names names' hsub hrej

/-! ## the `Env`-level theorems instantiated (what `classify` means in terms of the specification) -/

theorem mkEnv_first_rule (cl dl : List Bytes) (table : List (Bytes × Bytes)) (pw : Bytes) (names : List Bytes) :
    reasonable (mkEnv cl dl table) pw names = (rules.find? (applies (mkEnv cl dl table) pw names)).getD .ok :=
  first_rule _ pw names

/-- the repetition rule of the instantiated specification, characterised on the decoded runes. -/
theorem mkEnv_repetitive_iff (cl dl : List Bytes) (table : List (Bytes × Bytes)) (pw : Bytes) (names : List Bytes) :
    applies (mkEnv cl dl table) pw names .repetitive = true ↔
      ∃ r n, r ≠ 0 ∧ decodeRunes pw = List.replicate (n + 1) r := by
  simp only [applies, mkEnv]; exact repetitive_iff _

/-! ## examples through the cascade (kernel-evaluated; ToLower supplied as the caller would) -/
def noList : Bytes → Bool := fun _ => false
/-- boundary: "üüü" + "a" is 7 bytes → too short; "üüüü" is 8 bytes / 4 runes → passes the length rule (then repetitive). -/
example : classifyWith noList noList (bs [0xC3, 0xBC, 0xC3, 0xBC, 0xC3, 0xBC, 97]) (bs [0xC3, 0xBC, 0xC3, 0xBC, 0xC3, 0xBC, 97]) [] = 1 := by decide
example : classifyWith noList noList (bs [0xC3, 0xBC, 0xC3, 0xBC, 0xC3, 0xBC, 0xC3, 0xBC]) (bs [0xC3, 0xBC, 0xC3, 0xBC, 0xC3, 0xBC, 0xC3, 0xBC]) [] = 5 := by decide
/-- "QWERTYUI" with logged lower form "qwertyui": sequential. -/
example : classifyWith noList noList (bs [113, 119, 101, 114, 116, 121, 117, 105]) (bs [81, 87, 69, 82, 84, 89, 85, 73]) [] = 6 := by decide
/-- "rtzuiopü" (9 bytes) is inside "qwertzuiopü" → 6. -/
example : classifyWith noList noList (bs [114, 116, 122, 117, 105, 111, 112, 0xC3, 0xBC]) (bs [114, 116, 122, 117, 105, 111, 112, 0xC3, 0xBC]) [] = 6 := by decide
/-- 8 × 0xFF (invalid UTF-8; Go's ToLower yields 8 × EF BF BD): repetitive. -/
example : classifyWith noList noList (bs (List.replicate 8 [0xEF, 0xBF, 0xBD]).flatten) (bs (List.replicate 8 255)) [] = 5 := by decide
/-- 8 × NUL: not repetitive (Go quirk `first != 0`), not sequential → OK. -/
example : classifyWith noList noList (bs (List.replicate 8 0)) (bs (List.replicate 8 0)) [] = 0 := by decide
/-- list entries and names. -/
example : classifyWith [football].contains [aardvarks].contains football football [] = 3 := by decide
example : classifyWith [football].contains [aardvarks].contains aardvarks aardvarks [] = 4 := by decide
example : classifyWith [football].contains [aardvarks].contains football football [(football, football)] = 2 := by decide

end Pw
