import Sessions.Password.Decode
/-! The range loop over a string is compiled to `if c < utf8.RuneSelf { … } else { r, i = runtime.decoderune(s, i) }`.
`runtime.decoderune` (runtime/utf8.go) is written differently from `utf8.DecodeRuneInString` (decode first, then
range-check the rune). This file models it literally and proves it equal to the table-driven `decodeOne`. -/
namespace Pw

/-- `runtime.decoderune` preceded by the ASCII fast path of the compiled range loop.
    t2 = C0, t3 = E0, t4 = F0, t5 = F8; masks 1F / 0F / 07 / 3F as `%`; rune1Max = 7F, rune2Max = 7FF, rune3Max = FFFF. -/
def decodeOneRT : List UInt8 → Nat × Nat
  | [] => (runeError, 1)
  | b0 :: rest =>
    let n0 := b0.toNat
    if n0 < 0x80 then (n0, 1)
    else if 0xC0 ≤ n0 ∧ n0 < 0xE0 then
      match rest with
      | b1 :: _ =>
        if cont b1.toNat ∧ 0x7F < n0 % 32 * 64 + b1.toNat % 64
        then (n0 % 32 * 64 + b1.toNat % 64, 2) else (runeError, 1)
      | _ => (runeError, 1)
    else if 0xE0 ≤ n0 ∧ n0 < 0xF0 then
      match rest with
      | b1 :: b2 :: _ =>
        if cont b1.toNat ∧ cont b2.toNat ∧ 0x7FF < n0 % 16 * 4096 + b1.toNat % 64 * 64 + b2.toNat % 64 ∧
            ¬ (0xD800 ≤ n0 % 16 * 4096 + b1.toNat % 64 * 64 + b2.toNat % 64 ∧
               n0 % 16 * 4096 + b1.toNat % 64 * 64 + b2.toNat % 64 ≤ 0xDFFF)
        then (n0 % 16 * 4096 + b1.toNat % 64 * 64 + b2.toNat % 64, 3) else (runeError, 1)
      | _ => (runeError, 1)
    else if 0xF0 ≤ n0 ∧ n0 < 0xF8 then
      match rest with
      | b1 :: b2 :: b3 :: _ =>
        if cont b1.toNat ∧ cont b2.toNat ∧ cont b3.toNat ∧
            0xFFFF < n0 % 8 * 262144 + b1.toNat % 64 * 4096 + b2.toNat % 64 * 64 + b3.toNat % 64 ∧
            n0 % 8 * 262144 + b1.toNat % 64 * 4096 + b2.toNat % 64 * 64 + b3.toNat % 64 ≤ 0x10FFFF
        then (n0 % 8 * 262144 + b1.toNat % 64 * 4096 + b2.toNat % 64 * 64 + b3.toNat % 64, 4) else (runeError, 1)
      | _ => (runeError, 1)
    else (runeError, 1)

theorem second_iff (n0 b1 : Nat) : second n0 b1 = true ↔ lo1 n0 ≤ b1 ∧ b1 ≤ hi1 n0 := by
  simp [second]
theorem cont_iff (b : Nat) : cont b = true ↔ 0x80 ≤ b ∧ b ≤ 0xBF := by
  simp [cont]

theorem decodeOneRT_eq (bytes : List UInt8) : decodeOneRT bytes = decodeOne bytes := by
  unfold decodeOneRT decodeOne
  cases bytes with
  | nil => rfl
  | cons b0 rest =>
    have h0 := b0.toNat_lt
    have hlo := lo1_cases b0.toNat
    have hhi := hi1_cases b0.toNat
    simp only
    by_cases c1 : b0.toNat < 0x80
    · rw [if_pos c1, if_pos c1]
    rw [if_neg c1, if_neg c1]
    by_cases c2 : b0.toNat < 0xC0
    · have e1 : ¬ (0xC0 ≤ b0.toNat ∧ b0.toNat < 0xE0) := by omega
      have e2 : ¬ (0xE0 ≤ b0.toNat ∧ b0.toNat < 0xF0) := by omega
      have e3 : ¬ (0xF0 ≤ b0.toNat ∧ b0.toNat < 0xF8) := by omega
      have e4 : b0.toNat < 0xC2 := by omega
      rw [if_neg e1, if_neg e2, if_neg e3, if_pos e4]
    by_cases c3 : b0.toNat < 0xE0
    · have e1 : (0xC0 ≤ b0.toNat ∧ b0.toNat < 0xE0) := by omega
      rw [if_pos e1, if_pos c3]
      cases rest with
      | nil => simp
      | cons b1 rest =>
        have h1 := b1.toNat_lt
        simp only
        by_cases hA : cont b1.toNat = true ∧ 0x7F < b0.toNat % 32 * 64 + b1.toNat % 64
        · have hc := (cont_iff _).1 hA.1
          have hB : second b0.toNat b1.toNat = true := (second_iff _ _).2 (by omega)
          have e4 : ¬ b0.toNat < 0xC2 := by omega
          rw [if_pos hA, if_neg e4, if_pos hB]
        · by_cases e4 : b0.toNat < 0xC2
          · rw [if_neg hA, if_pos e4]
          · have hB : ¬ second b0.toNat b1.toNat = true := by
              rw [second_iff]; intro hB; apply hA; rw [cont_iff]; omega
            rw [if_neg hA, if_neg e4, if_neg hB]
    by_cases c4 : b0.toNat < 0xF0
    · have e1 : ¬ (0xC0 ≤ b0.toNat ∧ b0.toNat < 0xE0) := by omega
      have e2 : (0xE0 ≤ b0.toNat ∧ b0.toNat < 0xF0) := by omega
      have e4 : ¬ b0.toNat < 0xC2 := by omega
      rw [if_neg e1, if_pos e2, if_neg e4, if_neg c3, if_pos c4]
      match rest with
      | [] => simp
      | [_] => simp
      | b1 :: b2 :: rest =>
        have h1 := b1.toNat_lt
        have h2 := b2.toNat_lt
        simp only
        by_cases hB : (second b0.toNat b1.toNat && cont b2.toNat) = true
        · have hB' := hB
          rw [Bool.and_eq_true, second_iff, cont_iff] at hB'
          have hA : cont b1.toNat = true ∧ cont b2.toNat = true ∧ 0x7FF < b0.toNat % 16 * 4096 + b1.toNat % 64 * 64 + b2.toNat % 64 ∧
              ¬ (0xD800 ≤ b0.toNat % 16 * 4096 + b1.toNat % 64 * 64 + b2.toNat % 64 ∧
                 b0.toNat % 16 * 4096 + b1.toNat % 64 * 64 + b2.toNat % 64 ≤ 0xDFFF) := by
            rw [cont_iff, cont_iff]; omega
          rw [if_pos hA, if_pos hB]
        · have hA : ¬ (cont b1.toNat = true ∧ cont b2.toNat = true ∧ 0x7FF < b0.toNat % 16 * 4096 + b1.toNat % 64 * 64 + b2.toNat % 64 ∧
              ¬ (0xD800 ≤ b0.toNat % 16 * 4096 + b1.toNat % 64 * 64 + b2.toNat % 64 ∧
                 b0.toNat % 16 * 4096 + b1.toNat % 64 * 64 + b2.toNat % 64 ≤ 0xDFFF)) := by
            intro hA; apply hB
            rw [cont_iff, cont_iff] at hA
            rw [Bool.and_eq_true, second_iff, cont_iff]; omega
          rw [if_neg hA, if_neg hB]
    have e1 : ¬ (0xC0 ≤ b0.toNat ∧ b0.toNat < 0xE0) := by omega
    have e2 : ¬ (0xE0 ≤ b0.toNat ∧ b0.toNat < 0xF0) := by omega
    have e4 : ¬ b0.toNat < 0xC2 := by omega
    rw [if_neg e1, if_neg e2, if_neg e4, if_neg c3, if_neg c4]
    by_cases c5 : b0.toNat < 0xF8
    · have e3 : (0xF0 ≤ b0.toNat ∧ b0.toNat < 0xF8) := by omega
      rw [if_pos e3]
      by_cases c6 : b0.toNat < 0xF5
      · rw [if_pos c6]
        match rest with
        | [] => simp
        | [_] => simp
        | [_, _] => simp
        | b1 :: b2 :: b3 :: rest =>
          have h1 := b1.toNat_lt
          have h2 := b2.toNat_lt
          have h3 := b3.toNat_lt
          simp only
          by_cases hB : (second b0.toNat b1.toNat && cont b2.toNat && cont b3.toNat) = true
          · have hB' := hB
            rw [Bool.and_eq_true, Bool.and_eq_true, second_iff, cont_iff, cont_iff] at hB'
            have hA : cont b1.toNat = true ∧ cont b2.toNat = true ∧ cont b3.toNat = true ∧
                0xFFFF < b0.toNat % 8 * 262144 + b1.toNat % 64 * 4096 + b2.toNat % 64 * 64 + b3.toNat % 64 ∧
                b0.toNat % 8 * 262144 + b1.toNat % 64 * 4096 + b2.toNat % 64 * 64 + b3.toNat % 64 ≤ 0x10FFFF := by
              rw [cont_iff, cont_iff, cont_iff]; omega
            rw [if_pos hA, if_pos hB]
          · have hA : ¬ (cont b1.toNat = true ∧ cont b2.toNat = true ∧ cont b3.toNat = true ∧
                0xFFFF < b0.toNat % 8 * 262144 + b1.toNat % 64 * 4096 + b2.toNat % 64 * 64 + b3.toNat % 64 ∧
                b0.toNat % 8 * 262144 + b1.toNat % 64 * 4096 + b2.toNat % 64 * 64 + b3.toNat % 64 ≤ 0x10FFFF) := by
              intro hA; apply hB
              rw [cont_iff, cont_iff, cont_iff] at hA
              rw [Bool.and_eq_true, Bool.and_eq_true, second_iff, cont_iff, cont_iff]; omega
            rw [if_neg hA, if_neg hB]
      · rw [if_neg c6]
        match rest with
        | [] => simp
        | [_] => simp
        | [_, _] => simp
        | b1 :: b2 :: b3 :: rest =>
          have h1 := b1.toNat_lt
          have h2 := b2.toNat_lt
          have h3 := b3.toNat_lt
          simp only
          have hA : ¬ (cont b1.toNat = true ∧ cont b2.toNat = true ∧ cont b3.toNat = true ∧
              0xFFFF < b0.toNat % 8 * 262144 + b1.toNat % 64 * 4096 + b2.toNat % 64 * 64 + b3.toNat % 64 ∧
              b0.toNat % 8 * 262144 + b1.toNat % 64 * 4096 + b2.toNat % 64 * 64 + b3.toNat % 64 ≤ 0x10FFFF) := by
            intro hA
            rw [cont_iff, cont_iff, cont_iff] at hA
            omega
          rw [if_neg hA]
    · have e3 : ¬ (0xF0 ≤ b0.toNat ∧ b0.toNat < 0xF8) := by omega
      have e5 : ¬ b0.toNat < 0xF5 := by omega
      rw [if_neg e3, if_neg e5]

/-- the range loop with `runtime.decoderune` steps. -/
def decodeAuxRT : Nat → List UInt8 → List Nat
  | _, [] => []
  | 0, b :: rest => (decodeOneRT (b :: rest)).1 :: decodeAuxRT ((decodeOneRT (b :: rest)).2 - 1) rest
  | k + 1, _ :: rest => decodeAuxRT k rest

/-- both formulations of Go's UTF-8 decoding give the same rune sequence for every byte string. -/
theorem decodeAuxRT_eq (k : Nat) (bytes : List UInt8) : decodeAuxRT k bytes = decodeAux k bytes := by
  induction bytes generalizing k with
  | nil => simp [decodeAuxRT, decodeAux]
  | cons b rest ih =>
    cases k with
    | zero => simp only [decodeAuxRT, decodeAux, decodeOneRT_eq, ih]
    | succ k => simp only [decodeAuxRT, decodeAux, ih]

end Pw
