import Sessions.Generated.Facts
import Sessions.Drf.Main
/-!
# Lock discipline read from the source (C15)

`Facts.accesses` is regenerated from the Go sources on every run by /verif/extract (locks.go): one row per
access to a `Session` field, to the map of a `cache` and to the CUID state (`lastTime`, `lastCounter`,
`macAddress`), with the lock that lexically encloses the access:

* `"W"` / `"R"`  — the access lies between `X.Lock()`/`X.RLock()` and the matching unlock (or a deferred unlock)
  on the same receiver `X` as the access `X.f`; for the CUID state the lock is `lastMutex`;
* `"private"`    — the object was created in the same function and has not been handed to anything yet, or the
  function runs only from `init()` (before `main`, hence before every other goroutine);
* `"caller"`     — `cache.compact`, which documents that its caller synchronises: `compact_called_locked` checks
  that every call site holds the receiver's (exclusive) cache lock;
* `"none"`       — no lock.

`lockDiscipline_ok` says that every row is sufficiently protected. This is the theorem that did **not** hold on
the tree before fix 6e35682 (F8): the rows `Start:128 lastUserAgentHash`, `Set/Delete/LogOut/Destroy/LogIn/
RegenerateID s.id`, `RegenerateID created/lastIP/lastUserAgentHash` and `compact:146 lastAccess` were `"none"`,
and for each of them the race detector fires on a directed schedule (corpus/findings/F8_*.txt).

## How this instantiates `Drf.conflict_separated`

The generic theorem is about ONE RW-lock and ONE location and a trace of `acq/rel/rd/wr` events of threads.
The projection used here: a location is a field of one `Session` object (lock: that object's embedded
`sync.RWMutex`), the map of the cache object (lock: its embedded `sync.Mutex`, i.e. only mode `W`), or one of
the three CUID variables (lock: `lastMutex`, mode `W`). Project an execution of the program to the events on one
such lock and the accesses to one location it protects. Rows with lock `"R"`/`"W"` are accesses for which the
lexical bracket gives `Drf.guarded` (`discipline_instantiates` below: mode `W` is `s.w = some t`, mode `R` is
`holdsAny s t`), so a projected trace consisting of such accesses is `Drf.Disciplined`, and
`Drf.conflict_separated` yields a release by the first thread and a later acquire by the second between any two
conflicting accesses — a happens-before edge of the Go memory model. The remaining rows take part in no
conflicting concurrent pair for a different reason, each checked here from the regenerated facts:
`"private"` accesses precede the publication of the object (publication goes through the cache mutex or a
return value, both of which order it before every later access); `"caller"` rows run under the exclusive lock
held at the call sites (`compact_called_locked`), so in the projection they are `wr`/`rd` events of a thread
with `s.w = some t`; reads of `referenceID` are never in conflict because the field is written only by the
decoders on a fresh object and the package never calls a decoder itself (`referenceID_write_once`), so no write
to it exists after publication.

What this does not cover (DESIGN.md §6 C15, "partial by nature"): the brackets are lexical (aliases of field
addresses, reflection and unsafe are not followed), and the Go memory model itself is not formalised — the
dynamic half of the check (race detector on concurrent schedules) is the cross-check for both.
-/
namespace FactsLocks

open Facts

/-- `referenceID` is written only by the two decoders, and package code never calls a decoder: the field is
constant from the moment an object becomes reachable by a second goroutine. -/
def referenceIDWriteOnce : Bool :=
  (fieldWrites.all fun w => w.1 != "referenceID" || w.2.1 == "Session.GobDecode" || w.2.1 == "Session.UnmarshalJSON")
    && decoderCalls.isEmpty

/-- every call of `cache.compact` is made with the receiver's cache lock held (exclusively: it is a `sync.Mutex`) -/
def compactCalledLocked : Bool := compactCallSites.all (fun s => s.2.2) && !compactCallSites.isEmpty

/-- the dynamic part: is the lexically enclosing lock mode sufficient for this kind of access? -/
def lockSufficient (write : Bool) (lock : String) : Bool :=
  if write then lock == "W" else lock == "R" || lock == "W"

/-- A write needs the write lock or a private object; a read needs a read or write lock or a private object;
inside `cache.compact` the caller's exclusive lock counts; reads of the write-once field need nothing. -/
def guarded (a : Access) : Bool :=
  lockSufficient a.write a.lock
    || a.lock == "private"
    || (a.lock == "caller" && a.fn == "cache.compact" && a.field == "sessions" && compactCalledLocked)
    || (!a.write && a.field == "referenceID" && a.recv != "" && referenceIDWriteOnce)

/-- the rows that are not sufficiently protected (empty iff `lockDiscipline_ok`); printed by the check on failure -/
def unguarded : List Access := accesses.filter (fun a => !guarded a)

/-- Every access to shared session, cache and CUID state is made under the lock that protects it. -/
theorem lockDiscipline_ok : accesses.all guarded = true := by decide

theorem compact_called_locked : compactCalledLocked = true := by decide

theorem referenceID_write_once : referenceIDWriteOnce = true := by decide

theorem nothing_unrecognised : lockUnrecognised = [] := by decide

/-- the table is not vacuous: it covers the operations the property names, with reads and writes, all three
kinds of state, and at least as many rows as the tree had when the check was written -/
theorem access_table_covers :
    (["Start", "Session.Set", "Session.Get", "Session.Delete", "Session.GetAndDelete", "Session.LogIn", "Session.LogOut",
      "Session.RegenerateID", "Session.User", "Session.LastAccess", "Session.Expired", "Session.GobEncode",
      "Session.MarshalJSON", "Session.GobDecode", "Session.UnmarshalJSON", "Session.Destroy", "CUID", "cache.Get", "cache.Set",
      "cache.Delete", "cache.compact", "PurgeSessions"].all fun f => accesses.any fun a => a.fn == f) = true ∧
    (["id", "user", "created", "lastAccess", "lastIP", "lastUserAgentHash", "referenceID", "data", "sessions", "lastTime",
      "lastCounter", "macAddress"].all fun fld =>
        (accesses.any fun a => a.field == fld && a.write) && (accesses.any fun a => a.field == fld && !a.write)) = true ∧
    90 ≤ accesses.length := by decide

/-- what a lexical lock class says about the state of the protecting lock when thread `t` performs the access -/
def Holds (s : Drf.LS) (t : Nat) (lock : String) : Prop :=
  (lock = "W" ∧ s.w = some t) ∨ (lock = "R" ∧ Drf.holdsAny s t)

/-- the event an access row stands for in the projected trace -/
def event (write : Bool) (t : Nat) : Drf.Ev := if write then .wr t else .rd t

/-- A row with a sufficient lock class, performed while the lock is in the state its class describes, satisfies the
hypothesis `Drf.guarded` of `Drf.conflict_separated` (through `Drf.Disciplined`). -/
theorem discipline_instantiates (write : Bool) (lock : String) (s : Drf.LS) (t : Nat)
    (hs : lockSufficient write lock = true) (hh : Holds s t lock) : Drf.guarded s (event write t) := by
  cases write with
  | true =>
    have hw : lock = "W" := by simpa [lockSufficient] using hs
    rcases hh with ⟨_, h⟩ | ⟨h, _⟩
    · exact h
    · rw [hw] at h; exact absurd h (by decide)
  | false =>
    rcases hh with ⟨_, h⟩ | ⟨_, h⟩
    · exact Or.inl h
    · exact h

/-- `accessBy` of the generic theorem, for rows -/
theorem event_accessBy (write : Bool) (t : Nat) : Drf.accessBy (event write t) t := by
  cases write
  · exact Or.inr rfl
  · exact Or.inl rfl

/-- The generic theorem, restated for two rows of the table on one location: if the projected trace is well formed
and disciplined (which `discipline_instantiates` gives row by row for the `"R"`/`"W"` rows), two accesses by different
threads of which one is a write are separated by a release of the first thread and a later acquire of the second. -/
theorem rows_separated (p q rest : List Drf.Ev) (w1 w2 : Bool) (t1 t2 : Nat) (sf : Drf.LS) (hne : t1 ≠ t2)
    (hconf : w1 = true ∨ w2 = true)
    (hrun : Drf.run {} (p ++ event w1 t1 :: (q ++ event w2 t2 :: rest)) = some sf)
    (hd : Drf.Disciplined (p ++ event w1 t1 :: (q ++ event w2 t2 :: rest))) : Drf.HasRelThenAcq t1 t2 q := by
  refine Drf.conflict_separated p q rest _ _ t1 t2 sf hne (event_accessBy w1 t1) (event_accessBy w2 t2) ?_ hrun hd
  rcases hconf with h | h
  · left; subst h; rfl
  · right; subst h; rfl

end FactsLocks


/-!
# Atomicity of the key/value operations (C15, second sentence)

A small-step model of `Set`, `Get`, `Delete`, `GetAndDelete` on one session object: a call is invoked (`inv`), performs
its map transformation in ONE atomic step (`step`), and returns the answer computed in that step (`ret`); any number of
goroutines interleave these events arbitrarily. That one step is what the regenerated facts justify for the real code:
`FactsBrackets.kv_single_section` (each of the four methods takes the session lock exactly once) and the `data` rows of
`Facts.accesses` under `lockDiscipline_ok` (`Set`, `Delete`, `GetAndDelete` touch the map only under the write lock,
`Get` only under the read lock; critical sections of writers exclude everything else, and concurrent readers do not
change the map, so any order among them is as good as another).

`lin_sequential` + `realtime_order` say that every concurrent history of the model is linearizable to the sequential
map: the order of the critical sections is a sequential execution with the same answers, and it respects the order of
non-overlapping calls. `getAndDelete_at_most_one` is the consequence the property names.
-/
namespace Kv

inductive Op where
  | set (k v : Nat)
  | get (k : Nat)
  | del (k : Nat)
  | getdel (k : Nat)
deriving DecidableEq, Repr

def upd (m : Nat → Option Nat) (k : Nat) (x : Option Nat) : Nat → Option Nat := fun i => if i = k then x else m i

/-- sequential specification of the four methods on the data map: the new map and the answer -/
def apply (m : Nat → Option Nat) : Op → (Nat → Option Nat) × Option Nat
  | .set k v => (upd m k (some v), none)
  | .get k => (m, m k)
  | .del k => (upd m k none, none)
  | .getdel k => (upd m k none, m k)

/-- sequential run: every operation with its answer -/
def seqPairs (m : Nat → Option Nat) : List Op → List (Op × Option Nat)
  | [] => []
  | o :: os => (o, (apply m o).2) :: seqPairs (apply m o).1 os

def seqFinal (m : Nat → Option Nat) : List Op → (Nat → Option Nat)
  | [] => m
  | o :: os => seqFinal (apply m o).1 os

inductive Phase where
  | idle
  | called (id : Nat) (o : Op)
  | done (id : Nat) (o : Op) (r : Option Nat)

/-- `inv`: a goroutine calls a method (`id` names the call); `step`: the method's one critical section, in which
the map is read and changed; `ret`: the method returns the answer computed in the critical section. -/
inductive Ev where
  | inv (t id : Nat) (o : Op)
  | step (t : Nat)
  | ret (t : Nat) (r : Option Nat)

structure Conf where
  m : Nat → Option Nat
  ph : Nat → Phase

def setPh (ph : Nat → Phase) (t : Nat) (p : Phase) : Nat → Phase := fun i => if i = t then p else ph i

def next (c : Conf) : Ev → Option Conf
  | .inv t id o => match c.ph t with
    | .idle => some { c with ph := setPh c.ph t (.called id o) }
    | _ => none
  | .step t => match c.ph t with
    | .called id o => some { m := (apply c.m o).1, ph := setPh c.ph t (.done id o (apply c.m o).2) }
    | _ => none
  | .ret t r => match c.ph t with
    | .done _ _ r' => if r = r' then some { c with ph := setPh c.ph t .idle } else none
    | _ => none

def run (c : Conf) : List Ev → Option Conf
  | [] => some c
  | e :: es => match next c e with
    | none => none
    | some c' => run c' es

/-- what an event adds to the linearization: a critical section adds its call with the answer it computed -/
def emitted (c : Conf) : Ev → List (Nat × Op × Option Nat)
  | .step t => match c.ph t with
    | .called id o => [(id, o, (apply c.m o).2)]
    | _ => []
  | _ => []

/-- the linearization of a run: the calls in the order of their critical sections, with their answers -/
def lin (c : Conf) : List Ev → List (Nat × Op × Option Nat)
  | [] => []
  | e :: es => match next c e with
    | none => []
    | some c' => emitted c e ++ lin c' es

theorem next_m_of_not_step {c c' : Conf} {e : Ev} (h : next c e = some c') (hs : ∀ t, e ≠ .step t) : c'.m = c.m := by
  cases e with
  | inv t id o => simp only [next] at h; split at h <;> simp at h; subst h; rfl
  | step t => exact absurd rfl (hs t)
  | ret t r =>
    simp only [next] at h; split at h
    · split at h <;> simp at h; subst h; rfl
    · simp at h

/-- (a) The linearization is a sequential execution: replaying its calls one after the other on the sequential
specification gives every call exactly the answer it got in the concurrent run, and the same final map. -/
theorem lin_sequential (tr : List Ev) (c cf : Conf) (h : run c tr = some cf) :
    (lin c tr).map (·.2) = seqPairs c.m ((lin c tr).map (·.2.1)) ∧ cf.m = seqFinal c.m ((lin c tr).map (·.2.1)) := by
  induction tr generalizing c with
  | nil => simp [run] at h; subst h; simp [lin, seqPairs, seqFinal]
  | cons e es ih =>
    simp only [run] at h
    cases hn : next c e with
    | none => simp [hn] at h
    | some c' =>
      simp only [hn] at h
      have ih' := ih c' h
      simp only [lin, hn]
      cases e with
      | inv t id o =>
        have hm := next_m_of_not_step hn (by intro t h; cases h)
        simp only [emitted, List.nil_append]; rw [← hm]; exact ih'
      | ret t r =>
        have hm := next_m_of_not_step hn (by intro t h; cases h)
        simp only [emitted, List.nil_append]; rw [← hm]; exact ih'
      | step t =>
        simp only [next] at hn
        simp only [emitted]
        split at hn
        · rename_i id o hph
          simp at hn; subst hn
          simp only [List.cons_append, List.nil_append, List.map_cons, seqPairs, seqFinal]
          exact ⟨by rw [ih'.1], ih'.2⟩
        · simp at hn

theorem run_append (c : Conf) (a b : List Ev) : run c (a ++ b) = (run c a).bind (fun c' => run c' b) := by
  induction a generalizing c with
  | nil => simp [run]
  | cons e a ih =>
    simp only [List.cons_append, run]
    cases next c e with
    | none => simp
    | some c1 => simp [ih]

theorem lin_append (a b : List Ev) (c c' : Conf) (h : run c a = some c') : lin c (a ++ b) = lin c a ++ lin c' b := by
  induction a generalizing c with
  | nil => simp [run] at h; subst h; simp [lin]
  | cons e a ih =>
    simp only [run] at h
    cases hn : next c e with
    | none => simp [hn] at h
    | some c1 =>
      simp only [hn] at h
      simp only [List.cons_append, lin, hn, ih c1 h, List.append_assoc]

/-- every goroutine that has passed its critical section and not yet returned is in the linearization so far -/
def DoneInLin (c : Conf) (l : List (Nat × Op × Option Nat)) : Prop := ∀ t id o r, c.ph t = .done id o r → (id, o, r) ∈ l

theorem doneInLin_run (tr : List Ev) (c c' : Conf) (l : List (Nat × Op × Option Nat)) (h : run c tr = some c')
    (hd : DoneInLin c l) : DoneInLin c' (l ++ lin c tr) := by
  induction tr generalizing c l with
  | nil => simp [run] at h; subst h; simpa [lin] using hd
  | cons e es ih =>
    simp only [run] at h
    cases hn : next c e with
    | none => simp [hn] at h
    | some c1 =>
      simp only [hn] at h
      simp only [lin, hn, ← List.append_assoc]
      apply ih c1 _ h
      intro t id o r hph
      cases e with
      | inv t' id' o' =>
        simp only [next] at hn; split at hn <;> simp at hn; subst hn
        simp only [setPh] at hph
        split at hph
        · cases hph
        · simp only [emitted, List.append_nil]; exact hd t id o r hph
      | ret t' r' =>
        simp only [next] at hn; split at hn
        · split at hn <;> simp at hn; subst hn
          simp only [setPh] at hph
          split at hph
          · cases hph
          · simp only [emitted, List.append_nil]; exact hd t id o r hph
        · simp at hn
      | step t' =>
        simp only [next] at hn; split at hn
        · rename_i id' o' hph'
          simp at hn; subst hn
          simp only [setPh] at hph
          simp only [emitted, hph']
          split at hph
          · cases hph; simp
          · exact List.mem_append_left _ (hd t id o r hph)
        · simp at hn

def AllIdle (c : Conf) : Prop := ∀ t, c.ph t = .idle

/-- (b) Real-time order, first half: when a call returns, its critical section has already happened — the call is in the
linearization of the run so far, with the answer it returns. -/
theorem ret_in_lin (p : List Ev) (c0 c c' : Conf) (t : Nat) (r : Option Nat) (hi : AllIdle c0) (hp : run c0 p = some c)
    (hr : next c (.ret t r) = some c') : ∃ id o, (id, o, r) ∈ lin c0 p := by
  have hd : DoneInLin c ([] ++ lin c0 p) := doneInLin_run p c0 c [] hp (by intro t id o r h; rw [hi t] at h; cases h)
  simp only [next] at hr
  split at hr
  · rename_i id o r' hph
    split at hr
    · rename_i hrr; subst hrr; exact ⟨id, o, by simpa using hd t id o r hph⟩
    · simp at hr
  · simp at hr

/-- (b) Real-time order: if a call returns before another is invoked, the first precedes the second in the linearization:
the linearization of the whole run splits into the part up to the return, which contains the returning call with its
answer, and the part from the invocation on, which contains every critical section that happens from then on (in
particular the one of the invoked call). -/
theorem realtime_order (p q rest : List Ev) (c0 cf : Conf) (t1 t2 id2 : Nat) (r1 : Option Nat) (o2 : Op) (hi : AllIdle c0)
    (h : run c0 (p ++ .ret t1 r1 :: (q ++ .inv t2 id2 o2 :: rest)) = some cf) :
    ∃ id1 o1 c2 mid, (id1, o1, r1) ∈ lin c0 p ∧ run c0 (p ++ .ret t1 r1 :: q) = some c2 ∧
      lin c0 (p ++ .ret t1 r1 :: (q ++ .inv t2 id2 o2 :: rest)) = lin c0 p ++ mid ++ lin c2 (.inv t2 id2 o2 :: rest) := by
  rw [run_append] at h
  cases hp : run c0 p with
  | none => simp [hp] at h
  | some c =>
    simp only [hp, Option.bind_some, run] at h
    cases hn : next c (.ret t1 r1) with
    | none => simp [hn] at h
    | some c1 =>
      simp only [hn] at h
      rw [run_append] at h
      cases hq : run c1 q with
      | none => simp [hq] at h
      | some c2 =>
        obtain ⟨id1, o1, hmem⟩ := ret_in_lin p c0 c c1 t1 r1 hi hp hn
        have hpq : run c0 (p ++ .ret t1 r1 :: q) = some c2 := by
          rw [run_append, hp]; simp [run, hn, hq]
        refine ⟨id1, o1, c2, lin c (.ret t1 r1 :: q), hmem, hpq, ?_⟩
        have e1 : p ++ Ev.ret t1 r1 :: (q ++ Ev.inv t2 id2 o2 :: rest) = (p ++ Ev.ret t1 r1 :: q) ++ (Ev.inv t2 id2 o2 :: rest) := by simp
        rw [e1, lin_append _ _ c0 c2 hpq, lin_append p _ c0 c hp]

/-- the values written by the `Set` calls of a list -/
def setVals : List Op → List Nat
  | [] => []
  | .set _ v :: os => v :: setVals os
  | _ :: os => setVals os

/-- the values handed out by the `GetAndDelete` calls of a list of calls with answers -/
def handed : List (Op × Option Nat) → List Nat
  | [] => []
  | (.getdel _, some v) :: l => v :: handed l
  | _ :: l => handed l

/-- invariant of the sequential run when every `Set` writes a value of its own: the values in the map are pairwise at
different keys, not yet handed out, and not going to be written again. -/
structure SeqInv (m : Nat → Option Nat) (used : List Nat) (rest : List Op) : Prop where
  stored : ∀ k v, m k = some v → v ∉ used ∧ v ∉ setVals rest
  inj : ∀ k1 k2 v, m k1 = some v → m k2 = some v → k1 = k2
  gone : ∀ v, v ∈ used → v ∉ setVals rest

theorem handed_nodup_aux (ops : List Op) (m : Nat → Option Nat) (used : List Nat) (hinv : SeqInv m used ops)
    (hnd : (setVals ops).Nodup) : (handed (seqPairs m ops)).Nodup ∧ ∀ v, v ∈ handed (seqPairs m ops) → v ∉ used := by
  induction ops generalizing m used with
  | nil => simp [seqPairs, handed]
  | cons o os ih =>
    cases o with
    | set k v =>
      simp only [setVals, List.nodup_cons] at hnd
      simp only [seqPairs, apply, handed]
      apply ih _ _ _ hnd.2
      constructor
      · intro k' x hx
        simp only [upd] at hx
        split at hx
        · cases hx
          exact ⟨fun hu => (hinv.gone _ hu) (by simp [setVals]), hnd.1⟩
        · have := hinv.stored k' x hx
          exact ⟨this.1, fun hm => this.2 (by simp [setVals, hm])⟩
      · intro k1 k2 x h1 h2
        simp only [upd] at h1 h2
        split at h1 <;> split at h2
        · rename_i a b; rw [a, b]
        · cases h1; exact absurd (by simp [setVals]) (hinv.stored k2 _ h2).2
        · cases h2; exact absurd (by simp [setVals]) (hinv.stored k1 _ h1).2
        · exact hinv.inj k1 k2 x h1 h2
      · intro x hx hm
        exact hinv.gone x hx (by simp [setVals, hm])
    | get k =>
      simp only [seqPairs, apply, handed]
      exact ih _ _ ⟨hinv.stored, hinv.inj, hinv.gone⟩ hnd
    | del k =>
      simp only [seqPairs, apply, handed]
      apply ih _ _ _ hnd
      constructor
      · intro k' x hx
        simp only [upd] at hx
        split at hx
        · cases hx
        · exact hinv.stored k' x hx
      · intro k1 k2 x h1 h2
        simp only [upd] at h1 h2
        split at h1 <;> split at h2
        · cases h1
        · cases h1
        · cases h2
        · exact hinv.inj k1 k2 x h1 h2
      · exact hinv.gone
    | getdel k =>
      have hsub : ∀ used', (∀ k' x, k' ≠ k → m k' = some x → x ∉ used') → (∀ x, x ∈ used' → x ∉ setVals os) →
          SeqInv (upd m k none) used' os := by
        intro used' h1 h2
        constructor
        · intro k' x hx
          simp only [upd] at hx
          split at hx
          · cases hx
          · rename_i hne
            exact ⟨h1 k' x hne hx, (hinv.stored k' x hx).2⟩
        · intro k1 k2 x hx1 hx2
          simp only [upd] at hx1 hx2
          split at hx1 <;> split at hx2
          · cases hx1
          · cases hx1
          · cases hx2
          · exact hinv.inj k1 k2 x hx1 hx2
        · exact h2
      cases hk : m k with
      | none =>
        simp only [seqPairs, apply, hk, handed]
        exact ih _ _ (hsub used (fun k' x _ hx => (hinv.stored k' x hx).1) hinv.gone) hnd
      | some v =>
        simp only [seqPairs, apply, hk, handed]
        have hv := hinv.stored k v hk
        have hi := ih (upd m k none) (v :: used) (hsub (v :: used)
          (by
            intro k' x hne hx
            simp only [List.mem_cons, not_or]
            refine ⟨fun hxv => hne ?_, (hinv.stored k' x hx).1⟩
            subst hxv
            exact hinv.inj k' k x hx hk)
          (by
            intro x hx
            simp only [List.mem_cons] at hx
            rcases hx with rfl | hx
            · exact hv.2
            · exact hinv.gone x hx)) hnd
        refine ⟨List.nodup_cons.2 ⟨fun hm => (hi.2 v hm) (by simp), hi.1⟩, ?_⟩
        intro x hx
        simp only [List.mem_cons] at hx
        rcases hx with rfl | hx
        · exact hv.1
        · exact fun hu => hi.2 x hx (by simp [hu])

/-- Sequentially, on an initially empty map, if every `Set` writes a value of its own then no value is handed out twice. -/
theorem handed_nodup (ops : List Op) (m : Nat → Option Nat) (hm : ∀ k, m k = none) (hnd : (setVals ops).Nodup) :
    (handed (seqPairs m ops)).Nodup :=
  (handed_nodup_aux ops m [] (by
    constructor
    · intro k v h; rw [hm k] at h; cases h
    · intro k1 _ v h; rw [hm k1] at h; cases h
    · intro v h; cases h) hnd).1

/-- (c) `GetAndDelete` hands a value to at most one caller: in every concurrent run of the model that starts with an
empty map and in which every `Set` writes a value of its own, the values answered by `GetAndDelete` calls are pairwise
different (the list of all of them, taken over the linearization, has no duplicates). Together with `ret_in_lin` — what a
caller gets is the answer recorded in the linearization — no two callers receive the same value. -/
theorem getAndDelete_at_most_one (tr : List Ev) (c cf : Conf) (h : run c tr = some cf) (hm : ∀ k, c.m k = none)
    (hnd : (setVals ((lin c tr).map (·.2.1))).Nodup) : (handed ((lin c tr).map (·.2))).Nodup := by
  rw [(lin_sequential tr c cf h).1]
  exact handed_nodup _ _ hm hnd

/-- non-vacuity: two overlapping GetAndDelete calls after a Set; the first critical section wins. -/
example : (lin ⟨fun _ => none, fun _ => .idle⟩ [.inv 1 10 (.set 0 7), .step 1, .ret 1 none, .inv 2 11 (.getdel 0), .inv 3 12 (.getdel 0),
    .step 3, .step 2, .ret 2 none, .ret 3 (some 7)]).map (·.2.2) = [none, some 7, none] := by decide

end Kv
