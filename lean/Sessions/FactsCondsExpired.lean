import Sessions.FactsCondsBase
/-! `Expired()` (see `Sessions/FactsCondsBase.lean`; regenerated table `Facts.conds`). -/
namespace FactsConds
open Ce

variable (cfg : Sx.Cfg) (now : Int) (o : Sx.Sess) (r : Sx.Req) (valid : Bool) (i : Int)

/-! ### `Expired` -/

/-- `Expired()` returns exactly the model's `Sx.expired` -/
theorem expired_eq_model :
    (pickKind Facts.conds "Session.Expired" "return").map (fun e => eval (startEnv cfg now o r valid i) e.2) =
      [some (.bool (Sx.expired cfg now o))] := by
  conds_tac [startEnv, Sx.expired, refStr_ne, Bool.and_assoc]

end FactsConds
