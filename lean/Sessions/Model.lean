import Sessions.Model.World
