import Sessions.Generated.Facts
import Sessions.Ir.Lemmas
/-!
# The key/value methods and `s.LogOut()` as the repository has them now = the model's `hset` / `hdel` / `hgetdel` / `hget` / `hlogout`
-/
namespace FactsIr
open Sx Sx.Loc Ir

set_option linter.unusedSimpArgs false
set_option maxRecDepth 100000

/-- **`s.Set(key, value)`** on a valid handle (a nil data map panics, in the code as in the model). -/
theorem set_eq_model (cfg : Cfg) (s : State) (h : Nat) (k : String) (v : Val) (hv : h < s.heap.length) :
    Ir.exec cfg Facts.ir_Set s [.ptr (some h), .str k, .val v] = Ir.ofHRes (Sx.hset cfg s h k v) := by
  cases hd : (s.obj h).data with
  | none => rw [hset_none k v hd]; simp [State.obj, hv] at hd; ir_tac [Facts.ir_Set, hd, hv]
  | some d => rw [hset_some k v hd]; simp [State.obj, hv] at hd; ir_tac [Facts.ir_Set, hd, hv, saveObj]

/-- **`s.Delete(key)`** on a valid handle. -/
theorem delete_eq_model (cfg : Cfg) (s : State) (h : Nat) (k : String) (hv : h < s.heap.length) :
    Ir.exec cfg Facts.ir_Delete s [.ptr (some h), .str k] = Ir.ofHRes (Sx.hdel cfg s h k) := by
  rw [hdel_eq]
  ir_tac [Facts.ir_Delete, hv, saveObj]

/-- **`s.LogOut()`** on a valid handle. -/
theorem logOut_eq_model (cfg : Cfg) (s : State) (h : Nat) (hv : h < s.heap.length) :
    Ir.exec cfg Facts.ir_LogOut s [.ptr (some h)] = Ir.ofHRes (Sx.hlogout cfg s h) := by
  cases hu : (s.obj h).user with
  | none => rw [hlogout_none hu]; simp [State.obj, hv] at hu; ir_tac [Facts.ir_LogOut, hu, hv]
  | some u => rw [hlogout_some hu]; simp [State.obj, hv] at hu; ir_tac [Facts.ir_LogOut, hu, hv, saveObj]

/-- **`s.GetAndDelete(key, def)`** on a valid handle, with `nil` as the default: the model's `hgetdel` returns `null` for an absent key. -/
theorem getAndDelete_eq_model (cfg : Cfg) (s : State) (h : Nat) (k : String) (hv : h < s.heap.length) :
    Ir.exec cfg Facts.ir_GetAndDelete s [.ptr (some h), .str k, .val .null] = Ir.ofHRes (Sx.hgetdel cfg s h k) := by
  cases hl : lookup k ((s.obj h).data.getD []) with
  | none => simp [State.obj, hv] at hl; ir_tac [Facts.ir_GetAndDelete, hgetdel, hl, hv]
  | some v => simp [State.obj, hv] at hl; ir_tac [Facts.ir_GetAndDelete, hgetdel, hl, hv, saveObj]

/-- … and with any default `d`: an absent key yields `d` and changes nothing, a present key does what the model does. -/
theorem getAndDelete_default (cfg : Cfg) (s : State) (h : Nat) (k : String) (d : Val) (hv : h < s.heap.length) :
    Ir.exec cfg Facts.ir_GetAndDelete s [.ptr (some h), .str k, .val d] =
      if (lookup k ((s.obj h).data.getD [])).isSome then Ir.ofHRes (Sx.hgetdel cfg s h k) else (s, .ret [.val d], []) := by
  cases hl : lookup k ((s.obj h).data.getD []) with
  | none => simp [State.obj, hv] at hl; ir_tac [Facts.ir_GetAndDelete, hgetdel, hl, hv]
  | some v => simp [State.obj, hv] at hl; ir_tac [Facts.ir_GetAndDelete, hgetdel, hl, hv, saveObj]

/-- **`s.Get(key, def)`** with `nil` as the default (the model's `hget` returns `null` for an absent key): no effect, no events. -/
theorem get_eq_model (cfg : Cfg) (s : State) (h : Nat) (k : String) (hv : h < s.heap.length) :
    Ir.exec cfg Facts.ir_Get s [.ptr (some h), .str k, .val .null] = Ir.ofHRes (s, Sx.hget s h k, []) := by
  cases hl : lookup k ((s.obj h).data.getD []) with
  | none => simp [State.obj, hv] at hl; ir_tac [Facts.ir_Get, hget, hl, hv]
  | some v => simp [State.obj, hv] at hl; ir_tac [Facts.ir_Get, hget, hl, hv]

end FactsIr
