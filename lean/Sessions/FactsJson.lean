import Sessions.Generated.Facts
/-!
# Theorems about the JSON codec program regenerated from the Go source (C17)

The program is re-read from the Go source on every run by /verif/extract (codec.go). A field that is dropped,
reordered on one side only, guarded differently, or converted differently makes these proofs fail on the next run.
-/
namespace FactsCodec

/-- the extractor recognised every statement of `MarshalJSON` and `UnmarshalJSON` -/
theorem json_recognised : Facts.unrecognisedMarshalJSON = [] ∧ Facts.unrecognisedUnmarshalJSON = [] := ⟨rfl, rfl⟩

/-- C17 at model level: `UnmarshalJSON (MarshalJSON s)` succeeds for EVERY session — with or without user,
with or without reference, with a nil or non-nil data map — and restores every field, instants up to the
granularity of the time format. -/
theorem json_roundtrip (L : Cj.Laws) (s : Cj.S) :
    Cj.unmarshal L Facts.jsonUnmarshalProg (Cj.marshal L s Facts.jsonMarshalProg) {} = some (Cj.norm L s) := by
  obtain ⟨c, la, ip, ua, rf, user, data⟩ := s
  by_cases hr : rf = "" <;> cases user <;> cases data <;>
    simp [Facts.jsonMarshalProg, Facts.jsonUnmarshalProg, Cj.marshal, Cj.unmarshal, Cj.condHolds, Cj.srcVal, Cj.lookup,
      Cj.applyConv, Cj.norm, L.parse_fmt_time, L.parse_fmt_36, Option.bind, hr]

/-- the shapes the package itself writes are covered: a replaced-ID record (reference, no data, no user) -/
example (L : Cj.Laws) (t : Int) :
    Cj.unmarshal L Facts.jsonUnmarshalProg (Cj.marshal L { created := t, lastAccess := t, ref := "X" } Facts.jsonMarshalProg) {}
      = some { created := L.trunc t, lastAccess := L.trunc t, ref := "X" } := by
  simpa [Cj.norm] using json_roundtrip L { created := t, lastAccess := t, ref := "X" }

/-- `UnmarshalJSON` is total on decoded objects by construction of `Cj.unmarshal` (it returns `none` = error or a
session); a session it returns re-encodes because `Cj.marshal` is total. -/
theorem json_total (L : Cj.Laws) (o : List (String × Cj.JV)) :
    (∃ s, Cj.unmarshal L Facts.jsonUnmarshalProg o {} = some s ∧ ∃ o', Cj.marshal L s Facts.jsonMarshalProg = o') ∨
    Cj.unmarshal L Facts.jsonUnmarshalProg o {} = none := by
  cases h : Cj.unmarshal L Facts.jsonUnmarshalProg o {} with
  | none => exact Or.inr rfl
  | some s => exact Or.inl ⟨s, rfl, _, rfl⟩

end FactsCodec
