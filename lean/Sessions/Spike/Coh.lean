import Sessions.Spike.Model
namespace Ss

/-! association-list lemmas -/
theorem lookup_erase_self {β} (k : Nat) (m : List (Nat × β)) : lookup k (erase k m) = none := by
  induction m with
  | nil => rfl
  | cons p r ih =>
    obtain ⟨k', v⟩ := p
    by_cases h : k' = k <;> simp [erase, lookup, h, ih]

theorem lookup_erase_ne {β} {k k' : Nat} (m : List (Nat × β)) (h : k' ≠ k) : lookup k' (erase k m) = lookup k' m := by
  induction m with
  | nil => rfl
  | cons p r ih =>
    obtain ⟨k'', v⟩ := p
    by_cases h1 : k'' = k
    · subst h1
      have : ¬ k'' = k' := fun e => h e.symm
      simp [erase, lookup, ih, this]
    · by_cases h2 : k'' = k'
      · subst h2; simp [erase, lookup, h1]
      · simp [erase, lookup, h1, h2, ih]

theorem lookup_insert_self {β} (k : Nat) (v : β) (m : List (Nat × β)) : lookup k (insert k v m) = some v := by
  simp [insert, lookup]
theorem lookup_insert_ne {β} {k k' : Nat} (v : β) (m : List (Nat × β)) (h : k' ≠ k) :
    lookup k' (insert k v m) = lookup k' m := by
  have : ¬ k = k' := fun e => h e.symm
  simp [insert, lookup, this, lookup_erase_ne m h]

theorem mem_erase {β} {k : Nat} {p : Nat × β} {m : List (Nat × β)} (h : p ∈ erase k m) : p ∈ m ∧ p.1 ≠ k := by
  induction m with
  | nil => simp [erase] at h
  | cons q r ih =>
    obtain ⟨k', v⟩ := q
    by_cases hk : k' = k
    · simp [erase, hk] at h
      have := ih h
      exact ⟨List.mem_cons_of_mem _ this.1, this.2⟩
    · simp [erase, hk] at h
      rcases h with h | h
      · subst h; exact ⟨List.mem_cons_self, hk⟩
      · have := ih h; exact ⟨List.mem_cons_of_mem _ this.1, this.2⟩

/-- what must survive cache loss -/
def ess (o : Sess) : Option (List (Nat × Nat)) × Option Nat × Option Nat × Int := (o.data, o.user, o.ref, o.created)

/-- coherence: every cached object has a stored record under its key that agrees on the essentials. -/
def Coh (s : State) : Prop :=
  ∀ id h, (id, h) ∈ s.cache → ∃ rec, lookup id s.store = some rec ∧ ess rec = ess (s.obj h)

/-- flushing one entry and dropping it keeps coherence. -/
theorem coh_flush_drop (s : State) (id h : Nat) (hc : Coh s) :
    Coh { (saveRec s id (s.obj h)).1 with cache := erase id (saveRec s id (s.obj h)).1.cache } := by
  intro id' h' hmem
  simp only [saveRec] at hmem ⊢
  obtain ⟨hm, hne⟩ := mem_erase hmem
  obtain ⟨rec, hl, he⟩ := hc id' h' hm
  refine ⟨rec, ?_, he⟩
  simp only at hne
  rw [lookup_insert_ne _ _ hne]; exact hl

theorem sweep_coh (cfg : Cfg) (l : List (Nat × Nat)) (s : State) (hc : Coh s) : Coh (sweep cfg s l).1 := by
  induction l generalizing s with
  | nil => exact hc
  | cons p r ih =>
    obtain ⟨id, h⟩ := p
    simp only [sweep]
    split
    · exact ih _ (coh_flush_drop s id h hc)
    · exact ih s hc

theorem evictLoop_coh (cfg : Cfg) (req : Int) (fuel : Nat) (picks : List Nat) (s : State) (hc : Coh s) :
    Coh (evictLoop cfg req picks fuel s).1 := by
  induction fuel generalizing s picks with
  | zero => exact hc
  | succ n ih =>
    simp only [evictLoop]
    split
    · split
      · exact hc
      · exact ih _ _ (coh_flush_drop s _ _ hc)
    · exact hc

theorem compact_coh (cfg : Cfg) (req : Int) (picks : List Nat) (s : State) (hc : Coh s) :
    Coh (compact cfg req picks s).1 := by
  simp only [compact]
  split
  · exact sweep_coh cfg _ s hc
  · exact evictLoop_coh cfg _ _ _ _ (sweep_coh cfg _ s hc)

end Ss
