import Sessions.Spike.Coh
namespace Ss

/-! heap lemmas -/
theorem obj_setObj_self (s : State) (h : Nat) (o : Sess) (hv : h < s.heap.length) : (s.setObj h o).obj h = o := by
  simp [State.obj, State.setObj, List.getD_eq_getElem?_getD, hv]
theorem obj_setObj_ne (s : State) (h h' : Nat) (o : Sess) (hne : h' ≠ h) : (s.setObj h o).obj h' = s.obj h' := by
  simp [State.obj, State.setObj, List.getD_eq_getElem?_getD, List.getElem?_set, Ne.symm hne]
theorem obj_alloc_old (s : State) (o : Sess) (h' : Nat) (hv : h' < s.heap.length) : (s.alloc o).2.obj h' = s.obj h' := by
  simp [State.obj, State.alloc, List.getD_eq_getElem?_getD, List.getElem?_append_left hv]
theorem obj_alloc_new (s : State) (o : Sess) : (s.alloc o).2.obj (s.alloc o).1 = o := by
  simp [State.obj, State.alloc, List.getD_eq_getElem?_getD]

/-- the invariant with an optional exception key `x` (the old id in the middle of RegenerateID). -/
structure InvX (x : Option Nat) (s : State) : Prop where
  valid : ∀ id h, (id, h) ∈ s.cache → h < s.heap.length
  wf : ∀ id h, (id, h) ∈ s.cache → some id ≠ x → (s.obj h).id = id
  coh : ∀ id h, (id, h) ∈ s.cache → some id ≠ x → ∃ rec, lookup id s.store = some rec ∧ ess rec = ess (s.obj h)
  uniq : ∀ id h1 h2, (id, h1) ∈ s.cache → (id, h2) ∈ s.cache → h1 = h2

/-- flushing any entry and dropping its key keeps the invariant. -/
theorem inv_flush_drop (x : Option Nat) (s : State) (id h : Nat) (hi : InvX x s) :
    InvX x { (saveRec s id (s.obj h)).1 with cache := erase id (saveRec s id (s.obj h)).1.cache } := by
  constructor
  · intro id' h' hm; exact hi.valid id' h' (mem_erase hm).1
  · intro id' h' hm hx; exact hi.wf id' h' (mem_erase hm).1 hx
  · intro id' h' hm hx
    obtain ⟨hm', hne⟩ := mem_erase hm
    obtain ⟨rec, hl, he⟩ := hi.coh id' h' hm' hx
    refine ⟨rec, ?_, he⟩
    simp only [saveRec]
    rw [lookup_insert_ne _ _ hne]; exact hl
  · intro id' h1 h2 hm1 hm2; exact hi.uniq id' h1 h2 (mem_erase hm1).1 (mem_erase hm2).1

theorem sweep_inv (x : Option Nat) (cfg : Cfg) (l : List (Nat × Nat)) (s : State) (hi : InvX x s) :
    InvX x (sweep cfg s l).1 := by
  induction l generalizing s with
  | nil => exact hi
  | cons p r ih =>
    obtain ⟨id, h⟩ := p
    simp only [sweep]
    split
    · exact ih _ (inv_flush_drop x s id h hi)
    · exact ih s hi

theorem evictLoop_inv (x : Option Nat) (cfg : Cfg) (req : Int) (fuel : Nat) (picks : List Nat) (s : State)
    (hi : InvX x s) : InvX x (evictLoop cfg req picks fuel s).1 := by
  induction fuel generalizing s picks with
  | zero => exact hi
  | succ n ih =>
    simp only [evictLoop]
    split
    · split
      · exact hi
      · exact ih _ _ (inv_flush_drop x s _ _ hi)
    · exact hi

theorem compact_inv (x : Option Nat) (cfg : Cfg) (req : Int) (picks : List Nat) (s : State) (hi : InvX x s) :
    InvX x (compact cfg req picks s).1 := by
  simp only [compact]
  split
  · exact sweep_inv x cfg _ s hi
  · exact evictLoop_inv x cfg _ _ _ _ (sweep_inv x cfg _ s hi)

/-- heap is never touched by compaction -/
theorem sweep_heap (cfg : Cfg) (l : List (Nat × Nat)) (s : State) : (sweep cfg s l).1.heap = s.heap := by
  induction l generalizing s with
  | nil => rfl
  | cons p r ih =>
    obtain ⟨id, h⟩ := p
    simp only [sweep]
    split
    · rw [ih]; rfl
    · exact ih s
theorem evictLoop_heap (cfg : Cfg) (req : Int) (fuel : Nat) (picks : List Nat) (s : State) :
    (evictLoop cfg req picks fuel s).1.heap = s.heap := by
  induction fuel generalizing s picks with
  | zero => rfl
  | succ n ih =>
    simp only [evictLoop]
    split
    · split
      · rfl
      · rw [ih]; rfl
    · rfl
theorem compact_heap (cfg : Cfg) (req : Int) (picks : List Nat) (s : State) : (compact cfg req picks s).1.heap = s.heap := by
  simp only [compact]
  split
  · exact sweep_heap cfg _ s
  · rw [evictLoop_heap, sweep_heap]

theorem obj_of_heap_eq {s s' : State} (h : s'.heap = s.heap) (k : Nat) : s'.obj k = s.obj k := by
  simp [State.obj, h]

/-- touching an object (same id, same essentials) keeps the invariant. -/
theorem inv_touch (x : Option Nat) (s : State) (h : Nat) (o : Sess) (hid : o.id = (s.obj h).id) (he : ess o = ess (s.obj h))
    (hi : InvX x s) : InvX x (s.setObj h o) := by
  constructor
  · intro id' h' hm; simpa [State.setObj] using hi.valid id' h' hm
  · intro id' h' hm hx
    have hv := hi.valid id' h' hm
    by_cases hh : h' = h
    · subst hh; rw [obj_setObj_self s h' o hv, hid]; exact hi.wf id' h' hm hx
    · rw [obj_setObj_ne s h h' o hh]; exact hi.wf id' h' hm hx
  · intro id' h' hm hx
    have hv := hi.valid id' h' hm
    obtain ⟨rec, hl, her⟩ := hi.coh id' h' hm hx
    refine ⟨rec, hl, ?_⟩
    by_cases hh : h' = h
    · subst hh; rw [obj_setObj_self s h' o hv, he]; exact her
    · rw [obj_setObj_ne s h h' o hh]; exact her
  · intro id' h1 h2 hm1 hm2; exact hi.uniq id' h1 h2 hm1 hm2

end Ss
