import Sessions.Spike.Start
namespace Ss

/-! ### where cache entries come from -/
theorem evictLoop_cache_sub (cfg : Cfg) (req : Int) (fuel : Nat) (picks : List Nat) (s : State) :
    ∀ p ∈ (evictLoop cfg req picks fuel s).1.cache, p ∈ s.cache := by
  induction fuel generalizing s picks with
  | zero => intro p hp; exact hp
  | succ n ih =>
    simp only [evictLoop]
    split
    · split
      · intro p hp; exact hp
      · intro p hp
        have := ih _ _ p hp
        simp only [saveRec] at this
        exact (mem_erase this).1
    · intro p hp; exact hp

theorem compact_cache_sub (cfg : Cfg) (req : Int) (picks : List Nat) (s : State) :
    ∀ p ∈ (compact cfg req picks s).1.cache, p ∈ s.cache := by
  simp only [compact]
  split
  · exact sweep_cache_sub cfg _ s
  · intro p hp; exact sweep_cache_sub cfg _ s p (evictLoop_cache_sub cfg _ _ _ _ p hp)

theorem cacheSet_cache (cfg : Cfg) (picks : List Nat) (s : State) (h : Nat) (hc : cfg.maxCache ≠ 0) :
    ((s.obj h).id, h) ∈ (cacheSet cfg picks s h).1.cache ∧
    ∀ p ∈ (cacheSet cfg picks s h).1.cache, p = ((s.obj h).id, h) ∨ p ∈ s.cache := by
  rw [cacheSet_state cfg picks s h hc]
  unfold cacheSetState putBoth
  constructor
  · simp [insert]
  · intro p hp
    simp only [insert, List.mem_cons] at hp
    rcases hp with hp | hp
    · exact Or.inl hp
    · right
      have := compact_cache_sub cfg _ picks _ p (mem_erase hp).1
      exact this

theorem cacheSet_heap (cfg : Cfg) (picks : List Nat) (s : State) (h : Nat) (hc : cfg.maxCache ≠ 0) :
    (cacheSet cfg picks s h).1.heap = (touchNow s h).heap := by
  rw [cacheSet_state cfg picks s h hc]
  unfold cacheSetState putBoth
  exact compact_heap cfg _ picks _

/-- cache.Set changes no object's id. -/
theorem cacheSet_obj_id (cfg : Cfg) (picks : List Nat) (s : State) (h h' : Nat) (hc : cfg.maxCache ≠ 0)
    (hv : h < s.heap.length) : ((cacheSet cfg picks s h).1.obj h').id = (s.obj h').id := by
  rw [obj_of_heap_eq (cacheSet_heap cfg picks s h hc)]
  by_cases hh : h' = h
  · subst hh; exact touchNow_obj_id s h' hv
  · unfold touchNow; rw [obj_setObj_ne s h h' _ hh]

/-- the handle handed to the application is the only cached object under its id (or the id is not cached). -/
def HOK (s : State) (h : Nat) : Prop := ∀ h', ((s.obj h).id, h') ∈ s.cache → h' = h

theorem HOK_of_mem (x : Option Nat) (s : State) (h : Nat) (hi : InvX x s) (hm : ((s.obj h).id, h) ∈ s.cache) : HOK s h :=
  fun h' hm' => hi.uniq _ h' h hm' hm

/-- RegenerateID: the object now carries the fresh id, and it is the only cached object under that id. -/
theorem regenerate_post (cfg : Cfg) (picks : List Nat) (s : State) (h : Nat) (hc : cfg.maxCache ≠ 0)
    (hv : h < s.heap.length) (hfresh : (s.obj h).id < s.nextId) (hi : InvX none s) :
    ((regenerate cfg picks s h).1.obj h).id = s.nextId ∧ HOK (regenerate cfg picks s h).1 h ∧
    h < (regenerate cfg picks s h).1.heap.length := by
  rw [regenerate_state]
  simp only []
  have honly : ∀ id', (id', h) ∈ s.cache → id' = (s.obj h).id := fun id' hm => (hi.wf id' h hm (by simp)).symm
  have hA : InvX (some (s.obj h).id) (regenS0 s h) := inv_nextId _ _ _ (inv_setObj_except s h _ _ hi honly)
  have hvA : h < (regenS0 s h).heap.length := by simp [regenS0, State.setObj]; exact hv
  have hidA : ((regenS0 s h).obj h).id = s.nextId := by
    have : (regenS0 s h).obj h = (s.setObj h { s.obj h with id := s.nextId, created := s.now }).obj h := rfl
    rw [this, obj_setObj_self s h _ hv]
  have hB := cacheSet_inv (some (s.obj h).id) cfg picks (regenS0 s h) h hc hvA hA
  have hcB := cacheSet_cache cfg picks (regenS0 s h) h hc
  have hidB := cacheSet_obj_id cfg picks (regenS0 s h) h h hc hvA
  have hlenB : (cacheSet cfg picks (regenS0 s h) h).1.heap.length = (regenS0 s h).heap.length := by
    rw [cacheSet_heap cfg picks _ h hc, touchNow_len]
  rw [hidA] at hB hcB hidB
  generalize (cacheSet cfg picks (regenS0 s h) h).1 = s1 at *
  have hv1 : h < s1.heap.length := by rw [hlenB]; exact hvA
  -- allocation of the reference object
  have hC := inv_alloc _ s1 (refObj s1 h (s.obj h).id s.nextId) hB
  have hnewid : (s1.alloc (refObj s1 h (s.obj h).id s.nextId)).1 = s1.heap.length := rfl
  have hvC : (s1.alloc (refObj s1 h (s.obj h).id s.nextId)).1 < (s1.alloc (refObj s1 h (s.obj h).id s.nextId)).2.heap.length := by
    simp [State.alloc]
  have hobjC : (s1.alloc (refObj s1 h (s.obj h).id s.nextId)).2.obj h = s1.obj h := obj_alloc_old s1 _ h hv1
  have hcacheC : (s1.alloc (refObj s1 h (s.obj h).id s.nextId)).2.cache = s1.cache := rfl
  have hnewobj := obj_alloc_new s1 (refObj s1 h (s.obj h).id s.nextId)
  have hlenC : (s1.alloc (refObj s1 h (s.obj h).id s.nextId)).2.heap.length = s1.heap.length + 1 := by simp [State.alloc]
  generalize hhr : (s1.alloc (refObj s1 h (s.obj h).id s.nextId)).1 = hr at *
  generalize (s1.alloc (refObj s1 h (s.obj h).id s.nextId)).2 = s2 at *
  -- second cache.Set
  have hcD := cacheSet_cache cfg picks s2 hr hc
  have hidD := cacheSet_obj_id cfg picks s2 hr h hc hvC
  have hlenD : (cacheSet cfg picks s2 hr).1.heap.length = s2.heap.length := by
    rw [cacheSet_heap cfg picks _ hr hc, touchNow_len]
  rw [hnewobj] at hcD
  refine ⟨?_, ?_, ?_⟩
  · show ((cacheSet cfg picks s2 hr).1.obj h).id = s.nextId
    rw [hidD, hobjC]; exact hidB
  · intro h' hm'
    have hid0 : ((cacheSet cfg picks s2 hr).1.obj h).id = s.nextId := by rw [hidD, hobjC]; exact hidB
    change (((cacheSet cfg picks s2 hr).1.obj h).id, h') ∈ (cacheSet cfg picks s2 hr).1.cache at hm'
    rw [hid0] at hm'
    have hm2 : (s.nextId, h') ∈ (cacheSet cfg picks s2 hr).1.cache := hm'
    rcases hcD.2 _ hm2 with heq | hin
    · -- it would be the reference entry, whose key is the old id
      simp only [refObj, Prod.mk.injEq] at heq
      omega
    · rw [hcacheC] at hin
      exact hB.uniq _ h' h hin hcB.1
  · show h < (cacheSet cfg picks s2 hr).1.heap.length
    rw [hlenD, hlenC]; omega

end Ss

namespace Ss

theorem setObj_obj_id_same (s : State) (h h' : Nat) (o : Sess) (hid : o.id = (s.obj h).id) :
    ((s.setObj h o).obj h').id = (s.obj h').id := by
  by_cases hh : h' = h
  · subst hh
    by_cases hv : h' < s.heap.length
    · rw [obj_setObj_self s h' o hv, hid]
    · have : (s.setObj h' o).heap = s.heap := by
        simp only [State.setObj]; exact List.set_eq_of_length_le (by omega)
      rw [obj_of_heap_eq this]
  · rw [obj_setObj_ne s h h' o hh]

theorem HOK_setObj (s : State) (h hh : Nat) (o : Sess) (hid : o.id = (s.obj hh).id) (hk : HOK s h) :
    HOK (s.setObj hh o) h := by
  intro h' hm
  have : ((s.setObj hh o).obj h).id = (s.obj h).id := setObj_obj_id_same s hh h o hid
  rw [this] at hm
  exact hk h' hm

theorem cacheGet_mem (cfg : Cfg) (picks : List Nat) (s : State) (id h : Nat) (hc : cfg.maxCache ≠ 0)
    (hh : (cacheGet cfg picks s id).2.1 = some h) : (id, h) ∈ (cacheGet cfg picks s id).1.cache := by
  cases h1 : lookup id s.cache with
  | some h0 =>
    have : cacheGet cfg picks s id = (s, some h0, []) := by unfold cacheGet; simp only [h1]
    rw [this] at hh ⊢
    simp only [Option.some.injEq] at hh; subst hh
    exact lookup_some_mem h1
  | none =>
    cases h2 : lookup id s.store with
    | none =>
      have : cacheGet cfg picks s id = (s, none, [.load id false]) := by unfold cacheGet; simp only [h1, h2]
      rw [this] at hh; simp at hh
    | some rec =>
      obtain ⟨e1, e2⟩ := cacheGet_state_miss cfg picks s id rec hc h1 h2
      rw [e2] at hh; rw [e1]
      simp only [Option.some.injEq] at hh; subst hh
      simp [loadInto, insert]

theorem createNew_post (cfg : Cfg) (picks : List Nat) (s : State) (r : Req) (pre : List Ev) (hc : cfg.maxCache ≠ 0)
    (hi : InvX none s) (h : Nat) (b : Bool) (hres : (createNew cfg picks s r pre).2.1 = .sess h b) :
    h < (createNew cfg picks s r pre).1.heap.length ∧ HOK (createNew cfg picks s r pre).1 h := by
  have hinv := createNew_inv cfg picks s r pre hc hi
  unfold createNew at hres hinv ⊢
  split at hres
  · simp at hres
  · rename_i hcr
    simp only [hcr, Bool.false_eq_true, ↓reduceIte] at hinv ⊢
    simp only [] at hres hinv ⊢
    injection hres with hh _
    subst hh
    generalize hs0 : ({ s with nextId := s.nextId + 1 } : State) = s0 at *
    generalize ho : ({ id := s.nextId, created := s.now, lastAccess := s.now, ip := r.ip, ua := r.ua } : Sess) = o at *
    have hv : (s0.alloc o).1 < (s0.alloc o).2.heap.length := by simp [State.alloc]
    have hcs := cacheSet_cache cfg picks (s0.alloc o).2 (s0.alloc o).1 hc
    have hid := cacheSet_obj_id cfg picks (s0.alloc o).2 (s0.alloc o).1 (s0.alloc o).1 hc hv
    have hlen : (cacheSet cfg picks (s0.alloc o).2 (s0.alloc o).1).1.heap.length = (s0.alloc o).2.heap.length := by
      rw [cacheSet_heap cfg picks _ _ hc, touchNow_len]
    refine ⟨by rw [hlen]; exact hv, ?_⟩
    apply HOK_of_mem none _ _ hinv
    rw [hid]; exact hcs.1

end Ss

namespace Ss

theorem touch_len (s : State) (h : Nat) (r : Req) : (touch s h r).heap.length = s.heap.length := by
  simp [touch, State.setObj]
theorem HOK_touch (s : State) (h hh : Nat) (r : Req) (hk : HOK s h) : HOK (touch s hh r) h :=
  HOK_setObj s h hh _ rfl hk

/-- what `Start` guarantees about the handle it returns. -/
theorem start_post (cfg : Cfg) (picks : List Nat) (s : State) (r : Req) (hc : cfg.maxCache ≠ 0)
    (hfresh : ∀ id, r.cookie = some id → id < s.nextId) (hi : InvX none s) (h : Nat) (b : Bool)
    (hres : (start cfg picks s r).2.1 = .sess h b) :
    h < (start cfg picks s r).1.heap.length ∧ HOK (start cfg picks s r).1 h := by
  unfold start at hres ⊢
  split at hres
  · rename_i hck
    try simp only [hck]
    exact createNew_post cfg picks s r [] hc hi h b hres
  · rename_i id hck
    try simp only [hck]
    have hG := cacheGet_inv cfg picks s id hc hi
    have hM := cacheGet_mem cfg picks s id
    have hN := cacheGet_nextId cfg picks s id
    generalize cacheGet cfg picks s id = g at *
    obtain ⟨s1, oh, e1⟩ := g
    simp only at hG hN hM hres ⊢
    obtain ⟨hi1, hh⟩ := hG
    cases oh with
    | none => exact createNew_post cfg picks s1 r _ hc hi1 h b hres
    | some h0 =>
      obtain ⟨hv, hid⟩ := hh h0 rfl
      have hmem := hM h0 hc rfl
      simp only [] at hres ⊢
      split at hres
      · rename_i hinv
        try simp only [hinv, ↓reduceIte]
        exact createNew_post cfg picks _ r _ hc (cacheDelete_inv s1 _ hi1) h b hres
      · rename_i hinv
        try simp only [hinv, Bool.false_eq_true, ↓reduceIte]
        split at hres
        · rename_i hrot
          try simp only [hrot, ↓reduceIte]
          injection hres with hh0 _
          subst hh0
          have hp := regenerate_post cfg picks s1 h0 hc hv (by rw [hid, hN]; exact hfresh id hck) hi1
          exact ⟨by rw [touch_len]; exact hp.2.2, HOK_touch _ _ _ _ hp.2.1⟩
        · rename_i hrot
          try simp only [hrot, Bool.false_eq_true, ↓reduceIte]
          split at hres
          · simp at hres
          · rename_i hbs
            try simp only [hbs, ↓reduceIte]
            split at hres
            · rename_i tgt href
              try simp only [href]
              have hG2 := cacheGet_inv cfg picks s1 tgt hc hi1
              have hM2 := cacheGet_mem cfg picks s1 tgt
              generalize cacheGet cfg picks s1 tgt = g2 at *
              obtain ⟨s2, oh2, e2⟩ := g2
              simp only at hG2 hM2 hres ⊢
              cases oh2 with
              | none => simp at hres
              | some h2 =>
                simp only [] at hres ⊢
                injection hres with hh2 _
                subst hh2
                obtain ⟨hv2, hid2⟩ := hG2.2 h2 rfl
                have hm2 := hM2 h2 hc rfl
                refine ⟨by rw [touch_len]; exact hv2, HOK_touch _ _ _ _ ?_⟩
                exact HOK_of_mem none s2 h2 hG2.1 (by rw [hid2]; exact hm2)
            · rename_i href
              try simp only [href]
              injection hres with hh0 _
              subst hh0
              refine ⟨by rw [touch_len]; exact hv, HOK_touch _ _ _ _ ?_⟩
              exact HOK_of_mem none s1 h0 hi1 (by rw [hid]; exact hmem)

end Ss

namespace Ss

/-! ### handler write, quiescence, histories -/
theorem hset_inv (s : State) (h k v : Nat) (hv : h < s.heap.length) (hi : InvX none s) (hk : HOK s h) :
    InvX none (hset s h k v).1 ∧ HOK (hset s h k v).1 h ∧ h < (hset s h k v).1.heap.length := by
  unfold hset
  split
  · exact ⟨hi, hk, hv⟩
  · rename_i d hd
    simp only [saveRec]
    generalize ho : ({ s.obj h with data := some (insert k v d) } : Sess) = o
    have hoid : o.id = (s.obj h).id := by rw [← ho]
    have hobj : (s.setObj h o).obj h = o := obj_setObj_self s h o hv
    have hids : ∀ h', ((s.setObj h o).obj h').id = (s.obj h').id := fun h' => setObj_obj_id_same s h h' o hoid
    have hlen : (s.setObj h o).heap.length = s.heap.length := by simp [State.setObj]
    refine ⟨⟨?_, ?_, ?_, ?_⟩, ?_, ?_⟩
    · intro id' h' hm; show h' < (s.setObj h o).heap.length; rw [hlen]; exact hi.valid id' h' hm
    · intro id' h' hm hx
      show ((s.setObj h o).obj h').id = id'
      rw [hids]; exact hi.wf id' h' hm hx
    · intro id' h' hm hx
      show ∃ rec, lookup id' (insert ((s.setObj h o).obj h).id ((s.setObj h o).obj h) s.store) = some rec ∧
            ess rec = ess ((s.setObj h o).obj h')
      rw [hobj, hoid]
      by_cases hid : id' = (s.obj h).id
      · subst hid
        have : h' = h := hk h' hm
        subst this
        exact ⟨o, lookup_insert_self _ _ _, by rw [hobj]⟩
      · have hne : h' ≠ h := by
          intro hh; subst hh; exact hid (hi.wf id' h' hm hx).symm
        obtain ⟨rec, hl, he⟩ := hi.coh id' h' hm hx
        refine ⟨rec, by rw [lookup_insert_ne _ _ hid]; exact hl, ?_⟩
        rw [obj_setObj_ne s h h' o hne]; exact he
    · intro id' h1 h2 hm1 hm2; exact hi.uniq id' h1 h2 hm1 hm2
    · intro h' hm
      have : ((s.setObj h o).obj h).id = (s.obj h).id := hids h
      have hm' : (((s.setObj h o).obj h).id, h') ∈ s.cache := hm
      rw [this] at hm'
      exact hk h' hm'
    · show h < (s.setObj h o).heap.length; rw [hlen]; exact hv

def applySets (s : State) (h : Nat) : List (Nat × Nat) → State
  | [] => s
  | (k, v) :: r => applySets (hset s h k v).1 h r

theorem applySets_inv (s : State) (h : Nat) (l : List (Nat × Nat)) (hv : h < s.heap.length) (hi : InvX none s) (hk : HOK s h) :
    InvX none (applySets s h l) := by
  induction l generalizing s with
  | nil => exact hi
  | cons p r ih =>
    obtain ⟨k, v⟩ := p
    obtain ⟨h1, h2, h3⟩ := hset_inv s h k v hv hi hk
    exact ih _ h3 h1 h2

theorem inv_now (s : State) (t : Int) (hi : InvX none s) : InvX none { s with now := t } :=
  ⟨hi.valid, hi.wf, hi.coh, hi.uniq⟩

theorem fire_fold_inv (l : List (Int × Nat)) (acc : State × List Ev) (hi : InvX none acc.1) :
    InvX none (l.foldl (fun (acc : State × List Ev) t => let (s', e) := cacheDelete acc.1 t.2; (s', acc.2 ++ e)) acc).1 := by
  induction l generalizing acc with
  | nil => exact hi
  | cons t r ih => exact ih _ (cacheDelete_inv acc.1 t.2 hi)

theorem fire_inv (s : State) (hi : InvX none s) : InvX none (fire s).1 := by
  unfold fire
  exact fire_fold_inv _ _ (inv_timers none s _ hi)

theorem wait_inv (s : State) (d : Int) (hi : InvX none s) : InvX none (wait s d).1 := by
  unfold wait; exact fire_inv _ (inv_now s _ hi)

/-- a history: requests (with the handler's writes and the eviction choices of that request) and waits. -/
inductive Op where
  | req (r : Req) (sets : List (Nat × Nat)) (picks : List Nat)
  | wait (d : Int)

/-- a client can only present ids that have been minted (unguessability), other values count as "no cookie". -/
def sane (s : State) (r : Req) : Req :=
  match r.cookie with
  | some id => if id < s.nextId then r else { r with cookie := none }
  | none => r

def runOp (cfg : Cfg) (s : State) : Op → State
  | .req r sets picks =>
    let st := start cfg picks s (sane s r)
    let s1 := match st.2.1 with
      | .sess h _ => applySets st.1 h sets
      | _ => st.1
    (fire s1).1
  | .wait d => (wait s d).1

def run (cfg : Cfg) (s : State) (ops : List Op) : State := ops.foldl (runOp cfg) s

theorem sane_fresh (s : State) (r : Req) : ∀ id, (sane s r).cookie = some id → id < s.nextId := by
  intro id h
  unfold sane at h
  split at h
  · rename_i id' hck
    split at h
    · rw [hck] at h; simp at h; omega
    · simp at h
  · rename_i hck; rw [hck] at h; simp at h

theorem runOp_inv (cfg : Cfg) (s : State) (op : Op) (hc : cfg.maxCache ≠ 0) (hi : InvX none s) :
    InvX none (runOp cfg s op) := by
  cases op with
  | wait d => exact wait_inv s d hi
  | req r sets picks =>
    simp only [runOp]
    have hinv := start_inv cfg picks s (sane s r) hc (sane_fresh s r) hi
    apply fire_inv
    split
    · rename_i h b hres
      obtain ⟨hv, hk⟩ := start_post cfg picks s (sane s r) hc (sane_fresh s r) hi h b hres
      exact applySets_inv _ h sets hv hinv hk
    · exact hinv

theorem init_inv : InvX none ({} : State) :=
  ⟨by intro _ _ h; simp at h, by intro _ _ h; simp at h, by intro _ _ h; simp at h, by intro _ _ _ h; simp at h⟩

/-- C09 (coherence) at model level, for every history of requests-with-writes and waits, every eviction choice,
every configuration with the cache enabled: at every operation boundary each cached session has a stored record
under its id that agrees with it on data, user, reference and creation time — so dropping the cache loses nothing
but access bookkeeping. -/
theorem coherence_all_histories (cfg : Cfg) (hc : cfg.maxCache ≠ 0) (ops : List Op) : InvX none (run cfg {} ops) := by
  unfold run
  suffices h : ∀ s, InvX none s → InvX none (ops.foldl (runOp cfg) s) from h _ init_inv
  induction ops with
  | nil => intro s hi; exact hi
  | cons op r ih => intro s hi; exact ih _ (runOp_inv cfg s op hc hi)

end Ss
