import Sessions.Spike.Regen
namespace Ss

theorem lookup_some_mem {β} {k : Nat} {v : β} {m : List (Nat × β)} (h : lookup k m = some v) : (k, v) ∈ m := by
  induction m with
  | nil => simp [lookup] at h
  | cons p r ih =>
    obtain ⟨k', v'⟩ := p
    by_cases hk : k' = k
    · subst hk; simp [lookup] at h; subst h; exact List.mem_cons_self
    · simp [lookup, hk] at h; exact List.mem_cons_of_mem _ (ih h)

theorem lookup_none_not_mem {β} {k : Nat} {m : List (Nat × β)} (h : lookup k m = none) : ∀ v, (k, v) ∉ m := by
  induction m with
  | nil => intro v hv; simp at hv
  | cons p r ih =>
    obtain ⟨k', v'⟩ := p
    by_cases hk : k' = k
    · subst hk; simp [lookup] at h
    · simp [lookup, hk] at h
      intro v hv
      simp only [List.mem_cons, Prod.mk.injEq] at hv
      rcases hv with ⟨h1, _⟩ | hv
      · exact hk h1.symm
      · exact ih h v hv

theorem firstMin_mem (s : State) (m : Int) (l : List (Nat × Nat)) (p : Nat × Nat) (h : firstMin s m l = some p) : p ∈ l := by
  induction l with
  | nil => simp [firstMin] at h
  | cons q r ih =>
    obtain ⟨id, hh⟩ := q
    simp only [firstMin] at h
    split at h
    · simp at h; subst h; exact List.mem_cons_self
    · exact List.mem_cons_of_mem _ (ih h)

theorem victim_mem (s : State) (pick : Nat) (p : Nat × Nat) (h : victim s pick = some p) : p ∈ s.cache := by
  unfold victim at h
  split at h
  · simp at h
  · split at h
    · rename_i hh hl
      split at h
      · simp at h; subst h; exact lookup_some_mem hl
      · exact firstMin_mem s _ _ p h
    · exact firstMin_mem s _ _ p h

/-- flushing key `id ≠ k` does not change the stored record under `k`. -/
theorem store_flush_other (s : State) (id h k : Nat) (hne : k ≠ id) :
    lookup k ({ (saveRec s id (s.obj h)).1 with cache := erase id (saveRec s id (s.obj h)).1.cache } : State).store
      = lookup k s.store := by
  simp only [saveRec]; exact lookup_insert_ne _ _ hne

theorem sweep_store_other (cfg : Cfg) (k : Nat) (l : List (Nat × Nat)) (s : State) (hl : ∀ p ∈ l, p.1 ≠ k) :
    lookup k (sweep cfg s l).1.store = lookup k s.store := by
  induction l generalizing s with
  | nil => rfl
  | cons p r ih =>
    obtain ⟨id, h⟩ := p
    have hid : id ≠ k := hl (id, h) List.mem_cons_self
    have hr : ∀ p ∈ r, p.1 ≠ k := fun p hp => hl p (List.mem_cons_of_mem _ hp)
    simp only [sweep]
    split
    · rw [ih _ hr]; exact store_flush_other s id h k (Ne.symm hid)
    · exact ih s hr

theorem sweep_cache_sub (cfg : Cfg) (l : List (Nat × Nat)) (s : State) : ∀ p ∈ (sweep cfg s l).1.cache, p ∈ s.cache := by
  induction l generalizing s with
  | nil => intro p hp; exact hp
  | cons q r ih =>
    obtain ⟨id, h⟩ := q
    simp only [sweep]
    split
    · intro p hp
      have := ih _ p hp
      simp only [saveRec] at this
      exact (mem_erase this).1
    · exact ih s

theorem evictLoop_store_other (cfg : Cfg) (req : Int) (k : Nat) (fuel : Nat) (picks : List Nat) (s : State)
    (hk : ∀ p ∈ s.cache, p.1 ≠ k) : lookup k (evictLoop cfg req picks fuel s).1.store = lookup k s.store := by
  induction fuel generalizing s picks with
  | zero => rfl
  | succ n ih =>
    simp only [evictLoop]
    split
    · split
      · rfl
      · rename_i id h hv
        have hmem := victim_mem s _ _ hv
        have hid : id ≠ k := hk (id, h) hmem
        rw [ih]
        · exact store_flush_other s id h k (Ne.symm hid)
        · intro p hp
          simp only [saveRec] at hp
          exact hk p (mem_erase hp).1
    · rfl

theorem compact_store_other (cfg : Cfg) (req : Int) (picks : List Nat) (s : State) (k : Nat)
    (hk : ∀ p ∈ s.cache, p.1 ≠ k) : lookup k (compact cfg req picks s).1.store = lookup k s.store := by
  simp only [compact]
  split
  · exact sweep_store_other cfg k _ s hk
  · rw [evictLoop_store_other, sweep_store_other cfg k _ s hk]
    intro p hp; exact hk p (sweep_cache_sub cfg _ s p hp)

/-! ### cache.Get -/
def loadInto (cfg : Cfg) (picks : List Nat) (s : State) (id : Nat) (rec : Sess) : State :=
  let a := s.alloc { rec with id := id }
  let s2 := (compact cfg 1 picks a.2).1
  { s2 with cache := insert id a.1 s2.cache }

theorem cacheGet_state_miss (cfg : Cfg) (picks : List Nat) (s : State) (id : Nat) (rec : Sess) (hc : cfg.maxCache ≠ 0)
    (h1 : lookup id s.cache = none) (h2 : lookup id s.store = some rec) :
    (cacheGet cfg picks s id).1 = loadInto cfg picks s id rec ∧ (cacheGet cfg picks s id).2.1 = some (s.alloc { rec with id := id }).1 := by
  have hb : (cfg.maxCache != 0) = true := by simp [hc]
  unfold cacheGet
  simp only [h1, h2, hb, if_true]
  constructor <;> first | rfl | trivial

theorem loadInto_inv (cfg : Cfg) (picks : List Nat) (s : State) (id : Nat) (rec : Sess)
    (h1 : lookup id s.cache = none) (h2 : lookup id s.store = some rec) (hi : InvX none s) :
    InvX none (loadInto cfg picks s id rec) := by
  unfold loadInto
  simp only []
  have hA := inv_alloc none s { rec with id := id } hi
  have hnew := obj_alloc_new s { rec with id := id }
  have hcacheA : (s.alloc { rec with id := id }).2.cache = s.cache := rfl
  have hstoreA : (s.alloc { rec with id := id }).2.store = s.store := rfl
  have hnok : ∀ p ∈ (s.alloc { rec with id := id }).2.cache, p.1 ≠ id := by
    intro p hp heq
    rw [hcacheA] at hp
    obtain ⟨k, v⟩ := p
    simp only at heq; subst heq
    exact lookup_none_not_mem h1 v hp
  have hC := compact_inv none cfg 1 picks _ hA
  have hheap := compact_heap cfg 1 picks (s.alloc { rec with id := id }).2
  have hst := compact_store_other cfg 1 picks _ id hnok
  rw [hstoreA, h2] at hst
  have hvn : (s.alloc { rec with id := id }).1 < (s.alloc { rec with id := id }).2.heap.length := by simp [State.alloc]
  generalize (s.alloc { rec with id := id }).1 = hn at *
  generalize (s.alloc { rec with id := id }).2 = sA at *
  have hobjn : (compact cfg 1 picks sA).1.obj hn = { rec with id := id } := by rw [obj_of_heap_eq hheap]; exact hnew
  generalize (compact cfg 1 picks sA).1 = s2 at *
  constructor
  · intro id' h' hm
    simp only [insert, List.mem_cons, Prod.mk.injEq] at hm
    show h' < s2.heap.length
    rcases hm with ⟨_, rfl⟩ | hm
    · rw [hheap]; exact hvn
    · exact hC.valid id' h' (mem_erase hm).1
  · intro id' h' hm _
    simp only [insert, List.mem_cons, Prod.mk.injEq] at hm
    show (s2.obj h').id = id'
    rcases hm with ⟨rfl, rfl⟩ | hm
    · rw [hobjn]
    · exact hC.wf id' h' (mem_erase hm).1 (by simp)
  · intro id' h' hm _
    simp only [insert, List.mem_cons, Prod.mk.injEq] at hm
    show ∃ r, lookup id' s2.store = some r ∧ ess r = ess (s2.obj h')
    rcases hm with ⟨rfl, rfl⟩ | hm
    · exact ⟨rec, hst, by rw [hobjn]; rfl⟩
    · exact hC.coh id' h' (mem_erase hm).1 (by simp)
  · intro id' h1 h2 hm1 hm2
    simp only [insert, List.mem_cons, Prod.mk.injEq] at hm1 hm2
    rcases hm1 with ⟨rfl, rfl⟩ | hm1 <;> rcases hm2 with ⟨hk2, rfl⟩ | hm2
    · rfl
    · exact absurd rfl (mem_erase hm2).2
    · exact absurd hk2 (mem_erase hm1).2
    · exact hC.uniq id' h1 h2 (mem_erase hm1).1 (mem_erase hm2).1

end Ss

namespace Ss

/-- cache.Get keeps the invariant and returns a valid handle whose object carries the requested id. -/
theorem cacheGet_inv (cfg : Cfg) (picks : List Nat) (s : State) (id : Nat) (hc : cfg.maxCache ≠ 0) (hi : InvX none s) :
    InvX none (cacheGet cfg picks s id).1 ∧
    ∀ h, (cacheGet cfg picks s id).2.1 = some h →
      h < (cacheGet cfg picks s id).1.heap.length ∧ ((cacheGet cfg picks s id).1.obj h).id = id := by
  cases h1 : lookup id s.cache with
  | some h0 =>
    have : cacheGet cfg picks s id = (s, some h0, []) := by unfold cacheGet; simp only [h1]
    rw [this]
    refine ⟨hi, ?_⟩
    intro h hh
    simp only [Option.some.injEq] at hh; subst hh
    have hm := lookup_some_mem h1
    exact ⟨hi.valid id h0 hm, hi.wf id h0 hm (by simp)⟩
  | none =>
    cases h2 : lookup id s.store with
    | none =>
      have : cacheGet cfg picks s id = (s, none, [.load id false]) := by unfold cacheGet; simp only [h1, h2]
      rw [this]
      exact ⟨hi, by intro h hh; simp at hh⟩
    | some rec =>
      obtain ⟨e1, e2⟩ := cacheGet_state_miss cfg picks s id rec hc h1 h2
      rw [e1, e2]
      have hL := loadInto_inv cfg picks s id rec h1 h2 hi
      refine ⟨hL, ?_⟩
      intro h hh
      simp only [Option.some.injEq] at hh; subst hh
      have hm : (id, (s.alloc { rec with id := id }).1) ∈ (loadInto cfg picks s id rec).cache := by
        simp [loadInto, insert]
      exact ⟨hL.valid _ _ hm, hL.wf _ _ hm (by simp)⟩

theorem cacheDelete_inv (s : State) (id : Nat) (hi : InvX none s) : InvX none (cacheDelete s id).1 := by
  constructor
  · intro id' h' hm
    simp only [cacheDelete, delRec] at hm
    exact hi.valid id' h' (mem_erase hm).1
  · intro id' h' hm _
    simp only [cacheDelete, delRec] at hm
    exact hi.wf id' h' (mem_erase hm).1 (by simp)
  · intro id' h' hm _
    simp only [cacheDelete, delRec] at hm ⊢
    obtain ⟨hm', hne⟩ := mem_erase hm
    obtain ⟨rec, hl, he⟩ := hi.coh id' h' hm' (by simp)
    exact ⟨rec, by rw [lookup_erase_ne _ hne]; exact hl, he⟩
  · intro id' h1 h2 hm1 hm2
    simp only [cacheDelete, delRec] at hm1 hm2
    exact hi.uniq id' h1 h2 (mem_erase hm1).1 (mem_erase hm2).1

theorem touch_inv (s : State) (h : Nat) (r : Req) (hi : InvX none s) : InvX none (touch s h r) :=
  inv_touch none s h _ rfl rfl hi

theorem createNew_inv (cfg : Cfg) (picks : List Nat) (s : State) (r : Req) (pre : List Ev) (hc : cfg.maxCache ≠ 0)
    (hi : InvX none s) : InvX none (createNew cfg picks s r pre).1 := by
  unfold createNew
  split
  · exact hi
  · simp only []
    have hA := inv_alloc none _ { id := s.nextId, created := s.now, lastAccess := s.now, ip := r.ip, ua := r.ua }
      (inv_nextId none s (s.nextId + 1) hi)
    have hv : (({ s with nextId := s.nextId + 1 } : State).alloc
        { id := s.nextId, created := s.now, lastAccess := s.now, ip := r.ip, ua := r.ua }).1
        < (({ s with nextId := s.nextId + 1 } : State).alloc
        { id := s.nextId, created := s.now, lastAccess := s.now, ip := r.ip, ua := r.ua }).2.heap.length := by
      simp [State.alloc]
    have := cacheSet_inv none cfg picks _ _ hc hv hA
    simpa using this

end Ss

namespace Ss

theorem sweep_nextId (cfg : Cfg) (l : List (Nat × Nat)) (s : State) : (sweep cfg s l).1.nextId = s.nextId := by
  induction l generalizing s with
  | nil => rfl
  | cons p r ih =>
    obtain ⟨id, h⟩ := p
    simp only [sweep]
    split
    · rw [ih]; rfl
    · exact ih s
theorem evictLoop_nextId (cfg : Cfg) (req : Int) (fuel : Nat) (picks : List Nat) (s : State) :
    (evictLoop cfg req picks fuel s).1.nextId = s.nextId := by
  induction fuel generalizing s picks with
  | zero => rfl
  | succ n ih =>
    simp only [evictLoop]
    split
    · split
      · rfl
      · rw [ih]; rfl
    · rfl
theorem compact_nextId (cfg : Cfg) (req : Int) (picks : List Nat) (s : State) : (compact cfg req picks s).1.nextId = s.nextId := by
  simp only [compact]
  split
  · exact sweep_nextId cfg _ s
  · rw [evictLoop_nextId, sweep_nextId]

theorem cacheGet_nextId (cfg : Cfg) (picks : List Nat) (s : State) (id : Nat) : (cacheGet cfg picks s id).1.nextId = s.nextId := by
  unfold cacheGet
  split
  · rfl
  · split
    · rfl
    · simp only []
      split
      · simp only []; rw [compact_nextId]; rfl
      · rfl

/-- `Start` preserves the invariant (cache enabled; the client presents only ids that have been minted). -/
theorem start_inv (cfg : Cfg) (picks : List Nat) (s : State) (r : Req) (hc : cfg.maxCache ≠ 0)
    (hfresh : ∀ id, r.cookie = some id → id < s.nextId) (hi : InvX none s) :
    InvX none (start cfg picks s r).1 := by
  unfold start
  split
  · exact createNew_inv cfg picks s r [] hc hi
  · rename_i id hck
    have hG := cacheGet_inv cfg picks s id hc hi
    have hN := cacheGet_nextId cfg picks s id
    generalize cacheGet cfg picks s id = g at *
    obtain ⟨s1, oh, e1⟩ := g
    simp only at hG hN ⊢
    obtain ⟨hi1, hh⟩ := hG
    cases oh with
    | none => exact createNew_inv cfg picks s1 r _ hc hi1
    | some h =>
      obtain ⟨hv, hid⟩ := hh h rfl
      simp only []
      split
      · exact createNew_inv cfg picks _ r _ hc (cacheDelete_inv s1 _ hi1)
      · split
        · exact touch_inv _ _ _ (regenerate_inv cfg picks s1 h hc hv (by rw [hid, hN]; exact hfresh id hck) hi1)
        · split
          · exact cacheDelete_inv s1 id hi1
          · split
            · rename_i tgt hr
              have hG2 := cacheGet_inv cfg picks s1 tgt hc hi1
              generalize cacheGet cfg picks s1 tgt = g2 at *
              obtain ⟨s2, oh2, e2⟩ := g2
              cases oh2 with
              | none => exact hG2.1
              | some h2 => exact touch_inv _ _ _ hG2.1
            · exact touch_inv _ _ _ hi1

end Ss
