import Sessions.Spike.Model
open Ss

def show3 (x : State × Res × List Ev) : String := s!"{repr x.2.1} | {repr x.2.2}"

-- F1: idExpiry = MaxInt64 kills the session on the second request
#eval
  let cfg : Cfg := { idExpiry := maxI64 }
  let (s1, _, _) := start cfg [] {} { cookie := none, create := true }
  let (s2, _) := wait s1 10
  show3 (start cfg [] s2 { cookie := some 0 })

-- F2: two id changes inside grace; oldest id returns the placeholder
#eval
  let cfg : Cfg := {}
  let (s1, r1, _) := start cfg [] {} { cookie := none, create := true }
  let h := match r1 with | .sess h _ => h | _ => 0
  let (s2, _) := hset s1 h 1 42
  let (s3, _) := regenerate cfg [] s2 h
  let (s4, _) := regenerate cfg [] s3 h
  let (s5, r5, e5) := start cfg [] s4 { cookie := some 0 }
  let o := match r5 with | .sess h _ => some (s5.obj h) | _ => none
  (repr r5, repr e5, repr o)

-- rotation at idExpiry, then clean-up after grace
#eval
  let cfg : Cfg := { idExpiry := 10, grace := 5, maxCache := 2 }
  let (s1, _, _) := start cfg [] {} { cookie := none, create := true }
  let (s2, _) := wait s1 12
  let (s3, r3, e3) := start cfg [] s2 { cookie := some 0 }
  let (s4, e4) := wait s3 5
  (repr r3, repr e3, repr e4, repr (s4.store.map (fun (p : Nat × Sess) => p.1)), repr (s4.cache))
