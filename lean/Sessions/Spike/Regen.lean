import Sessions.Spike.Inv
namespace Ss

/-- insert into the cache and write through. -/
def putBoth (s1 : State) (k h : Nat) : State :=
  { s1 with cache := insert k h s1.cache, store := insert k (s1.obj h) s1.store }
def touchNow (s : State) (h : Nat) : State := s.setObj h { s.obj h with lastAccess := s.now }
def csReq (s0 : State) (k : Nat) : Int := if (lookup k s0.cache).isSome then 0 else 1

/-- state component of cache.Set with the cache enabled, as a composition of named steps. -/
def cacheSetState (cfg : Cfg) (picks : List Nat) (s : State) (h : Nat) : State :=
  putBoth (compact cfg (csReq (touchNow s h) (s.obj h).id) picks (touchNow s h)).1 (s.obj h).id h

theorem cacheSet_state (cfg : Cfg) (picks : List Nat) (s : State) (h : Nat) (hc : cfg.maxCache ≠ 0) :
    (cacheSet cfg picks s h).1 = cacheSetState cfg picks s h := by
  have hb : (cfg.maxCache != 0) = true := by simp [hc]
  unfold cacheSet
  simp only [hb, if_true]
  rfl

theorem putBoth_inv (x : Option Nat) (s1 : State) (k h : Nat) (hv : h < s1.heap.length) (hk : (s1.obj h).id = k)
    (hi1 : InvX x s1) : InvX (if x = some k then none else x) (putBoth s1 k h) := by
  have hxk : ∀ id', id' ≠ k → some id' ≠ (if x = some k then none else x) → some id' ≠ x := by
    intro id' hne hx hxe
    apply hx
    rw [← hxe]
    have : ¬ id' = k := hne
    simp [this]
  constructor
  · intro id' h' hm
    simp only [putBoth, insert, List.mem_cons, Prod.mk.injEq] at hm
    show h' < s1.heap.length
    rcases hm with ⟨_, rfl⟩ | hm
    · exact hv
    · exact hi1.valid id' h' (mem_erase hm).1
  · intro id' h' hm hx
    simp only [putBoth, insert, List.mem_cons, Prod.mk.injEq] at hm
    show (s1.obj h').id = id'
    rcases hm with ⟨rfl, rfl⟩ | hm
    · exact hk
    · obtain ⟨hm', hne⟩ := mem_erase hm
      exact hi1.wf id' h' hm' (hxk id' hne hx)
  · intro id' h' hm hx
    simp only [putBoth, insert, List.mem_cons, Prod.mk.injEq] at hm
    show ∃ rec, lookup id' (insert k (s1.obj h) s1.store) = some rec ∧ ess rec = ess (s1.obj h')
    rcases hm with ⟨rfl, rfl⟩ | hm
    · exact ⟨s1.obj h', lookup_insert_self _ _ _, rfl⟩
    · obtain ⟨hm', hne⟩ := mem_erase hm
      obtain ⟨rec, hl, he⟩ := hi1.coh id' h' hm' (hxk id' hne hx)
      exact ⟨rec, by rw [lookup_insert_ne _ _ hne]; exact hl, he⟩
  · intro id' h1 h2 hm1 hm2
    simp only [putBoth, insert, List.mem_cons, Prod.mk.injEq] at hm1 hm2
    rcases hm1 with ⟨rfl, rfl⟩ | hm1 <;> rcases hm2 with ⟨hk2, rfl⟩ | hm2
    · rfl
    · exact absurd rfl (mem_erase hm2).2
    · exact absurd hk2 (mem_erase hm1).2
    · exact hi1.uniq id' h1 h2 (mem_erase hm1).1 (mem_erase hm2).1

theorem touchNow_inv (x : Option Nat) (s : State) (h : Nat) (hi : InvX x s) : InvX x (touchNow s h) :=
  inv_touch x s h _ rfl rfl hi
theorem touchNow_len (s : State) (h : Nat) : (touchNow s h).heap.length = s.heap.length := by
  simp [touchNow, State.setObj]
theorem touchNow_obj_id (s : State) (h : Nat) (hv : h < s.heap.length) : ((touchNow s h).obj h).id = (s.obj h).id := by
  unfold touchNow; rw [obj_setObj_self s h _ hv]

theorem cacheSet_inv (x : Option Nat) (cfg : Cfg) (picks : List Nat) (s : State) (h : Nat) (hc : cfg.maxCache ≠ 0)
    (hv : h < s.heap.length) (hi : InvX x s) :
    InvX (if x = some (s.obj h).id then none else x) (cacheSet cfg picks s h).1 := by
  rw [cacheSet_state cfg picks s h hc]
  unfold cacheSetState
  have hi0 := touchNow_inv x s h hi
  have hi1 := compact_inv x cfg (csReq (touchNow s h) (s.obj h).id) picks (touchNow s h) hi0
  have hheap := compact_heap cfg (csReq (touchNow s h) (s.obj h).id) picks (touchNow s h)
  apply putBoth_inv x _ _ h
  · rw [hheap, touchNow_len]; exact hv
  · rw [obj_of_heap_eq hheap]; exact touchNow_obj_id s h hv
  · exact hi1

end Ss

namespace Ss

/-- overwriting object `h` arbitrarily breaks the invariant only at the keys that point to `h`. -/
theorem inv_setObj_except (s : State) (h k : Nat) (o' : Sess) (hi : InvX none s)
    (honly : ∀ id', (id', h) ∈ s.cache → id' = k) : InvX (some k) (s.setObj h o') := by
  constructor
  · intro id' h' hm; simpa [State.setObj] using hi.valid id' h' hm
  · intro id' h' hm hx
    have hne : h' ≠ h := by
      intro hh; subst hh; exact hx (by rw [honly id' hm])
    rw [obj_setObj_ne s h h' o' hne]; exact hi.wf id' h' hm (by simp)
  · intro id' h' hm hx
    have hne : h' ≠ h := by
      intro hh; subst hh; exact hx (by rw [honly id' hm])
    rw [obj_setObj_ne s h h' o' hne]; exact hi.coh id' h' hm (by simp)
  · intro id' h1 h2 hm1 hm2; exact hi.uniq id' h1 h2 hm1 hm2

theorem inv_nextId (x : Option Nat) (s : State) (n : Nat) (hi : InvX x s) : InvX x { s with nextId := n } :=
  ⟨hi.valid, hi.wf, hi.coh, hi.uniq⟩
theorem inv_timers (x : Option Nat) (s : State) (t : List (Int × Nat)) (hi : InvX x s) : InvX x { s with timers := t } :=
  ⟨hi.valid, hi.wf, hi.coh, hi.uniq⟩

theorem inv_alloc (x : Option Nat) (s : State) (o : Sess) (hi : InvX x s) : InvX x (s.alloc o).2 := by
  constructor
  · intro id' h' hm
    have := hi.valid id' h' hm
    simp [State.alloc]; omega
  · intro id' h' hm hx
    rw [obj_alloc_old s o h' (hi.valid id' h' hm)]; exact hi.wf id' h' hm hx
  · intro id' h' hm hx
    rw [obj_alloc_old s o h' (hi.valid id' h' hm)]; exact hi.coh id' h' hm hx
  · intro id' h1 h2 hm1 hm2; exact hi.uniq id' h1 h2 hm1 hm2

/-- state component of RegenerateID as a composition of named steps (cache enabled). -/
def regenS0 (s : State) (h : Nat) : State :=
  { s.setObj h { s.obj h with id := s.nextId, created := s.now } with nextId := s.nextId + 1 }
def refObj (s1 : State) (h oldID newID : Nat) : Sess :=
  { id := oldID, created := (s1.obj h).created, lastAccess := s1.now, ip := (s1.obj h).ip, ua := (s1.obj h).ua,
    ref := some newID, data := none }

theorem regenerate_state (cfg : Cfg) (picks : List Nat) (s : State) (h : Nat) :
    (regenerate cfg picks s h).1 =
      let s1 := (cacheSet cfg picks (regenS0 s h) h).1
      let a := s1.alloc (refObj s1 h (s.obj h).id s.nextId)
      let s3 := (cacheSet cfg picks a.2 a.1).1
      { s3 with timers := (s3.now + cfg.grace, (s.obj h).id) :: s3.timers } := rfl

/-- RegenerateID re-establishes the full invariant although it breaks it at the old key in the middle. -/
theorem regenerate_inv (cfg : Cfg) (picks : List Nat) (s : State) (h : Nat) (hc : cfg.maxCache ≠ 0)
    (hv : h < s.heap.length) (hfresh : (s.obj h).id < s.nextId) (hi : InvX none s) :
    InvX none (regenerate cfg picks s h).1 := by
  rw [regenerate_state]
  simp only []
  -- step A: the object gets its new id; only the old key may now be wrong
  have honly : ∀ id', (id', h) ∈ s.cache → id' = (s.obj h).id := fun id' hm => (hi.wf id' h hm (by simp)).symm
  have hA : InvX (some (s.obj h).id) (regenS0 s h) :=
    inv_nextId _ _ _ (inv_setObj_except s h _ _ hi honly)
  have hvA : h < (regenS0 s h).heap.length := by simp [regenS0, State.setObj]; exact hv
  have hidA : ((regenS0 s h).obj h).id = s.nextId := by
    have : (regenS0 s h).obj h = (s.setObj h { s.obj h with id := s.nextId, created := s.now }).obj h := rfl
    rw [this, obj_setObj_self s h _ hv]
  -- step B: first cache.Set (under the new id) keeps the exception at the old key
  have hB := cacheSet_inv (some (s.obj h).id) cfg picks (regenS0 s h) h hc hvA hA
  rw [hidA] at hB
  have hneq : ¬ (some (s.obj h).id = some s.nextId) := by simp; omega
  simp only [hneq, if_false] at hB
  generalize (cacheSet cfg picks (regenS0 s h) h).1 = s1 at *
  -- step C: allocate the reference object
  have hC := inv_alloc (some (s.obj h).id) s1 (refObj s1 h (s.obj h).id s.nextId) hB
  have hnew := obj_alloc_new s1 (refObj s1 h (s.obj h).id s.nextId)
  have hvC : (s1.alloc (refObj s1 h (s.obj h).id s.nextId)).1 < (s1.alloc (refObj s1 h (s.obj h).id s.nextId)).2.heap.length := by
    simp [State.alloc]
  -- step D: second cache.Set (under the old id) removes the exception
  have hD := cacheSet_inv (some (s.obj h).id) cfg picks _ _ hc hvC hC
  rw [hnew] at hD
  have : (refObj s1 h (s.obj h).id s.nextId).id = (s.obj h).id := rfl
  simp only [this, if_true] at hD
  exact inv_timers _ _ _ hD

end Ss
