/-! Spike: request-granularity model of session.go + cache.go (unchanged-tree semantics, gob-like codec). -/
namespace Ss

def maxI64 : Int := 9223372036854775807
/-- Go's wrapping int64 addition (only used for SessionIDExpiry+SessionIDGracePeriod). -/
def wrapAdd64 (a b : Int) : Int :=
  let s := a + b
  if s > maxI64 then s - 18446744073709551616 else if s < -maxI64 - 1 then s + 18446744073709551616 else s
/-- time.Since: saturating. -/
def since (now t : Int) : Int := min (now - t) maxI64

structure Cfg where
  sessionExpiry : Int := maxI64
  idExpiry : Int := 3600
  grace : Int := 300
  cacheExpiry : Int := 3600
  acceptIP : Nat := 1
  acceptUA : Bool := false
  maxCache : Int := 1048576
deriving Repr

structure Sess where
  id : Nat
  user : Option Nat := none
  created : Int
  lastAccess : Int
  ip : List Nat := []          -- octets ([] = unparsable / IPv6)
  ua : Nat := 0
  ref : Option Nat := none
  data : Option (List (Nat × Nat)) := some []
deriving Repr, DecidableEq

inductive Ev where
  | load (id : Nat) (found : Bool)
  | save (id : Nat) (rec : Sess)
  | del (id : Nat)
  | setCookie (id : Nat)
  | delCookie
deriving Repr, DecidableEq

structure State where
  now : Int := 0
  heap : List Sess := []
  cache : List (Nat × Nat) := []        -- id ↦ handle
  store : List (Nat × Sess) := []
  timers : List (Int × Nat) := []
  nextId : Nat := 0
deriving Repr

/-! ### association lists -/
def lookup {β} (k : Nat) : List (Nat × β) → Option β
  | [] => none
  | (k', v) :: r => if k' = k then some v else lookup k r
def erase {β} (k : Nat) : List (Nat × β) → List (Nat × β)
  | [] => []
  | (k', v) :: r => if k' = k then erase k r else (k', v) :: erase k r
def insert {β} (k : Nat) (v : β) (m : List (Nat × β)) : List (Nat × β) := (k, v) :: erase k m

def State.obj (s : State) (h : Nat) : Sess := s.heap.getD h { id := 0, created := 0, lastAccess := 0 }
def State.setObj (s : State) (h : Nat) (o : Sess) : State := { s with heap := s.heap.set h o }
def State.alloc (s : State) (o : Sess) : Nat × State := (s.heap.length, { s with heap := s.heap ++ [o] })

/-! ### persistence (honest store, identity codec) -/
def saveRec (s : State) (id : Nat) (o : Sess) : State × List Ev :=
  ({ s with store := insert id o s.store }, [.save id o])
def delRec (s : State) (id : Nat) : State × List Ev :=
  ({ s with store := erase id s.store }, [.del id])

/-! ### cache.compact -/
/-- idle sweep over the cache entries (in list order; order of flushes is canonicalised by the harness). -/
def sweep (cfg : Cfg) (s : State) : List (Nat × Nat) → State × List Ev
  | [] => (s, [])
  | (id, h) :: rest =>
    if since s.now (s.obj h).lastAccess > cfg.cacheExpiry then
      let (s1, e1) := saveRec s id (s.obj h)
      let s2 := { s1 with cache := erase id s1.cache }
      let (s3, e3) := sweep cfg s2 rest
      (s3, e1 ++ e3)
    else sweep cfg s rest

def minLA (s : State) : List (Nat × Nat) → Option Int
  | [] => none
  | (_, h) :: r => match minLA s r with
    | none => some (s.obj h).lastAccess
    | some m => some (min (s.obj h).lastAccess m)

/-- the victim: `pick` if it is a cached id with minimal lastAccess, else the first minimal entry. -/
def firstMin (s : State) (m : Int) : List (Nat × Nat) → Option (Nat × Nat)
  | [] => none
  | (id, h) :: r => if (s.obj h).lastAccess = m then some (id, h) else firstMin s m r
def victim (s : State) (pick : Nat) : Option (Nat × Nat) :=
  match minLA s s.cache with
  | none => none
  | some m =>
    match lookup pick s.cache with
    | some h => if (s.obj h).lastAccess = m then some (pick, h) else firstMin s m s.cache
    | none => firstMin s m s.cache

def evictLoop (cfg : Cfg) (req : Int) (picks : List Nat) : Nat → State → State × List Ev
  | 0, s => (s, [])
  | fuel+1, s =>
    if (s.cache.length : Int) + req > cfg.maxCache then
      match victim s (picks.headD 0) with
      | none => (s, [])
      | some (id, h) =>
        let (s1, e1) := saveRec s id (s.obj h)
        let s2 := { s1 with cache := erase id s1.cache }
        let (s3, e3) := evictLoop cfg req picks.tail fuel s2
        (s3, e1 ++ e3)
    else (s, [])

def compact (cfg : Cfg) (req : Int) (picks : List Nat) (s : State) : State × List Ev :=
  let (s1, e1) := sweep cfg s s.cache
  if cfg.maxCache < 0 || (s1.cache.length : Int) + req ≤ cfg.maxCache then (s1, e1)
  else
    let req' := if req > cfg.maxCache then cfg.maxCache else req
    let (s2, e2) := evictLoop cfg req' picks s1.cache.length s1
    (s2, e1 ++ e2)

/-! ### cache.Get / Set / Delete -/
def cacheGet (cfg : Cfg) (picks : List Nat) (s : State) (id : Nat) : State × Option Nat × List Ev :=
  match lookup id s.cache with
  | some h => (s, some h, [])
  | none =>
    match lookup id s.store with
    | none => (s, none, [.load id false])
    | some rec =>
      let (h, s1) := s.alloc { rec with id := id }
      if cfg.maxCache != 0 then
        let (s2, e2) := compact cfg 1 picks s1
        ({ s2 with cache := insert id h s2.cache }, some h, .load id true :: e2)
      else (s1, some h, [.load id true])

def cacheSet (cfg : Cfg) (picks : List Nat) (s : State) (h : Nat) : State × List Ev :=
  let o := { s.obj h with lastAccess := s.now }
  let s0 := s.setObj h o
  let req : Int := if (lookup o.id s0.cache).isSome then 0 else 1
  let (s1, e1) := compact cfg req picks s0
  let s2 := if cfg.maxCache != 0 then { s1 with cache := insert o.id h s1.cache } else s1
  let (s3, e3) := saveRec s2 o.id (s2.obj h)
  (s3, e1 ++ e3)

def cacheDelete (s : State) (id : Nat) : State × List Ev :=
  delRec { s with cache := erase id s.cache } id

/-! ### RegenerateID -/
def regenerate (cfg : Cfg) (picks : List Nat) (s : State) (h : Nat) : State × List Ev :=
  let o := s.obj h
  let oldID := o.id
  let newID := s.nextId
  let s0 := { s.setObj h { o with id := newID, created := s.now } with nextId := s.nextId + 1 }
  let (s1, e1) := cacheSet cfg picks s0 h
  let o1 := s1.obj h
  let (hr, s2) := s1.alloc { id := oldID, created := o1.created, lastAccess := s1.now, ip := o1.ip, ua := o1.ua,
                             ref := some newID, data := none }
  let (s3, e3) := cacheSet cfg picks s2 hr
  ({ s3 with timers := (s3.now + cfg.grace, oldID) :: s3.timers }, e1 ++ e3 ++ [.setCookie newID])

/-! ### Start -/
structure Req where
  cookie : Option Nat          -- a 24-byte cookie value (other lengths: none)
  ip : List Nat := [10,0,0,1]
  ua : Nat := 7
  create : Bool := false
deriving Repr

inductive Res where
  | none | sess (h : Nat) (isNew : Bool) | err (what : String)
deriving Repr, DecidableEq

def ipOK (cfg : Cfg) (prev cur : List Nat) : Bool :=
  if cfg.acceptIP > 1 && prev.length == 4 && cur.length == 4 && cfg.acceptIP ≤ 4 then
    (prev.take (cfg.acceptIP - 1)) == (cur.take (cfg.acceptIP - 1))
  else true

def destroy (s : State) (h : Nat) : State × List Ev :=
  let (s1, e1) := cacheDelete s (s.obj h).id
  (s1, e1 ++ [.delCookie])

def createNew (cfg : Cfg) (picks : List Nat) (s : State) (r : Req) (pre : List Ev) : State × Res × List Ev :=
  if !r.create then (s, .none, pre) else
  let id := s.nextId
  let (h, s1) := { s with nextId := s.nextId + 1 }.alloc
    { id := id, created := s.now, lastAccess := s.now, ip := r.ip, ua := r.ua }
  let (s2, e2) := cacheSet cfg picks s1 h
  (s2, .sess h true, pre ++ e2 ++ [.setCookie id])

def touch (s : State) (h : Nat) (r : Req) : State :=
  s.setObj h { s.obj h with lastAccess := s.now, ip := r.ip, ua := r.ua }

def start (cfg : Cfg) (picks : List Nat) (s : State) (r : Req) : State × Res × List Ev :=
  match r.cookie with
  | none => createNew cfg picks s r []
  | some id =>
    let (s1, oh, e1) := cacheGet cfg picks s id
    match oh with
    | none => createNew cfg picks s1 r (e1 ++ [.delCookie])
    | some h =>
      let o := s1.obj h
      let stale := since s1.now o.lastAccess ≥ cfg.sessionExpiry
      let valid := !stale && ipOK cfg o.ip r.ip && (cfg.acceptUA || o.ua == 0 || o.ua == r.ua)
      if !valid then
        let (s2, e2) := destroy s1 h
        createNew cfg picks s2 r (e1 ++ e2)
      else
        let age := since s1.now o.created
        if o.ref.isNone && age ≥ cfg.idExpiry then
          let (s2, e2) := regenerate cfg picks s1 h
          (touch s2 h r, .sess h false, e1 ++ e2)
        else if age ≥ wrapAdd64 cfg.idExpiry cfg.grace then
          let (s2, e2) := cacheDelete s1 id
          (s2, .err "Session expired", e1 ++ e2)
        else
          match o.ref with
          | some tgt =>
            let (s2, oh2, e2) := cacheGet cfg picks s1 tgt
            match oh2 with
            | none => (s2, .err "Reference session not found", e1 ++ [.setCookie tgt] ++ e2)
            | some h2 => (touch s2 h2 r, .sess h2 false, e1 ++ [.setCookie tgt] ++ e2)
          | none => (touch s1 h r, .sess h false, e1)

/-- quiescence: fire every timer whose deadline has passed. -/
def fire (s : State) : State × List Ev :=
  let due := s.timers.filter (fun t => t.1 ≤ s.now)
  let s0 := { s with timers := s.timers.filter (fun t => ¬ t.1 ≤ s.now) }
  due.foldl (fun (acc : State × List Ev) t => let (s', e) := cacheDelete acc.1 t.2; (s', acc.2 ++ e)) (s0, [])

def wait (s : State) (d : Int) : State × List Ev := fire { s with now := s.now + d }

/-- handler op: Set(key, value) -/
def hset (s : State) (h : Nat) (k v : Nat) : State × List Ev :=
  match (s.obj h).data with
  | none => (s, [])     -- real code panics: nil map (only reachable through F2)
  | some d =>
    let s1 := s.setObj h { s.obj h with data := some (insert k v d) }
    saveRec s1 (s1.obj h).id (s1.obj h)

end Ss
