import Sessions.FactsPinsBase
/-! Source pin: see FactsPinsBase.lean. -/
namespace FactsPins

/-- `Sx.cacheDelete` (cache entry and stored record removed in one step under the cache lock) was transcribed from exactly this text -/
theorem cache_delete_source_matches_model : pinned ["cache.Delete"] = true := by decide

end FactsPins
