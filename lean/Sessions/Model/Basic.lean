/-!
# Model of rivo/sessions — basic types

Request-granularity model of `session.go` + `cache.go` (see /verif/DESIGN.md §4).
Core Lean only: this file is compiled into the driver executable.

* `ID`: a session id is either the n-th value minted by `generateSessionID`
  (`gen n`) or any other string a client may present (`lit s`). Freshness of
  minted ids (the CSPRNG assumption) is thereby structural.
* Objects on the Go heap are `Sess` values in `State.heap`, addressed by handle
  (index); the cache maps ids to handles, so pointer identity is expressible.
* The store keeps `Rec`s: what a codec keeps of a session.
-/
namespace Sx

inductive ID where
  | gen (n : Nat)
  | lit (s : String)
deriving DecidableEq, Repr, Inhabited

inductive Val where
  | str (s : String)
  | int (n : Int)
  | flt (n : Int)      -- a float64 holding an integral value (what JSON turns an int into)
  | bool (b : Bool)
  | null
deriving DecidableEq, Repr, Inhabited

inductive Codec where
  | gob | json
deriving DecidableEq, Repr, Inhabited

/-- `math.MaxInt64`. -/
def maxI64 : Int := 9223372036854775807

/-- The package variables of `config.go` (durations in ns). -/
structure Cfg where
  sessionExpiry : Int := maxI64
  idExpiry : Int := 3600000000000
  grace : Int := 300000000000
  cacheExpiry : Int := 3600000000000
  acceptIP : Int := 1
  acceptUA : Bool := false
  maxCache : Int := 1048576
  codec : Codec := .gob
deriving Repr, Inhabited

abbrev Data := List (String × Val)

/-- A `*Session` object. `user` is (user id, version of the user object). -/
structure Sess where
  id : ID
  user : Option (String × Nat) := none
  created : Int
  lastAccess : Int
  ip : String := ""
  ua : Nat := 0
  ref : Option ID := none
  data : Option Data := some []      -- `none` = nil map
deriving DecidableEq, Repr, Inhabited

/-- What a stored record says (the decoded view of the bytes). -/
structure Rec where
  user : Option String := none
  created : Int
  lastAccess : Int
  ip : String := ""
  ua : Nat := 0
  ref : Option ID := none
  data : Option Data := some []
deriving DecidableEq, Repr, Inhabited

inductive Ev where
  | load (id : ID) (found : Bool)     -- LoadSession returned (found / nil)
  | loadFail (id : ID)                -- LoadSession failed (injected)
  | loadErr (id : ID)                 -- decoding failed after the bytes were found
  | save (id : ID) (r : Rec)
  | saveFail (id : ID)
  | del (id : ID)
  | delFail (id : ID)
  | users (uid : String)
  | usersFail (uid : String)
  | user (uid : String)
  | userFail (uid : String)
  | setCookie (id : ID)               -- a live cookie built from the template
  | delCookie                         -- the deletion cookie
  | bg (t : Int) (id : ID)            -- the clean-up goroutine deleted `id` at time `t`
deriving DecidableEq, Repr, Inhabited

structure State where
  now : Int := 0
  heap : List Sess := []
  cache : List (ID × Nat) := []          -- id ↦ handle
  store : List (ID × Rec) := []
  timers : List (Int × ID) := []         -- pending `go func(){ Sleep(grace); Delete(old) }`
  nextId : Nat := 0
  vers : List (String × Nat) := []       -- user table: version of the user object LoadUser returns
  extra : List (String × ID) := []       -- ids UserSessions lists although no record says so
  fails : List Bool := []                -- fault oracle: one entry per persistence call, `true` = fails
  picks : List ID := []                  -- order oracle: the ids of the SaveSession calls still to come in this operation
deriving Repr, Inhabited

/-! ### association lists (no-duplicates is a separately proved invariant) -/
section
variable {κ : Type} [DecidableEq κ] {β : Type}

def lookup (k : κ) : List (κ × β) → Option β
  | [] => none
  | (k', v) :: r => if k' = k then some v else lookup k r

def erase (k : κ) : List (κ × β) → List (κ × β)
  | [] => []
  | (k', v) :: r => if k' = k then erase k r else (k', v) :: erase k r

def insert (k : κ) (v : β) (m : List (κ × β)) : List (κ × β) := (k, v) :: erase k m
end

def State.obj (s : State) (h : Nat) : Sess := s.heap.getD h { id := .lit "", created := 0, lastAccess := 0 }
def State.setObj (s : State) (h : Nat) (o : Sess) : State := { s with heap := s.heap.set h o }
def State.alloc (s : State) (o : Sess) : Nat × State := (s.heap.length, { s with heap := s.heap ++ [o] })

def State.ver (s : State) (uid : String) : Nat := (lookup uid s.vers).getD 0

/-- `time.Since` (instants in one run are far closer than the 292 years at which `Sub` saturates). -/
def since (now t : Int) : Int := now - t

end Sx
