import Sessions.Model.Codec
/-!
# The persistence calls and `cache.go`

Every persistence call consumes one entry of the fault oracle `State.fails` (`true` = the call
fails; an exhausted oracle never fails). `State.picks` is the order oracle: the ids of the
`SaveSession` calls the implementation went on to make in this operation; every save consumes one
entry. Where Go iterates over a map (idle sweep, ties between equally old sessions,
`PurgeSessions`) the model follows that order; theorems quantify over every oracle.
-/
namespace Sx

def popFail (s : State) : Bool × State := (s.fails.headD false, { s with fails := s.fails.tail })

def popPick (s : State) : State := { s with picks := s.picks.tail }

/-- the store after a successful `SaveSession(id, o)`. -/
def storePut (cfg : Cfg) (s : State) (id : ID) (o : Sess) : State :=
  { s with store := insert id (enc cfg.codec o) s.store }

/-- `Persistence.SaveSession(id, o)`; the Boolean says whether it succeeded. -/
def saveRec (cfg : Cfg) (s : State) (id : ID) (o : Sess) : State × Bool × List Ev :=
  let (f, s0) := popFail (popPick s)
  if f then (s0, false, [.saveFail id])
  else (storePut cfg s0 id o, true, [.save id (enc cfg.codec o)])

/-- `Persistence.DeleteSession(id)`. -/
def delRec (s : State) (id : ID) : State × Bool × List Ev :=
  let (f, s0) := popFail s
  if f then (s0, false, [.delFail id])
  else ({ s0 with store := erase id s0.store }, true, [.del id])

inductive LoadRes where
  | fail
  | nil
  | found (o : Sess)
deriving Repr

/-- `Persistence.LoadSession(id)` including the implicit `LoadUser` of the decoders. -/
def loadRec (s : State) (id : ID) : State × LoadRes × List Ev :=
  let (f, s0) := popFail s
  if f then (s0, .fail, [.loadFail id])
  else
    match lookup id s0.store with
    | none => (s0, .nil, [.load id false])
    | some r =>
      match r.user with
      | none => (s0, .found (dec s0.ver id r), [.load id true])
      | some uid =>
        let (f2, s1) := popFail s0
        if f2 then (s1, .fail, [.load id true, .userFail uid, .loadErr id])
        else (s1, .found (dec s1.ver id r), [.load id true, .user uid])

/-! ### cache.compact -/

/-- entries whose id occurs in `picks` first (in that order), then the others. -/
def orderBy (picks : List ID) (l : List (ID × Nat)) : List (ID × Nat) :=
  (picks.filterMap (fun p => l.find? (fun e => e.1 = p))).eraseDups ++ l.filter (fun e => !picks.contains e.1)

/-- The idle sweep over the given entries. The Boolean is false when a save failed, which makes
`compact` return at once. -/
def sweep (cfg : Cfg) (s : State) : List (ID × Nat) → State × Bool × List Ev
  | [] => (s, true, [])
  | (id, h) :: rest =>
    if since s.now (s.obj h).lastAccess > cfg.cacheExpiry then
      let (s1, ok, e1) := saveRec cfg s id (s.obj h)
      if ok then
        let s2 := { s1 with cache := erase id s1.cache }
        let (s3, ok3, e3) := sweep cfg s2 rest
        (s3, ok3, e1 ++ e3)
      else (s1, false, e1)
    else sweep cfg s rest

def minLA (s : State) : List (ID × Nat) → Option Int
  | [] => none
  | (_, h) :: r =>
    match minLA s r with
    | none => some (s.obj h).lastAccess
    | some m => some (min (s.obj h).lastAccess m)

def firstMin (s : State) (m : Int) : List (ID × Nat) → Option (ID × Nat)
  | [] => none
  | (id, h) :: r => if (s.obj h).lastAccess = m then some (id, h) else firstMin s m r

/-- The eviction victim: an entry with minimal `lastAccess`; among several, the first in the order
oracle. -/
def victim (s : State) : Option (ID × Nat) :=
  match minLA s s.cache with
  | none => none
  | some m => firstMin s m (orderBy (s.picks.take 1) s.cache)

def evictLoop (cfg : Cfg) (req : Int) : Nat → State → State × List Ev
  | 0, s => (s, [])
  | fuel+1, s =>
    if (s.cache.length : Int) + req > cfg.maxCache then
      match victim s with
      | none => (s, [])
      | some (id, h) =>
        let (s1, ok, e1) := saveRec cfg s id (s.obj h)
        if ok then
          let s2 := { s1 with cache := erase id s1.cache }
          let (s3, e3) := evictLoop cfg req fuel s2
          (s3, e1 ++ e3)
        else (s1, e1)
    else (s, [])

/-- `c.compact(req)`; its error result is ignored by both callers. -/
def compact (cfg : Cfg) (req : Int) (s : State) : State × List Ev :=
  let (s1, ok, e1) := sweep cfg s (orderBy s.picks s.cache)
  if !ok then (s1, e1)
  else if cfg.maxCache < 0 || (s1.cache.length : Int) + req ≤ cfg.maxCache then (s1, e1)
  else
    let req' := if req > cfg.maxCache then cfg.maxCache else req
    let (s2, e2) := evictLoop cfg req' s1.cache.length s1
    (s2, e1 ++ e2)

/-! ### cache.Get / Set / Delete, PurgeSessions -/

inductive GetRes where
  | err
  | nil
  | some (h : Nat)
deriving Repr, DecidableEq

def cacheGet (cfg : Cfg) (s : State) (id : ID) : State × GetRes × List Ev :=
  match lookup id s.cache with
  | some h => (s, .some h, [])
  | none =>
    match loadRec s id with
    | (s0, .fail, e0) => (s0, .err, e0)
    | (s0, .nil, e0) => (s0, .nil, e0)
    | (s0, .found o, e0) =>
      let (h, s1) := s0.alloc o
      if cfg.maxCache != 0 then
        let (s2, e2) := compact cfg 1 s1
        ({ s2 with cache := insert id h s2.cache }, .some h, e0 ++ e2)
      else (s1, .some h, e0)

/-- `sessions.Set(obj h)`; the Boolean says whether the write-through save succeeded. -/
def cacheSet (cfg : Cfg) (s : State) (h : Nat) : State × Bool × List Ev :=
  let o := { s.obj h with lastAccess := s.now }
  let s0 := s.setObj h o
  let req : Int := if (lookup o.id s0.cache).isSome then 0 else 1
  let (s1, e1) := compact cfg req s0
  let s2 := if cfg.maxCache != 0 then { s1 with cache := insert o.id h s1.cache } else s1
  let (s3, ok, e3) := saveRec cfg s2 o.id (s2.obj h)
  (s3, ok, e1 ++ e3)

def cacheDelete (s : State) (id : ID) : State × Bool × List Ev :=
  delRec { s with cache := erase id s.cache } id

/-- the flushes of `PurgeSessions` (errors ignored). -/
def purgeList (cfg : Cfg) (s : State) : List (ID × Nat) → State × List Ev
  | [] => (s, [])
  | (id, h) :: rest =>
    let (s1, _, e1) := saveRec cfg s id (s.obj h)
    let (s2, e2) := purgeList cfg s1 rest
    (s2, e1 ++ e2)

def purge (cfg : Cfg) (s : State) : State × List Ev :=
  let (s1, e1) := purgeList cfg s (orderBy s.picks s.cache)
  ({ s1 with cache := [] }, e1)

end Sx
