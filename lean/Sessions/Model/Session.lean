import Sessions.Model.Cache
/-!
# `session.go`: Start, RegenerateID, Destroy, LogIn/LogOut/RefreshUser, key/value ops, Expired

Each function follows the Go control flow (as repaired by the `fix:` commits recorded in
/verif/known_findings.json) and returns the new state, a result and the events in call order.
-/
namespace Sx

/-- An incoming request: the value `request.Cookie(SessionCookie)` yields (if any), the peer
address, the User-Agent header and `createIfNew`. -/
structure Req where
  cookie : Option ID := none
  cookieLen : Nat := 0          -- byte length of the presented value
  ip : String := ""
  ua : String := ""
  create : Bool := false
deriving Repr, Inhabited

inductive Res where
  | nil                          -- (nil, nil)
  | sess (h : Nat)               -- (session, nil)
  | err (what : String)          -- (nil, error)
deriving Repr, DecidableEq, Inhabited

/-! ### RegenerateID -/

/-- The reference record left under the old id. -/
def refObj (o : Sess) (oldID newID : ID) (now : Int) : Sess :=
  { id := oldID, created := o.created, lastAccess := now, ip := o.ip, ua := o.ua, ref := some newID, data := none }

/-- `s.RegenerateID(response)`. The Boolean is false when one of the two saves failed. -/
def regenerate (cfg : Cfg) (s : State) (h : Nat) : State × Bool × List Ev :=
  let o := s.obj h
  let oldID := o.id
  let newID := ID.gen s.nextId
  let s0 := { s.setObj h { o with id := newID, created := s.now } with nextId := s.nextId + 1 }
  let (s1, ok1, e1) := cacheSet cfg s0 h
  if !ok1 then (s1, false, e1) else
  let (hr, s2) := s1.alloc (refObj (s1.obj h) oldID newID s1.now)
  let (s3, ok3, e3) := cacheSet cfg s2 hr
  if !ok3 then (s3, false, e1 ++ e3) else
  ({ s3 with timers := s3.timers ++ [(s3.now + cfg.grace, oldID)] }, true, e1 ++ e3 ++ [.setCookie newID])

/-! ### Destroy -/

/-- `s.Destroy(response, request)`; `hasCookie`: the request carries the session cookie. -/
def destroy (s : State) (h : Nat) (hasCookie : Bool) : State × Bool × List Ev :=
  let (s1, ok, e1) := cacheDelete s (s.obj h).id
  if !ok then (s1, false, e1)
  else if hasCookie then (s1, true, e1 ++ [.delCookie])
  else (s1, false, e1)

/-! ### Start -/

def touch (s : State) (h : Nat) (r : Req) : State :=
  s.setObj h { s.obj h with lastAccess := s.now, ip := r.ip, ua := agentHash r.ua }

def createNew (cfg : Cfg) (s : State) (r : Req) (pre : List Ev) : State × Res × List Ev :=
  if !r.create then (s, .nil, pre) else
  let id := ID.gen s.nextId
  let (h, s1) := { s with nextId := s.nextId + 1 }.alloc
    { id := id, created := s.now, lastAccess := s.now, ip := r.ip, ua := agentHash r.ua }
  let (s2, ok, e2) := cacheSet cfg s1 h
  if !ok then (s2, .err "create", pre ++ e2)
  else (s2, .sess h, pre ++ e2 ++ [.setCookie id])

/-- The validity test of `Start` on the object found for the presented id. -/
def validFor (cfg : Cfg) (now : Int) (o : Sess) (r : Req) : Bool :=
  !(since now o.lastAccess ≥ cfg.sessionExpiry) && ipOK cfg o.ip r.ip && uaOK cfg o.ua (agentHash r.ua)

/-- Following the reference chain from the object `h` (which is a reference record). -/
def follow (cfg : Cfg) : Nat → State → Nat → State × GetRes × List Ev
  | 0, s, _ => (s, .nil, [])
  | fuel+1, s, h =>
    match (s.obj h).ref with
    | none => (s, .some h, [])
    | some tgt =>
      match cacheGet cfg s tgt with
      | (s1, .err, e1) => (s1, .err, e1)
      | (s1, .nil, e1) => (s1, .nil, e1)
      | (s1, .some h2, e1) =>
        let (s2, r2, e2) := follow cfg fuel s1 h2
        (s2, r2, e1 ++ e2)

/-- everything `Start` does once a valid object `h` was found under the presented id `id`. -/
def startValid (cfg : Cfg) (s1 : State) (id : ID) (h : Nat) (r : Req) (e1 : List Ev) :
    State × Res × List Ev :=
  let o := s1.obj h
  let age := since s1.now o.created
  if o.ref.isNone && age ≥ cfg.idExpiry then
    let (s2, ok, e2) := regenerate cfg s1 h
    if !ok then (s2, .err "regenerate", e1 ++ e2)
    else (touch s2 h r, .sess h, e1 ++ e2)
  else if age ≥ cfg.idExpiry && age - cfg.idExpiry ≥ cfg.grace then
    let (s2, ok, e2) := cacheDelete s1 id
    if !ok then (s2, .err "delexpired", e1 ++ e2)
    else (s2, .err "idexpired", e1 ++ e2)
  else
    match o.ref with
    | some _ =>
      match follow cfg (s1.store.length + s1.cache.length + 1) s1 h with
      | (s2, .err, e2) => (s2, .err "refget", e1 ++ e2)
      | (s2, .nil, e2) => (s2, .err "refmissing", e1 ++ e2)
      | (s2, .some h2, e2) => (touch s2 h2 r, .sess h2, e1 ++ e2 ++ [.setCookie (s2.obj h2).id])
    | none => (touch s1 h r, .sess h, e1)

def start (cfg : Cfg) (s : State) (r : Req) : State × Res × List Ev :=
  match r.cookie with
  | none => createNew cfg s r []
  | some id =>
    if r.cookieLen != 24 then createNew cfg s r [] else
    match cacheGet cfg s id with
    | (s1, .err, e1) => (s1, .err "get", e1)
    | (s1, .nil, e1) => createNew cfg s1 r (e1 ++ [.delCookie])
    | (s1, .some h, e1) =>
      if !validFor cfg s1.now (s1.obj h) r then
        let (s2, ok, e2) := destroy s1 h true
        if !ok then (s2, .err "destroy", e1 ++ e2)
        else createNew cfg s2 r (e1 ++ e2)
      else startValid cfg s1 id h r e1

/-! ### key/value operations -/

inductive HRes where
  | ok | err | val (v : Val) | bool (b : Bool) | time (t : Int) | user (u : Option (String × Nat)) | panic
deriving Repr, DecidableEq, Inhabited

def hres (ok : Bool) : HRes := if ok then .ok else .err

/-- `Persistence.SaveSession(s.id, s)` as called directly by the handler methods. -/
def saveObj (cfg : Cfg) (s : State) (h : Nat) : State × Bool × List Ev := saveRec cfg s (s.obj h).id (s.obj h)

def hset (cfg : Cfg) (s : State) (h : Nat) (k : String) (v : Val) : State × HRes × List Ev :=
  match (s.obj h).data with
  | none => (s, .panic, [])
  | some d =>
    let s1 := s.setObj h { s.obj h with data := some (insert k v d) }
    let (s2, ok, e) := saveObj cfg s1 h
    (s2, hres ok, e)

def hdel (cfg : Cfg) (s : State) (h : Nat) (k : String) : State × HRes × List Ev :=
  let s1 := s.setObj h { s.obj h with data := (s.obj h).data.map (erase k) }
  let (s2, ok, e) := saveObj cfg s1 h
  (s2, hres ok, e)

def hget (s : State) (h : Nat) (k : String) : HRes :=
  .val ((lookup k ((s.obj h).data.getD [])).getD .null)

/-- `GetAndDelete`: deletes and writes through when the key is present. -/
def hgetdel (cfg : Cfg) (s : State) (h : Nat) (k : String) : State × HRes × List Ev :=
  match lookup k ((s.obj h).data.getD []) with
  | none => (s, .val .null, [])
  | some v =>
    let s1 := s.setObj h { s.obj h with data := (s.obj h).data.map (erase k) }
    let (s2, _, e) := saveObj cfg s1 h
    (s2, .val v, e)

/-! ### users -/

/-- `s.LogOut()`. -/
def hlogout (cfg : Cfg) (s : State) (h : Nat) : State × HRes × List Ev :=
  match (s.obj h).user with
  | none => (s, .ok, [])
  | some _ =>
    let s1 := s.setObj h { s.obj h with user := none }
    let (s2, ok, e) := saveObj cfg s1 h
    (s2, hres ok, e)

/-- ids `UserSessions(uid)` lists: every record carrying the user, plus the stale extras, sorted by `le`. -/
def userSessions (le : ID → ID → Bool) (s : State) (uid : String) : List ID :=
  let a := (s.store.filter (fun e => e.2.user = some uid)).map (·.1)
  let b := (s.extra.filter (fun e => e.1 = uid)).map (·.2)
  (a ++ b.filter (fun i => !a.contains i)).eraseDups.mergeSort le

/-- the loop of `LogOut(uid)` / `RefreshUser(user)`: set `u` in every listed session that exists. -/
def setUserAll (cfg : Cfg) (u : Option (String × Nat)) : List ID → State → State × Bool × List Ev
  | [], s => (s, true, [])
  | id :: rest, s =>
    match cacheGet cfg s id with
    | (s1, .err, e1) => (s1, false, e1)
    | (s1, .nil, e1) =>
      let (s2, ok, e2) := setUserAll cfg u rest s1
      (s2, ok, e1 ++ e2)
    | (s1, .some h, e1) =>
      let s2 := s1.setObj h { s1.obj h with user := u }
      let (s3, ok, e3) := cacheSet cfg s2 h
      if !ok then (s3, false, e1 ++ e3)
      else
        let (s4, ok4, e4) := setUserAll cfg u rest s3
        (s4, ok4, e1 ++ e3 ++ e4)

/-- `Persistence.UserSessions(uid)` followed by the loop. -/
def forUser (cfg : Cfg) (le : ID → ID → Bool) (s : State) (uid : String) (u : Option (String × Nat)) :
    State × Bool × List Ev :=
  let (f, s0) := popFail s
  if f then (s0, false, [.usersFail uid])
  else
    let (s1, ok, e1) := setUserAll cfg u (userSessions le s0 uid) s0
    (s1, ok, .users uid :: e1)

/-- `LogOut(userID)`. -/
def logoutUser (cfg : Cfg) (le : ID → ID → Bool) (s : State) (uid : String) : State × Bool × List Ev :=
  forUser cfg le s uid none

/-- `RefreshUser(user)` with a new version of the user object. -/
def refreshUser (cfg : Cfg) (le : ID → ID → Bool) (s : State) (uid : String) : State × Bool × List Ev :=
  let v := s.ver uid + 1
  let s0 := { s with vers := insert uid v s.vers }
  forUser cfg le s0 uid (some (uid, v))

/-- `s.LogIn(user, exclusive, response)`. -/
def hlogin (cfg : Cfg) (le : ID → ID → Bool) (s : State) (h : Nat) (uid : String) (excl : Bool) :
    State × HRes × List Ev :=
  let (s1, ok1, e1) :=
    if excl then logoutUser cfg le s uid
    else
      let (s', _, e') := hlogout cfg s h
      (s', true, e')
  if !ok1 then (s1, .err, e1) else
  let s2 := s1.setObj h { s1.obj h with user := some (uid, s1.ver uid) }
  let (s3, ok3, e3) := cacheSet cfg s2 h
  if !ok3 then (s3, .err, e1 ++ e3) else
  let (s4, ok4, e4) := regenerate cfg s3 h
  (s4, hres ok4, e1 ++ e3 ++ e4)

/-! ### Expired -/

def expired (cfg : Cfg) (now : Int) (o : Sess) : Bool :=
  (o.ref.isSome && since now o.lastAccess ≥ cfg.grace) ||
  (since now o.lastAccess ≥ cfg.sessionExpiry &&
    (since now o.created ≥ cfg.idExpiry && since now o.created - cfg.idExpiry ≥ cfg.grace))

end Sx
