import Sessions.Model.Basic
/-!
# Codecs, user-agent fingerprint, address comparison

* `enc`/`dec`: what `GobEncode`/`GobDecode` and `MarshalJSON`/`UnmarshalJSON` keep of a session
  (gob: exact, a nil data map comes back empty; JSON: instants to the second, integers become
  floats, a nil data map stays nil).
* `fnv1a`: the 64-bit FNV-1a hash `Start` computes of the User-Agent header.
* `matchIP`: the regular expression `^(\d+).(\d+).(\d+).(\d+):\d+$` of `Start`, with its
  unescaped dots, as a leftmost-greedy backtracking matcher.
-/
namespace Sx

/-- RFC 3339 formatting keeps the instant to the second (instants are ns since a whole second). -/
def truncSec (t : Int) : Int := t - t % 1000000000

def convVal : Val → Val
  | .int n => .flt n
  | v => v

def convData (d : Data) : Data := d.map (fun kv => (kv.1, convVal kv.2))

def enc (c : Codec) (o : Sess) : Rec :=
  match c with
  | .gob => { user := o.user.map (·.1), created := o.created, lastAccess := o.lastAccess, ip := o.ip, ua := o.ua,
              ref := o.ref, data := some (o.data.getD []) }
  | .json => { user := o.user.map (·.1), created := truncSec o.created, lastAccess := truncSec o.lastAccess, ip := o.ip,
               ua := o.ua, ref := o.ref, data := o.data.map convData }

/-- Decoding a record found under `id`; `ver` is the user table (LoadUser). -/
def dec (ver : String → Nat) (id : ID) (r : Rec) : Sess :=
  { id := id, user := r.user.map (fun u => (u, ver u)), created := r.created, lastAccess := r.lastAccess, ip := r.ip,
    ua := r.ua, ref := r.ref, data := r.data }

/-! ### FNV-1a, 64 bit -/
def fnvOffset : Nat := 14695981039346656037
def fnvPrime : Nat := 1099511628211
def fnvStep (h : Nat) (b : UInt8) : Nat := ((h ^^^ b.toNat) * fnvPrime) % 18446744073709551616
def fnv1a (bs : List UInt8) : Nat := bs.foldl fnvStep fnvOffset

/-- `agentHash` of `Start`: 0 when the header is missing or empty. -/
def agentHash (ua : String) : Nat := if ua = "" then 0 else fnv1a ua.toUTF8.toList

/-! ### the address pattern -/
inductive Pat where
  | digits | any | colon
deriving DecidableEq, Repr

def isDigit (c : Char) : Bool := '0' ≤ c && c ≤ '9'

def digitPrefix : List Char → Nat
  | [] => 0
  | c :: cs => if isDigit c then digitPrefix cs + 1 else 0

/-- candidate lengths for a greedy `\d+`: the longest first. -/
def greedyLens (n : Nat) : List Nat := (List.range n).reverse.map (· + 1)

/-- Anchored match of the whole input; returns the captured digit groups. -/
def matchPat : List Pat → List Char → Option (List (List Char))
  | [], cs => if cs.isEmpty then some [] else none
  | .any :: ps, cs =>
    match cs with
    | [] => none
    | c :: cs' => if c = '\n' then none else matchPat ps cs'
  | .colon :: ps, cs =>
    match cs with
    | [] => none
    | c :: cs' => if c = ':' then matchPat ps cs' else none
  | .digits :: ps, cs =>
    (greedyLens (digitPrefix cs)).findSome? (fun n => (matchPat ps (cs.drop n)).map (fun caps => cs.take n :: caps))

def ipPattern : List Pat := [.digits, .any, .digits, .any, .digits, .any, .digits, .colon, .digits]

/-- `ipFormat.FindStringSubmatch(addr)`: the four captured groups, when the address matches. -/
def matchIP (addr : String) : Option (List (List Char)) := (matchPat ipPattern addr.toList).map (·.take 4)

/-- The address test of `Start`. -/
def ipOK (cfg : Cfg) (prev cur : String) : Bool :=
  if cfg.acceptIP > 1 then
    match matchIP prev, matchIP cur with
    | some p, some c =>
      if cfg.acceptIP ≤ 4 then p.take (cfg.acceptIP.toNat - 1) == c.take (cfg.acceptIP.toNat - 1) else true
    | _, _ => true
  else true

/-- The fingerprint test of `Start`. -/
def uaOK (cfg : Cfg) (recorded cur : Nat) : Bool := cfg.acceptUA || recorded == 0 || recorded == cur

end Sx
