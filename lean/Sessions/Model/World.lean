import Sessions.Model.Session
/-!
# Histories: clients with cookie jars, time, crashes

`World.step` executes one script operation (the history grammar of /verif/DESIGN.md §4) on the
model and returns what the harness would print for it. Time only moves by `wait` and by the 1 ns
quiescence tick after every API call, during which the clean-up goroutines that are due run.
-/
namespace Sx

/-- What `NewSessionCookie` returns (the template), plus the cookie name. -/
structure CookieCfg where
  name : String := "id"
  domain : String := ""
  path : String := ""
  secure : Bool := false
  httpOnly : Bool := true
  sameSite : Int := 0
  maxAge : Int := 315360000
  expOff : Int := 315360000        -- seconds; 0 = no Expires attribute
deriving Repr, Inhabited, DecidableEq

/-- handler operations on the session `Start` returned -/
inductive HOp where
  | set (k : String) (v : Val) | del (k : String) | get (k : String) | getdel (k : String)
  | login (uid : String) (excl : Bool) | logout | regen | destroy
  | expired | lastaccess | user
deriving Repr, Inhabited

inductive CookieSpec where
  | none | jar | val (id : ID) (len : Nat)
deriving Repr, Inhabited

inductive Op where
  | codec (c : Codec)
  | cfg (name : String) (v : Int)
  | cookiecfg (c : CookieCfg)
  | wait (d : Int)
  | stale (uid : String) (id : ID)
  | crashinside (k : Nat)
  | req (client : String) (cookie : CookieSpec) (ip ua : String) (create : Bool)
  | h (op : HOp)
  | endReq
  | logoutUser (uid : String)
  | refresh (uid : String)
  | purge
  | dropcache
  | expiredRec (id : ID)
  | crash
  | fault                      -- the fault itself arrives through the oracle
deriving Repr, Inhabited

/-- per-operation oracles read from the implementation's transcript -/
structure Orc where
  picks : List ID := []
  fails : List Bool := []
deriving Repr, Inhabited

structure World where
  st : State := {}
  cfg : Cfg := {}
  ck : CookieCfg := {}
  jars : List (String × ID) := []
  -- the request being handled
  inReq : Bool := false
  client : String := ""
  cur : Option Nat := none
  hasCookie : Bool := false
  respCookies : List Ev := []
  skip : Bool := false            -- the process died inside this request
  freezeAt : Option Nat := none   -- `crashinside k` armed for the next API call
  crashed : Bool := false         -- restart pending
deriving Repr, Inhabited

/-- the value an API call returned, rendered by the driver -/
inductive RetV where
  | str (s : String) | val (v : Val) | time (t : Int) | user (u : Option (String × Nat))
deriving Repr, Inhabited, DecidableEq

/-- What one operation shows. -/
structure Out where
  t : Int := 0
  input : Option (Option ID) := none   -- `in` line of a request
  evs : List Ev := []                  -- persistence events of the call
  ret : Option RetV := none
  msg : Option String := none
  sess : Option (Bool × Sess) := none  -- the request's session after the call: (is it the cached object?, fields)
  cookies : List Ev := []
  rng : Option Nat := none
  faulted : Nat := 0                   -- persistence calls of this operation that failed
  frozen : Option (Option Nat) := none -- some (some k): crashinside k happened; some none: "nocrash"
  bg : List Ev := []
  dump : Bool := false
  dumpCache : Bool := true             -- false after a crash point: the dead process's memory is not observable
  jar : Option (String × Option ID) := none
  silent : Bool := false               -- the harness prints nothing for this line
  restart : Bool := false
deriving Repr, Inhabited

/-! ### time -/

def bgDelete (s : State) (id : ID) : State := { s with cache := erase id s.cache, store := erase id s.store }

/-- run every clean-up goroutine whose deadline is at most `target` (in deadline order). -/
def fireDue (s : State) (target : Int) : State × List Ev :=
  let due := (s.timers.filter (fun t => t.1 ≤ target)).mergeSort (fun a b => a.1 ≤ b.1)
  let s0 := { s with timers := s.timers.filter (fun t => ¬ t.1 ≤ target) }
  due.foldl (fun (acc : State × List Ev) t => (bgDelete acc.1 t.2, acc.2 ++ [.bg (max t.1 s.now) t.2])) (s0, [])

def advance (s : State) (d : Int) : State × List Ev :=
  let (s1, e) := fireDue s (s.now + d)
  ({ s1 with now := s.now + d }, e)

/-! ### configuration -/

def setCfg (c : Cfg) (name : String) (v : Int) : Cfg :=
  if name = "sessionExpiry" then { c with sessionExpiry := v }
  else if name = "idExpiry" then { c with idExpiry := v }
  else if name = "grace" then { c with grace := v }
  else if name = "cacheExpiry" then { c with cacheExpiry := v }
  else if name = "acceptIP" then { c with acceptIP := v }
  else if name = "acceptUA" then { c with acceptUA := v != 0 }
  else if name = "maxCache" then { c with maxCache := v }
  else c

/-! ### browser -/

/-- a live cookie built from this template is one the browser drops at once -/
def CookieCfg.dead (c : CookieCfg) : Bool := c.maxAge < 0 || c.expOff < 0

def applyCookie (ck : CookieCfg) (jar : Option ID) : Ev → Option ID
  | .setCookie id => if ck.dead then none else some id
  | .delCookie => none
  | _ => jar

def applyCookies (ck : CookieCfg) (jar : Option ID) (evs : List Ev) : Option ID := evs.foldl (applyCookie ck) jar

def isCookie : Ev → Bool
  | .setCookie _ => true
  | .delCookie => true
  | _ => false

/-! ### what a Set-Cookie header says -/

/-- A Set-Cookie as a browser parses it. `value = none` is the deletion marker `deleted`; `expires` is in whole seconds on the
transcript's clock. -/
structure CookieOut where
  name : String
  value : Option ID
  path : String
  domain : String
  expires : Option Int
  maxAge : Int
  secure : Bool
  httpOnly : Bool
  sameSite : Int
deriving Repr, DecidableEq, Inhabited

/-- net/http writes `Max-Age` only when it is positive or negative (then as 0, read back as -1) -/
def normMaxAge (m : Int) : Int := if m > 0 then m else if m == 0 then 0 else -1

/-- net/http writes Lax/Strict/None and nothing for the default mode -/
def normSameSite (s : Int) : Int := if s == 2 || s == 3 || s == 4 then s else 0

/-- the deletion cookie's `Expires` is `time.Unix(0, 0)`: that many seconds before the transcript's epoch -/
def deletionExpires : Int := -1257894000

/-- the cookie a cookie event stands for: live cookies are the template with name and value filled in (`Expires = now + offset`),
the deletion cookie is a copy of the REQUEST's cookie (name only) marked expired -/
def cookieOut (ck : CookieCfg) (t : Int) : Ev → Option CookieOut
  | .setCookie id => some
      { name := ck.name, value := some id, path := ck.path, domain := ck.domain,
        expires := if ck.expOff == 0 then none else some (t / 1000000000 + ck.expOff),
        maxAge := normMaxAge ck.maxAge, secure := ck.secure, httpOnly := ck.httpOnly, sameSite := normSameSite ck.sameSite }
  | .delCookie => some
      { name := ck.name, value := none, path := "", domain := "", expires := some deletionExpires, maxAge := -1,
        secure := false, httpOnly := false, sameSite := 0 }
  | _ => none

/-! ### crash points -/

def applyMut (st : List (ID × Rec)) : Ev → List (ID × Rec)
  | .save id r => insert id r st
  | .del id => erase id st
  | _ => st

def isFailEv : Ev → Bool
  | .loadFail _ => true
  | .saveFail _ => true
  | .delFail _ => true
  | .usersFail _ => true
  | .userFail _ => true
  | _ => false

def isMut : Ev → Bool
  | .save _ _ => true
  | .del _ => true
  | _ => false

def crashState (s : State) : State := { s with cache := [], timers := [], fails := [], picks := [] }

/-- One API call: run it with the oracles, split events, tick, and apply an armed `crashinside`. -/
def apiCall (w : World) (orc : Orc) (run : State → State × RetV × Option String × List Ev) (showSess : Bool) :
    World × Out :=
  let pre := w.st
  let (s1, ret, msg, evs) := run { w.st with fails := orc.fails, picks := orc.picks }
  let s1 := { s1 with fails := [], picks := [] }
  let pers := evs.filter (fun e => !isCookie e)
  let cks := evs.filter isCookie
  let muts := pers.filter isMut
  let rng := (s1.nextId - pre.nextId) * 16
  let (frozen, s2, crashed) :=
    match w.freezeAt with
    | none => (none, s1, false)
    | some k =>
      if k ≤ muts.length then
        -- the process dies here: the store is what the first k mutations left, and no clean-up goroutine runs any more
        (some (some k), { s1 with store := (muts.take k).foldl applyMut pre.store, timers := [] }, true)
      else (some none, s1, false)
  let (s3, bg) := advance s2 1
  let w' := { w with st := s3, freezeAt := none, respCookies := w.respCookies ++ cks,
                     crashed := w.crashed || crashed, skip := w.skip || (crashed && w.inReq) }
  let sessOut := if showSess then w.cur.map (fun h => (lookup (s1.obj h).id s1.cache == some h, s1.obj h)) else none
  (w', { t := pre.now, evs := pers, ret := some ret, msg := msg, sess := sessOut, cookies := cks,
         rng := some rng, faulted := (pers.filter isFailEv).length, frozen := frozen, bg := bg, dump := true,
         dumpCache := !(w.crashed || crashed) })

def resStr : Res → RetV × Option String
  | .nil => (.str "nil", none)
  | .sess _ => (.str "sess", none)
  | .err m => (.str "err", some m)

def boolStr (b : Bool) : RetV := .str (if b then "ok" else "err")

def hresStr : HRes → RetV
  | .ok => .str "ok"
  | .err => .str "err"
  | .panic => .str "panic"
  | .val v => .val v
  | .bool b => .str (if b then "b1" else "b0")
  | .time t => .time t
  | .user u => .user u

/-- end of a top-level line: perform the pending restart -/
def finish (w : World) (o : Out) : World × Out :=
  if w.crashed && !w.inReq then
    ({ w with st := crashState w.st, crashed := false, skip := false }, { o with restart := true })
  else (w, o)

def World.step (le : ID → ID → Bool) (w : World) (orc : Orc) (op : Op) : World × Out :=
  let t := w.st.now
  if w.skip && !(match op with | .endReq => true | _ => false) then (w, { silent := true }) else
  match op with
  | .codec c => finish { w with cfg := { w.cfg with codec := c } } { t := t }
  | .cfg n v => finish { w with cfg := setCfg w.cfg n v } { t := t }
  | .cookiecfg c => finish { w with ck := c } { t := t }
  | .fault => finish w { t := t }
  | .stale uid id => finish { w with st := { w.st with extra := w.st.extra ++ [(uid, id)] } } { t := t }
  | .crashinside k => finish { w with freezeAt := some k } { t := t }
  | .wait d =>
    let (s1, bg) := advance w.st d
    finish { w with st := s1 } { t := t, bg := bg, dump := true }
  | .dropcache => finish { w with st := { w.st with cache := [] } } { t := t, dump := true }
  | .crash => finish { w with crashed := true } { t := t }
  | .expiredRec id =>
    let r := match lookup id w.st.store with
      | none => "none"
      | some rec => if expired w.cfg w.st.now (dec w.st.ver id rec) then "b1" else "b0"
    finish w { t := t, ret := some (.str r) }
  | .purge =>
    let (w', o) := apiCall w orc (fun s => let (s', e) := purge w.cfg s; (s', .str "ok", none, e)) false
    finish w' o
  | .logoutUser uid =>
    let (w', o) := apiCall w orc (fun s => let (s', ok, e) := logoutUser w.cfg le s uid; (s', boolStr ok, none, e)) false
    finish w' o
  | .refresh uid =>
    let (w', o) := apiCall w orc (fun s => let (s', ok, e) := refreshUser w.cfg le s uid; (s', boolStr ok, none, e)) false
    finish w' o
  | .req client spec ip ua create =>
    let presented : Option (ID × Nat) :=
      match spec with
      | .none => none
      | .jar => (lookup client w.jars).map (fun id => (id, 24))
      | .val id len => some (id, len)
    let r : Req := { cookie := presented.map (·.1), cookieLen := (presented.map (·.2)).getD 0, ip := ip, ua := ua, create := create }
    let w0 := { w with inReq := true, client := client, cur := none, hasCookie := presented.isSome, respCookies := [] }
    let res := (start w.cfg { w.st with fails := orc.fails, picks := orc.picks } r).2.1
    let w1 := { w0 with cur := match res with | .sess h => some h | _ => none }
    let (w2, o) := apiCall w1 orc (fun s => let (s1, res, evs) := start w.cfg s r; (s1, (resStr res).1, (resStr res).2, evs)) true
    (w2, { o with input := some (presented.map (·.1)) })
  | .endReq =>
    let jar := if w.skip then lookup w.client w.jars else applyCookies w.ck (lookup w.client w.jars) w.respCookies
    let jars := match jar with
      | some id => insert w.client id w.jars
      | none => erase w.client w.jars
    finish { w with jars := jars, inReq := false, cur := none, respCookies := [], skip := false } { t := t, jar := some (w.client, jar) }
  | .h hop =>
    match w.cur with
    | none => (w, { t := t, ret := some (.str "nosession") })
    | some h =>
      let run : State → State × RetV × Option String × List Ev := fun s =>
        match hop with
        | .set k v => let (s', r, e) := hset w.cfg s h k v; (s', hresStr r, none, e)
        | .del k => let (s', r, e) := hdel w.cfg s h k; (s', hresStr r, none, e)
        | .get k => (s, hresStr (hget s h k), none, [])
        | .getdel k => let (s', r, e) := hgetdel w.cfg s h k; (s', hresStr r, none, e)
        | .login uid excl => let (s', r, e) := hlogin w.cfg le s h uid excl; (s', hresStr r, none, e)
        | .logout => let (s', r, e) := hlogout w.cfg s h; (s', hresStr r, none, e)
        | .regen => let (s', ok, e) := regenerate w.cfg s h; (s', boolStr ok, none, e)
        | .destroy => let (s', ok, e) := destroy s h w.hasCookie; (s', boolStr ok, none, e)
        | .expired => (s, hresStr (.bool (expired w.cfg s.now (s.obj h))), none, [])
        | .lastaccess => (s, .time (s.obj h).lastAccess, none, [])
        | .user => (s, .user (s.obj h).user, none, [])
      apiCall w orc run true

end Sx
