import Sessions.FactsIrStartUnfold
/-! # `Start`, stage (e): a valid, current session (no reference record), with the address test switched off (`AcceptRemoteIP ≤ 1`, the default) -/
namespace FactsIr
open Sx Sx.Loc Ir

set_option linter.unusedSimpArgs false
set_option maxRecDepth 100000

set_option maxHeartbeats 1600000 in
/-- **(e1) valid session, id not yet due**: the session is touched and returned. Hypotheses: the cookie's length, `sessions.Get` found
handle `h` (valid), the address test is off, the object passes the validity test, is not a reference record, and is younger than
`SessionIDExpiry`. -/
theorem start_valid_plain_eq (cfg : Cfg) (s s1 : State) (r : Req) (lenOf : ID → Nat) (id : ID) (h : Nat) (e1 : List Ev)
    (hc : r.cookie = some id) (hlen : lenOf id = r.cookieLen) (hl : r.cookieLen = 24)
    (hg : cacheGet cfg s id = (s1, .some h, e1)) (hh : h < s1.heap.length) (hip : cfg.acceptIP ≤ 1)
    (hv : validFor cfg s1.now (s1.obj h) r = true) (href : (s1.obj h).ref = none)
    (hage : since s1.now (s1.obj h).created < cfg.idExpiry) :
    Ir.execP (startPar cfg lenOf) Facts.ir_Start s (startArgs r) = Ir.ofStart (Sx.start cfg s r) := by
  have h24 : ((lenOf id : Nat) : Int) = 24 := by omega
  have hip' : ¬ 1 < cfg.acceptIP := by omega
  rw [start_valid hc hl hg hv, startValid_young id r e1 href hage, startArgs, execP_start]
  simp [validFor, ipOK, uaOK, since, hip', agentHash, State.obj, hh] at hv
  simp [State.obj, hh] at href
  simp [since, State.obj, hh] at hage
  have hage' : ¬ cfg.idExpiry ≤ s1.now - s1.heap[h].created := by omega
  start_eval [hc, h24, hg, hip', since, touch, agentHash, href, hage', hh]
  intro hbad
  exfalso
  obtain ⟨h1, h2⟩ := hv
  rw [if_pos h1] at hbad
  by_cases hU : cfg.acceptUA = true
  · rw [if_pos hU] at hbad; omega
  · rw [if_neg hU] at hbad
    rcases h2 with (h2 | h2) | h2
    · exact hU h2
    · exact hbad.1 h2
    · exact hbad.2 h2

end FactsIr
