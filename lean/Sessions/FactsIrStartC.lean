import Sessions.FactsIrStartUnfold
/-! # `Start`, stage (c): a 24-byte cookie that the cache does not know, or cannot load -/
namespace FactsIr
open Sx Sx.Loc Ir

set_option linter.unusedSimpArgs false
set_option maxRecDepth 100000

/-- **(c1) `sessions.Get` fails**: `Start` returns the error. -/
theorem start_geterr_eq (cfg : Cfg) (s s1 : State) (r : Req) (lenOf : ID → Nat) (id : ID) (e1 : List Ev) (hc : r.cookie = some id)
    (hlen : lenOf id = r.cookieLen) (hl : r.cookieLen = 24) (hg : cacheGet cfg s id = (s1, .err, e1)) :
    Ir.execP (startPar cfg lenOf) Facts.ir_Start s (startArgs r) = Ir.ofStart (Sx.start cfg s r) := by
  have h24 : ((lenOf id : Nat) : Int) = 24 := by omega
  rw [start_err hc hl hg, startArgs, execP_start]
  start_eval [hc, h24, hg]

set_option maxHeartbeats 1000000 in
/-- **(c2) unknown id**: deletion cookie, then the creation branch. -/
theorem start_unknown_eq (cfg : Cfg) (s s1 : State) (r : Req) (lenOf : ID → Nat) (id : ID) (e1 : List Ev) (hc : r.cookie = some id)
    (hlen : lenOf id = r.cookieLen) (hl : r.cookieLen = 24) (hg : cacheGet cfg s id = (s1, .nil, e1)) :
    Ir.execP (startPar cfg lenOf) Facts.ir_Start s (startArgs r) = Ir.ofStart (Sx.start cfg s r) := by
  have h24 : ((lenOf id : Nat) : Int) = 24 := by omega
  rw [start_miss hc hl hg, startArgs, execP_start]
  cases hcr : r.create with
  | false =>
    rw [createNew_no _ hcr]
    start_eval [hc, hcr, h24, hg]
  | true =>
    rw [createNew_yes _ hcr]
    start_eval [hc, hcr, h24, hg, newS1, agentHash]

end FactsIr
