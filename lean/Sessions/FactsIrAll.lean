import Sessions.FactsIrRegen
import Sessions.FactsIrCache
import Sessions.FactsIrHandlers
import Sessions.FactsIrLogin
import Sessions.FactsIrStart
import Sessions.FactsIrStartRun
import Sessions.FactsIrStartA
import Sessions.FactsIrStartB
import Sessions.FactsIrStartC
import Sessions.FactsIrStartD
import Sessions.FactsIrStartE
import Sessions.FactsIrStartF
import Sessions.FactsIrStartG
/-! All equivalence theorems between the translated Go functions (`Facts.ir_*`, regenerated) and the model, with their axioms. -/
#print axioms FactsIr.regenerateID_eq
#print axioms FactsIr.destroy_eq_model
#print axioms FactsIr.cacheSet_eq_model
#print axioms FactsIr.cacheDelete_eq_model
#print axioms FactsIr.cacheGet_eq_model
#print axioms FactsIr.set_eq_model
#print axioms FactsIr.delete_eq_model
#print axioms FactsIr.logOut_eq_model
#print axioms FactsIr.getAndDelete_eq_model
#print axioms FactsIr.getAndDelete_default
#print axioms FactsIr.logIn_eq_model
#print axioms FactsIr.get_eq_model
#print axioms FactsIr.start_create_block_partial
#print axioms FactsIr.runs_append
#print axioms FactsIr.start_shape
#print axioms FactsIr.start_blocks
#print axioms FactsIr.execP_start
#print axioms FactsIr.start_nocookie_eq
#print axioms FactsIr.start_wronglen_eq
#print axioms FactsIr.start_geterr_eq
#print axioms FactsIr.start_unknown_eq
#print axioms FactsIr.start_invalid_eq
#print axioms FactsIr.start_valid_plain_eq
#print axioms FactsIr.start_rotate_eq
#print axioms FactsIr.start_ref_expired_eq
