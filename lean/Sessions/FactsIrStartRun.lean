import Sessions.FactsIrStart
/-!
# `Start`: the translated function RUN against the model on concrete histories (evaluation, not proof)

The equivalence theorem for the whole of `Start` is not proved yet (`FactsIrStart.lean`). Until it is, this module EXECUTES the translated
tree (`Ir.execP (Ir.startPar …) Facts.ir_Start`, regenerated from /repo on every run) and the model's `Sx.start` on the same concrete state
and request and compares state, result and events (`#guard`; a difference fails the build). The scenarios walk every branch of `Start`:
no cookie, wrong length, unknown id, young session, rotation, reference record (one and two hops, from the cache and from the store),
expired reference, stale session, changed address (prefix lengths 2–4, each group), changed user agent, and injected persistence faults at
every call. They are examples, not a proof: they are sensitive to a semantic change on a branch they exercise, not to all changes.
-/
namespace FactsIr.Run
open Sx Ir FactsIr

/-- does the translated `Start` do on `(s, r)` exactly what the model does? -/
def agree (cfg : Cfg) (s : State) (r : Req) : Bool :=
  reprStr (Ir.execP (startPar cfg (fun _ => r.cookieLen)) Facts.ir_Start s (startArgs r)) == reprStr (Ir.ofStart (Sx.start cfg s r))

def at_ (s : State) (t : Int) : State := { s with now := t }
def faults (s : State) (f : List Bool) : State := { s with fails := f }
def uncached (s : State) : State := { s with cache := [] }

def cfg0 : Cfg := {}
def h : Int := 3600000000000          -- SessionIDExpiry
def g : Int := 300000000000           -- SessionIDGracePeriod
def ip1 := "10.20.30.40:5000"
def ua1 := "Mozilla/5.0"
def new_ : Req := { create := true, ip := ip1, ua := ua1 }
def ck (n : Nat) (ip : String := ip1) (ua : String := ua1) (create := true) : Req :=
  { cookie := some (.gen n), cookieLen := 24, ip := ip, ua := ua, create := create }

/-- a session `gen 0` created at time 1000 -/
def s1 : State := (start cfg0 (at_ {} 1000) new_).1
/-- … rotated to `gen 1` at 1000+h (reference record under `gen 0`) -/
def s2 : State := (start cfg0 (at_ s1 (1000 + h)) (ck 0)).1
/-- … rotated again to `gen 2` at 1000+2h (reference record under `gen 1`) -/
def s3 : State := (start cfg0 (at_ s2 (1000 + 2 * h)) (ck 1)).1

/-- `s1` touched at 2000: `lastAccess` and `created` differ -/
def s1t : State := (start cfg0 (at_ s1 2000) (ck 0)).1

-- the histories are what they are meant to be
#guard (s1.cache.length, s2.cache.length, s3.cache.length) == (1, 2, 3)
#guard ((s3.obj 0).id, (s3.obj 1).ref, (s3.obj 2).ref) == (ID.gen 2, some (ID.gen 1), some (ID.gen 2))

-- (a) no cookie / wrong length / unknown id, with and without `createIfNew`, with a failing save
#guard agree cfg0 (at_ {} 5) new_
#guard agree cfg0 (at_ {} 5) { new_ with create := false }
#guard agree cfg0 (faults (at_ {} 5) [true]) new_
#guard agree cfg0 s1 { ck 0 with cookieLen := 23 }
#guard agree cfg0 s1 (ck 7)
#guard agree cfg0 s1 (ck 7 (create := false))
#guard agree cfg0 (faults s1 [true]) (ck 7)
#guard agree cfg0 (faults (uncached s1) [true]) (ck 0)
-- (c) a young session: touched (new address and agent recorded); from the cache and from the store
#guard agree cfg0 (at_ s1 2000) (ck 0)
#guard agree cfg0 (at_ (uncached s1) 2000) (ck 0)
#guard agree { cfg0 with acceptUA := true } (at_ s1 2000) (ck 0 "1.1.1.1:1" "other")
-- (c) rotation at exactly the threshold, just before it, and with failing saves
#guard agree cfg0 (at_ s1 (1000 + h)) (ck 0)
#guard agree cfg0 (at_ s1 (1000 + h - 1)) (ck 0)
#guard agree cfg0 (faults (at_ s1 (1000 + h)) [true]) (ck 0)
#guard agree cfg0 (faults (at_ s1 (1000 + h)) [false, true]) (ck 0)
-- the age of the id is measured from `created`, staleness from `lastAccess`
#guard agree cfg0 (at_ s1t (1000 + h)) (ck 0)
#guard agree cfg0 (at_ s1t (2000 + h - 1)) (ck 0)
#guard agree { cfg0 with sessionExpiry := 500 } (at_ s1t 2400) (ck 0)
#guard agree { cfg0 with sessionExpiry := 500 } (at_ s1t 2500) (ck 0)
-- (d) reference records: one hop, two hops, from the store, a missing target, a failing load, within and after the grace period
#guard agree cfg0 (at_ s2 (1000 + h + 5)) (ck 0)
#guard agree cfg0 (at_ s3 (1000 + 2 * h + 5)) (ck 0)
#guard agree cfg0 (at_ s3 (1000 + 2 * h + 5)) (ck 1)
#guard agree cfg0 (at_ (uncached s3) (1000 + 2 * h + 5)) (ck 0)
#guard agree cfg0 (faults (at_ (uncached s3) (1000 + 2 * h + 5)) [false, true]) (ck 0)
#guard agree cfg0 (at_ { uncached s3 with store := s3.store.filter (fun e => e.1 != ID.gen 2) } (1000 + 2 * h + 5)) (ck 0)
#guard agree cfg0 (at_ s2 (1000 + 2 * h + g - 1)) (ck 0)
#guard agree cfg0 (at_ s2 (1000 + 2 * h + g)) (ck 0)
#guard agree cfg0 (faults (at_ s2 (1000 + 2 * h + g)) [true]) (ck 0)
-- a rotated session is not rotated again through its reference record
#guard agree cfg0 (at_ s2 (1000 + 2 * h)) (ck 0)
-- (b) a stale session (at the threshold and just before), a failing delete
#guard agree { cfg0 with sessionExpiry := 500 } (at_ s1 1500) (ck 0)
#guard agree { cfg0 with sessionExpiry := 500 } (at_ s1 1499) (ck 0)
#guard agree { cfg0 with sessionExpiry := 500 } (faults (at_ s1 1500) [true]) (ck 0)
#guard agree { cfg0 with sessionExpiry := 500 } (at_ s1 1500) (ck 0 (create := false))
-- (b) the address test: prefix lengths 1–5, a difference in each group, addresses that do not parse
#guard agree { cfg0 with acceptIP := 2 } (at_ s1 2000) (ck 0 "10.99.30.40:1")
#guard agree { cfg0 with acceptIP := 2 } (at_ s1 2000) (ck 0 "11.20.30.40:1")
#guard agree { cfg0 with acceptIP := 3 } (at_ s1 2000) (ck 0 "10.99.30.40:1")
#guard agree { cfg0 with acceptIP := 3 } (at_ s1 2000) (ck 0 "10.20.99.40:1")
#guard agree { cfg0 with acceptIP := 4 } (at_ s1 2000) (ck 0 "10.20.99.40:1")
#guard agree { cfg0 with acceptIP := 4 } (at_ s1 2000) (ck 0 "10.20.30.99:1")
#guard agree { cfg0 with acceptIP := 4 } (at_ s1 2000) (ck 0 "10.20.30.40:9")
#guard agree { cfg0 with acceptIP := 5 } (at_ s1 2000) (ck 0 "99.20.30.40:9")
#guard agree { cfg0 with acceptIP := 3 } (at_ s1 2000) (ck 0 "not an address")
-- (b) the user-agent test
#guard agree cfg0 (at_ s1 2000) (ck 0 ip1 "another agent")
#guard agree cfg0 (at_ s1 2000) (ck 0 ip1 "")
#guard agree cfg0 (at_ (start cfg0 (at_ {} 1000) { new_ with ua := "" }).1 2000) (ck 0 ip1 "late agent")

end FactsIr.Run
