import Sessions.FactsIrStartUnfold
/-! # `Start`, stage (b): a session cookie whose value is not 24 bytes long -/
namespace FactsIr
open Sx Sx.Loc Ir

set_option linter.unusedSimpArgs false
set_option maxRecDepth 100000

/-- **(b) wrong length**: `lenOf` is the byte length of session-id strings; it must agree with the request (`hlen`). -/
theorem start_wronglen_eq (cfg : Cfg) (s : State) (r : Req) (lenOf : ID → Nat) (id : ID) (hc : r.cookie = some id)
    (hlen : lenOf id = r.cookieLen) (hl : r.cookieLen ≠ 24) :
    Ir.execP (startPar cfg lenOf) Facts.ir_Start s (startArgs r) = Ir.ofStart (Sx.start cfg s r) := by
  have h24 : ¬ ((lenOf id : Nat) : Int) = 24 := by omega
  rw [start_len hl, startArgs, execP_start]
  cases hcr : r.create with
  | false =>
    rw [createNew_no _ hcr]
    start_eval [hc, hcr, h24]
  | true =>
    rw [createNew_yes _ hcr]
    start_eval [hc, hcr, h24, newS1, agentHash]

end FactsIr
