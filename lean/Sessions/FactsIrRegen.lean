import Sessions.Generated.Facts
import Sessions.Ir.Lemmas
/-!
# `Session.RegenerateID` and `Session.Destroy` as the repository has them now = the model's `regenerate` / `destroy`

`Facts.ir_RegenerateID`, `Facts.ir_Destroy` are regenerated from /repo on every run by /verif/extract (ir.go); see
`Sessions/Ir/Sem.lean` for what `Ir.exec` means and what is trusted.
-/
namespace FactsIr
open Sx Sx.Loc Ir

set_option linter.unusedSimpArgs false
set_option maxRecDepth 100000

/-- **`s.RegenerateID(response)`** on a valid handle: the translated code computes exactly the model's state, success flag
(nil / non-nil error) and events, for every configuration, state and oracle. -/
theorem regenerateID_eq (cfg : Cfg) (s : State) (h : Nat) (hv : h < s.heap.length) :
    Ir.exec cfg Facts.ir_RegenerateID s [.ptr (some h), .opaque] = Ir.ofErr (Sx.regenerate cfg s h) := by
  rw [regenerate_eq]
  ir_tac [Facts.ir_RegenerateID, regenA, regenB, regenS0, regenS2, refObj, hv,
    cacheSet_canon, cacheSetN_heap, cacheSetN_now, cacheSetN_nextId, cacheSetN_timers, cacheSetN_vers, cacheSetN_extra]

/-- **`s.Destroy(response, request)`**; `c` is the session cookie the request carries (if any). -/
theorem destroy_eq_model (cfg : Cfg) (s : State) (h : Nat) (c : Option ID) :
    Ir.exec cfg Facts.ir_Destroy s [.ptr (some h), .opaque, .req c] = Ir.ofErr (Sx.destroy s h c.isSome) := by
  rw [destroy_eq]
  cases c <;> ir_tac [Facts.ir_Destroy]

end FactsIr
