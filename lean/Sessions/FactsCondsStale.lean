import Sessions.FactsCondsBase
/-! Idle expiry: the staleness test of `Start` (see `Sessions/FactsCondsBase.lean`; regenerated table `Facts.conds`). -/
namespace FactsConds
open Ce

variable (cfg : Sx.Cfg) (now : Int) (o : Sx.Sess) (r : Sx.Req) (valid : Bool) (i : Int)

/-! ### `Start`: staleness -/

/-- exactly one condition of `Start` mentions `SessionExpiry`, and it is the model's staleness test (`Sx.validFor`):
the idle time is measured from `lastAccess` and compared with `>=`. -/
theorem start_stale :
    (pick Facts.conds "Start" "if" "SessionExpiry").map (eval (startEnv cfg now o r valid i)) =
      [some (.bool (decide (Sx.since now o.lastAccess ≥ cfg.sessionExpiry)))] := by
  conds_tac [startEnv]

end FactsConds
