import Sessions.Generated.Facts
import Sessions.Ir.Lemmas
/-!
# `s.LogIn(user, exclusive, response)` as the repository has it now = the model's `hlogin`

`LogOut(userID)`, `s.LogOut()`, `sessions.Set` and `s.RegenerateID` are calls to other functions and are interpreted by the
model's `logoutUser`, `hlogout`, `cacheSet`, `regenerate` (the last three are themselves translated and proved equal in
`FactsIrHandlers`, `FactsIrCache`, `FactsIrRegen`). `le` is the order in which `Persistence.UserSessions` lists the ids.
-/
namespace FactsIr
open Sx Sx.Loc Ir

set_option linter.unusedSimpArgs false
set_option maxRecDepth 100000

/-- **`s.LogIn(user, exclusive, response)`** for a non-nil `user` whose id is `uid`. -/
theorem logIn_eq_model (cfg : Cfg) (le : ID → ID → Bool) (s : State) (h : Nat) (uid : String) (excl : Bool) :
    Ir.execLe cfg le Facts.ir_LogIn s [.ptr (some h), .userArg uid, .bool excl, .opaque] =
      Ir.ofHRes (Sx.hlogin cfg le s h uid excl) := by
  rw [hlogin_eq]
  cases excl <;> ir_tac [Facts.ir_LogIn, loginPre, loginSet]

end FactsIr
