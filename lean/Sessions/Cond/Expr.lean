/-!
# Expression trees of the package's decision logic (namespace `Ce`)

`/verif/extract/conds.go` re-reads the Go source on every run and writes every condition `Start`, `Expired`,
`RegenerateID` and the cache decide on as a value of `GE` (an expression TREE, single-definition locals inlined).
`eval` gives those trees their Go meaning over an environment of typed values; the theorems of
`Sessions/FactsConds.lean` evaluate the *generated* trees for all values of their variables and prove them equal to
the predicates of the model. Core Lean only.

Integers are unbounded here while Go's are `int64`/`time.Duration`: the only arithmetic in the package's conditions is
`age - SessionIDExpiry` under the guard `age >= SessionIDExpiry` (both non-negative: no wrap), `len(c.sessions) +
requiredSpace` (small naturals) and `time.Now().Add(-SessionIDExpiry)`; the F1 overflow (`SessionIDExpiry +
SessionIDGracePeriod`) is exactly the sum that is NOT there any more (`FactsConds.no_sum_of_durations`).
-/
namespace Ce

inductive Op where
  | and | or | eq | ne | lt | le | gt | ge | add | sub
deriving DecidableEq, Repr, Inhabited

/-- Go expressions as far as the package's conditions use them. -/
inductive GE where
  | var (x : String)                     -- identifier: local, parameter or package variable
  | sel (x f : String)                   -- `x.f` on an identifier: field of a local, or package-qualified name
  | fld (a : GE) (f : String)            -- `e.f` on a compound expression
  | int (n : Int)
  | str (s : String)
  | bool (b : Bool)
  | nil
  | not (a : GE)
  | neg (a : GE)
  | bin (op : Op) (a b : GE)
  | idx (a i : GE)
  | call0 (f : String)
  | call1 (f : String) (a : GE)          -- `f(a)`; a method call `a.m()` is `call1 ".m" a`
  | call2 (f : String) (a b : GE)        -- `f(a, b)`; `a.m(b)` is `call2 ".m" a b`
  | unk (text : String)                  -- a shape the extractor does not know: evaluates to `none`
deriving Repr, Inhabited

/-- Go values as far as the conditions need them. -/
inductive V where
  | int (i : Int)              -- int, int64, uint64, time.Duration
  | bool (b : Bool)
  | str (s : String)
  | time (t : Int)             -- time.Time as ns on the model's clock
  | strs (l : List String)     -- []string (nil = [])
  | ptr (isNil : Bool)         -- a pointer / interface / error compared with nil only
  | re (pat : String)          -- a compiled regular expression
  | count (n : Nat)            -- a map, of which only `len` is taken
deriving DecidableEq, Repr, Inhabited

structure Env where
  var : String → Option V
  sel : String → String → Option V
  now : Int                                       -- what `time.Now()` returns
  match1 : String → String → List String := fun _ _ => []    -- `regexp.MustCompile(pat).FindStringSubmatch(s)`

def cmpInt (op : Op) (a b : Int) : Option V :=
  match op with
  | .eq => some (.bool (a == b)) | .ne => some (.bool (a != b))
  | .lt => some (.bool (decide (a < b))) | .le => some (.bool (decide (a ≤ b)))
  | .gt => some (.bool (decide (a > b))) | .ge => some (.bool (decide (a ≥ b)))
  | .add => some (.int (a + b)) | .sub => some (.int (a - b))
  | _ => none

def binV (op : Op) (a b : V) : Option V :=
  match a, b with
  | .int x, .int y => cmpInt op x y
  | .bool x, .bool y =>
    (match op with
     | .and => some (.bool (x && y)) | .or => some (.bool (x || y))
     | .eq => some (.bool (x == y)) | .ne => some (.bool (x != y)) | _ => none)
  | .str x, .str y =>
    (match op with | .eq => some (.bool (x == y)) | .ne => some (.bool (x != y)) | _ => none)
  | .ptr x, .ptr y =>   -- only comparisons with the literal nil reach here (`nil` evaluates to `ptr true`)
    (match op with
     | .eq => if y then some (.bool x) else if x then some (.bool y) else none
     | .ne => if y then some (.bool !x) else if x then some (.bool !y) else none
     | _ => none)
  | .time x, .int d => (match op with | .sub => some (.time (x - d)) | .add => some (.time (x + d)) | _ => none)
  | _, _ => none

def eval (ρ : Env) : GE → Option V
  | .var x => ρ.var x
  | .sel x f => ρ.sel x f
  | .fld _ _ => none
  | .int n => some (.int n)
  | .str s => some (.str s)
  | .bool b => some (.bool b)
  | .nil => some (.ptr true)
  | .not a => (match eval ρ a with | some (.bool b) => some (.bool !b) | _ => none)
  | .neg a => (match eval ρ a with | some (.int i) => some (.int (-i)) | _ => none)
  | .bin op a b => (match eval ρ a, eval ρ b with | some x, some y => binV op x y | _, _ => none)
  | .idx a i =>
    (match eval ρ a, eval ρ i with
     | some (.strs l), some (.int k) => if 0 ≤ k ∧ k.toNat < l.length then some (.str (l.getD k.toNat "")) else none
     | _, _ => none)
  | .call0 f => if f = "time.Now" then some (.time ρ.now) else none
  | .call1 f a =>
    (match eval ρ a with
     | some (.time t) => if f = "time.Since" then some (.int (ρ.now - t)) else none
     | some (.strs l) => if f = "len" then some (.int l.length) else none
     | some (.str s) =>
       if f = "len" then some (.int s.utf8ByteSize) else if f = "regexp.MustCompile" then some (.re s) else none
     | some (.count n) => if f = "len" then some (.int n) else none
     | _ => none)
  | .call2 f a b =>
    (match eval ρ a, eval ρ b with
     | some (.time t), some (.int d) => if f = ".Add" then some (.time (t + d)) else none
     | some (.time t), some (.time u) =>
       if f = ".Before" then some (.bool (decide (t < u))) else if f = ".After" then some (.bool (decide (t > u))) else none
     | some (.re pat), some (.str s) => if f = ".FindStringSubmatch" then some (.strs (ρ.match1 pat s)) else none
     | _, _ => none)
  | .unk _ => none

/-- does the tree contain a sum of two given package variables (the shape of the F1 overflow)? -/
def hasSum (x y : String) : GE → Bool
  | .bin .add (.var a) (.var b) => (a == x && b == y) || (a == y && b == x)
  | .bin _ a b => hasSum x y a || hasSum x y b
  | .not a | .neg a | .fld a _ | .call1 _ a => hasSum x y a
  | .idx a b | .call2 _ a b => hasSum x y a || hasSum x y b
  | _ => false

/-- does the tree mention the identifier or field name `x`? -/
def mentions (x : String) : GE → Bool
  | .var a => a == x
  | .sel a f => a == x || f == x
  | .bin _ a b | .idx a b | .call2 _ a b => mentions x a || mentions x b
  | .not a | .neg a | .fld a _ | .call1 _ a => mentions x a
  | _ => false

/-- an entry of the regenerated table: function, kind (`if`, `for`, `set`, `return`, `sleep`, `add`), detail (loop init and
post statement, assigned variable), expression -/
abbrev Entry := String × String × String × GE

/-- the entries of function `fn` of kind `kind` that mention `x`, in source order -/
def pick (l : List Entry) (fn kind x : String) : List GE :=
  (l.filter (fun e => e.1 == fn && e.2.1 == kind && mentions x e.2.2.2)).map (·.2.2.2)

/-- the entries of function `fn` of kind `kind` with their detail -/
def pickKind (l : List Entry) (fn kind : String) : List (String × GE) :=
  (l.filter (fun e => e.1 == fn && e.2.1 == kind)).map (·.2.2)

end Ce
