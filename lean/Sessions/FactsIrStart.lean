import Sessions.Generated.Facts
import Sessions.Ir.LoopTac
/-!
# `Start` (PARTIAL): the translated function, and its creation branch = the model's `createNew`

`Facts.ir_Start` is the translation of the whole of `Start` (both loops, `break`, `i++`; no `unk` node), regenerated on every run, and
`Ir.execP (Ir.startPar cfg lenOf) Facts.ir_Start s (startArgs r)` is its meaning (`Sessions/Ir/Loop.lean`: loops with the fuel of
`Sx.follow`, block scoping, merging of branches). The equivalence `= Ir.ofStart (Sx.start cfg s r)` is NOT proved yet: symbolic
evaluation of the whole tree by `simp` does not terminate in reasonable time: `simp` keeps traversing the not yet executed rest of the tree
(a block of a dozen statements evaluates in seconds, the nine-statement prologue followed by the large `if session != nil { … }` does not
within minutes). The way forward is compositional: `runs_append` and `start_shape` below split the body into blocks whose unevaluated
parts stay opaque. What is proved here is the last block of
the function — everything from `if session == nil {` to the final `return session, nil` — run from ANY machine state in which no session
was found: it is the model's `createNew`, for every configuration, state, request, and events so far.
-/
namespace FactsIr
open Sx Sx.Loc Ir

set_option linter.unusedSimpArgs false
set_option maxRecDepth 100000

/-- the arguments of `Start(response, request, createIfNew)` for the model's request `r` -/
def startArgs (r : Req) : List V := [.opaque, .request r.cookie r.ip r.ua, .bool r.create]

/-- the statements of `Start` from `if session == nil {` on (the 11th top-level statement and the final `return`) -/
def startCreateBlock : List Stmt := Facts.ir_Start.body.drop 10

/-- the locals of `Start` at that point when no session was found (or it was destroyed): `session == nil`, the user-agent hash computed -/
def startEnvNoSession (r : Req) (c : Option Ck) (idv : V) (e : Bool := false) : List (String × V) :=
  [("session", .ptr none), ("err", .err e), ("cookie", .cookie c), ("id", idv), ("userAgent", .str r.ua), ("hash", .hasher 0),
   ("agentHash", .hash (agentHash r.ua)), ("createIfNew", .bool r.create), ("request", .request r.cookie r.ip r.ua), ("response", .opaque)]

/-- **The creation branch of `Start`** = `Sx.createNew`: nothing when `createIfNew` is false; otherwise a fresh id, a new object stamped
with the request's address and user-agent hash and an empty data map, `sessions.Set`, and the session cookie — same state, same result,
same events after `pre`. (`c`, `idv`: whatever the cookie and id variables hold.) -/
theorem start_create_block_partial (cfg : Cfg) (s : State) (r : Req) (lenOf : ID → Nat) (pre : List Ev) (c : Option Ck) (idv : V)
    (e : Bool) (hs : List String) :
    Ir.runs (startPar cfg lenOf) ["*Session", "error"] startCreateBlock
        { st := s, env := startEnvNoSession r c idv e, evs := pre, hs := hs, lenOf := lenOf } =
      Ir.ofStart (Sx.createNew cfg s r pre) := by
  cases hcr : r.create with
  | false =>
    rw [createNew_no _ hcr]
    simp only [startCreateBlock, Facts.ir_Start, List.drop]
    ir2_eval [startPar, startEnvNoSession, hcr]
  | true =>
    rw [createNew_yes _ hcr]
    simp only [startCreateBlock, Facts.ir_Start, List.drop]
    ir2_eval [startPar, startEnvNoSession, hcr, newS1]

theorem runs_append (P : Par) (res : List String) (a b : List Stmt) (m : M) (hl : m.lenOf = P.lenOf) :
    Ir.runs P res (a ++ b) m = (Ir.runs P res a m).bind P.lenOf (Ir.runs P res b) := by
  induction a generalizing m with
  | nil => obtain ⟨st, env, evs, hs, l⟩ := m; simp only at hl; subst hl; simp [runs, M.norm, bind_norm]
  | cons x r ih =>
    simp only [List.cons_append, runs]
    rcases hx : run P res x m with ⟨st, o, evs⟩
    cases o <;> simp [Out.bind, ih]

/-- the shape of `Start`: nine statements (user-agent hash, cookie, `sessions.Get`), `if session != nil { T }`, the creation block -/
theorem start_shape : ∃ T, Facts.ir_Start.body =
    Facts.ir_Start.body.take 9 ++ ([Stmt.ite [] (.bin "!=" (.ident "session") .nil) T []] ++ startCreateBlock) := ⟨_, rfl⟩

end FactsIr
