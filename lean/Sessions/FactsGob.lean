import Sessions.Generated.Facts
/-!
# Theorems about the gob codec program regenerated from the Go source (C16)

The program is re-read from the Go source on every run by /verif/extract (codec.go). A field that is dropped,
reordered on one side only, guarded differently, or converted differently makes these proofs fail on the next run.
-/
namespace FactsCodec

/-- the extractor recognised every statement of `GobEncode` and `GobDecode` -/
theorem gob_recognised : Facts.unrecognisedGobEncode = [] ∧ Facts.unrecognisedGobDecode = [] := ⟨rfl, rfl⟩

/-- C16 at model level: decoding the gob encoding of ANY session into a fresh session restores every field
(a nil data map comes back empty). -/
theorem gob_roundtrip (s : Cd.S) :
    Cd.dec Facts.gobDecodeProg (Cd.enc s Facts.gobEncodeProg) false {} = some (Cd.norm s) := by
  obtain ⟨c, la, ip, ua, rf, user, data⟩ := s
  cases user <;> simp [Facts.gobEncodeProg, Facts.gobDecodeProg, Cd.enc, Cd.dec, Cd.getF, Cd.setF, Cd.norm, Option.bind]

end FactsCodec
