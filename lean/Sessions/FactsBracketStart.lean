import Sessions.Generated.Facts
/-! Critical-section bracket read from the source by /verif/extract (brackets.go); see DESIGN.md §5.2. -/
namespace FactsBrackets

/-- in `Start`, `sessionIDMutexes.Lock(id)` and the deferred `Unlock(id)` come first inside `if len(id) == 24`, and the
lookup of the presented id and every later cache operation, rotation and destroy of `Start` come after them -/
theorem start_is_critical_section : Facts.startLockBracket = true := rfl

/-- the presented id is looked up only inside the `len(id) == 24` block -/
theorem start_looks_up_only_24 : Facts.startLooksUpOnly24 = true := rfl

end FactsBrackets
