import Sessions.Ids.Ids
/-! C19, text level: `generateSessionID` and `RandomID` as computable functions from the bytes read from
the CSPRNG to the returned `String`, with length / alphabet / injectivity / cookie-safety theorems.
Core Lean only; every definition is computable (called from the compiled driver). -/
namespace Ids

/-! ## the two alphabets -/

/-- `base64.StdEncoding` alphabet: A–Z a–z 0–9 + /. Total; values ≥ 64 never occur (`encode_digits_lt`). -/
def b64char (n : Nat) : Char :=
  if n < 26 then Char.ofNat (n + 65)
  else if n < 52 then Char.ofNat (n + 71)
  else if n < 62 then Char.ofNat (n - 4)
  else if n = 62 then '+' else '/'

/-- the `chars` constant of `RandomID` and `CUID`: 0–9 A–Z a–z (ASCII order). -/
def b62char (n : Nat) : Char :=
  if n < 10 then Char.ofNat (n + 48)
  else if n < 36 then Char.ofNat (n + 55)
  else Char.ofNat (n + 61)

/-- code point of `b64char`, as plain arithmetic. -/
def b64code (n : Nat) : Nat :=
  if n < 26 then n + 65 else if n < 52 then n + 71 else if n < 62 then n - 4 else if n = 62 then 43 else 47

def b62code (n : Nat) : Nat := if n < 10 then n + 48 else if n < 36 then n + 55 else n + 61

theorem ofNat_toNat (n : Nat) (h : n < 55296) : (Char.ofNat n).toNat = n := by
  have hv : n.isValidChar := Or.inl h
  simp only [Char.ofNat, hv, ↓reduceDIte]
  rfl

theorem b64char_toNat (n : Nat) : (b64char n).toNat = b64code n := by
  unfold b64char b64code
  split
  · exact ofNat_toNat _ (by omega)
  split
  · exact ofNat_toNat _ (by omega)
  split
  · exact ofNat_toNat _ (by omega)
  split <;> rfl

theorem b62char_toNat (n : Nat) (h : n < 62) : (b62char n).toNat = b62code n := by
  unfold b62char b62code
  split
  · exact ofNat_toNat _ (by omega)
  split
  · exact ofNat_toNat _ (by omega)
  · exact ofNat_toNat _ (by omega)

/-- `b64char` agrees with the table `alphabet` of the abstract spike (so `alphabet_nodup`/`alphabet_safe` speak about it). -/
theorem b64code_eq_alphabet : ∀ n, n < 64 → alphabet[n]? = some (b64code n) := by decide

/-- the literal Go constant, spelled out, is what `b62char` indexes. -/
theorem b62char_eq_chars : (List.range 62).map b62char
    = "0123456789ABCDEFGHIJKLMNOPQRSTUVWXYZabcdefghijklmnopqrstuvwxyz".toList := by decide

theorem b64char_eq_chars : (List.range 64).map b64char
    = "ABCDEFGHIJKLMNOPQRSTUVWXYZabcdefghijklmnopqrstuvwxyz0123456789+/".toList := by decide

theorem b64code_injective (n m : Nat) (hn : n < 64) (hm : m < 64) (h : b64code n = b64code m) : n = m := by
  unfold b64code at h
  repeat' split at h
  all_goals omega

theorem b64char_injective (n m : Nat) (hn : n < 64) (hm : m < 64) (h : b64char n = b64char m) : n = m :=
  b64code_injective n m hn hm (by rw [← b64char_toNat, ← b64char_toNat, h])

theorem b64code_ne_pad (n : Nat) : b64code n ≠ 61 := by
  unfold b64code
  repeat' split
  all_goals omega

/-- strictly monotone on the 62 digits: numeric order of digits is character order. -/
theorem b62code_lt (n m : Nat) (hm : m < 62) (h : n < m) : b62code n < b62code m := by
  unfold b62code
  repeat' split
  all_goals omega

theorem b62char_lt (n m : Nat) (hm : m < 62) (h : n < m) : b62char n < b62char m := by
  have := b62code_lt n m hm h
  rw [← b62char_toNat n (by omega), ← b62char_toNat m hm] at this
  exact Char.lt_def.2 (UInt32.lt_iff_toNat_lt.2 this)

theorem b62char_injective (n m : Nat) (hn : n < 62) (hm : m < 62) (h : b62char n = b62char m) : n = m := by
  rcases Nat.lt_trichotomy n m with hlt | heq | hgt
  · have := b62char_lt n m hm hlt; rw [h] at this; exact absurd this (Char.lt_irrefl _)
  · exact heq
  · have := b62char_lt m n hn hgt; rw [h] at this; exact absurd this (Char.lt_irrefl _)

/-! ## cookie safety (net/http) -/

/-- net/http `validCookieValueByte`: `0x20 <= b && b < 0x7f && b != '"' && b != ';' && b != '\\'`. -/
def validCookieValueByte (c : Nat) : Bool := 0x20 ≤ c && c < 0x7f && c != 0x22 && c != 0x3b && c != 0x5c

/-- valid and additionally neither space nor comma, so `sanitizeCookieValue` does not wrap the value in quotes. -/
def cookiePlain (c : Nat) : Bool := validCookieValueByte c && c != 0x20 && c != 0x2c

theorem cookiePlain_eq_cookieSafe (c : Nat) : cookiePlain c = cookieSafe c := by
  rw [Bool.eq_iff_iff]
  simp [cookiePlain, validCookieValueByte, cookieSafe]
  omega

theorem b64code_plain (n : Nat) : cookiePlain (b64code n) = true := by
  unfold b64code
  repeat' split
  all_goals (simp [cookiePlain, validCookieValueByte] <;> omega)

/-- net/http `sanitizeCookieValue` on a list of byte values (ASCII text = its bytes): drop invalid bytes,
    then quote if the value contains a space or a comma. -/
def sanitizeCookieValue (v : List Nat) : List Nat :=
  let w := v.filter validCookieValueByte
  if w.any (fun c => c == 0x20 || c == 0x2c) then [0x22] ++ w ++ [0x22] else w

/-- net/http `parseCookieValue(raw, allowDoubleQuote = true)` as used by `readCookies`: strip one pair of
    enclosing double quotes, then accept iff every byte is a valid cookie-value byte. -/
def parseCookieValue (raw : List Nat) : Option (List Nat) :=
  let r := if raw.length > 1 && raw.head? == some 0x22 && raw.getLast? == some 0x22
           then (raw.drop 1).dropLast else raw
  if r.all validCookieValueByte then some r else none

theorem cookie_roundtrip_plain (v : List Nat) (h : ∀ c ∈ v, cookiePlain c = true) :
    sanitizeCookieValue v = v ∧ parseCookieValue v = some v := by
  have hvalid : ∀ c ∈ v, validCookieValueByte c = true := by
    intro c hc; have := h c hc; simp [cookiePlain] at this; exact this.1.1
  have hfil : v.filter validCookieValueByte = v := List.filter_eq_self.2 hvalid
  have hany : v.any (fun c => c == 0x20 || c == 0x2c) = false := by
    rw [List.any_eq_false]
    intro c hc; have := h c hc; simp [cookiePlain] at this; simp [this.1.2, this.2]
  refine ⟨by simp [sanitizeCookieValue, hfil, hany], ?_⟩
  have hhead : (v.head? == some 0x22) = false := by
    cases v with
    | nil => rfl
    | cons a t =>
      have := h a (by simp)
      simp [cookiePlain, validCookieValueByte] at this
      simp; omega
  have hall : v.all validCookieValueByte = true := List.all_eq_true.2 hvalid
  simp [parseCookieValue, hhead, hall]

/-! ## generateSessionID -/

def symChar : Sym → Char
  | .d n => b64char n
  | .pad => '='

/-- `base64.StdEncoding.EncodeToString(b)` for the byte list `b` (values < 256). -/
def sessionIDString (bytes : List Nat) : String := String.ofList ((encode bytes).map symChar)

theorem sessionIDString_toList (bs : List Nat) : (sessionIDString bs).toList = (encode bs).map symChar :=
  String.toList_ofList

theorem sessionIDString_length_gen (bs : List Nat) : (sessionIDString bs).length = 4 * ((bs.length + 2) / 3) := by
  simp [sessionIDString, String.length_ofList, encode_length]

/-- C19: 16 bytes give exactly 24 characters. -/
theorem sessionIDString_length (bs : List Nat) (h : bs.length = 16) : (sessionIDString bs).length = 24 := by
  rw [sessionIDString_length_gen, h]
example : (sessionIDString (List.range 16)).length = 24 := sessionIDString_length _ (by decide)
/-- test vector recorded from the real Go `generateSessionID` with `rand.Reader` replaced by these bytes. -/
example : sessionIDString [250, 251, 252, 253, 254, 255, 0, 1, 2, 3, 63, 62, 61, 127, 128, 129] = "+vv8/f7/AAECAz8+PX+AgQ==" := by decide

theorem symChar_injective (s t : Sym) (hs : ∀ n, s = .d n → n < 64) (ht : ∀ n, t = .d n → n < 64)
    (h : symChar s = symChar t) : s = t := by
  cases s with
  | d n =>
    cases t with
    | d m => rw [b64char_injective n m (hs n rfl) (ht m rfl) h]
    | pad =>
      have := congrArg Char.toNat h
      simp only [symChar, b64char_toNat] at this
      exact absurd this (b64code_ne_pad n)
  | pad =>
    cases t with
    | d m =>
      have := congrArg Char.toNat h
      simp only [symChar, b64char_toNat] at this
      exact absurd this.symm (b64code_ne_pad m)
    | pad => rfl

theorem map_symChar_injective (l l' : List Sym) (hl : ∀ n, Sym.d n ∈ l → n < 64) (hl' : ∀ n, Sym.d n ∈ l' → n < 64)
    (h : l.map symChar = l'.map symChar) : l = l' := by
  induction l generalizing l' with
  | nil => cases l' with
    | nil => rfl
    | cons _ _ => simp at h
  | cons a t ih =>
    cases l' with
    | nil => simp at h
    | cons a' t' =>
      simp only [List.map_cons, List.cons.injEq] at h
      have ha : a = a' := symChar_injective a a' (fun n hn => hl n (by simp [hn])) (fun n hn => hl' n (by simp [hn])) h.1
      have ht := ih t' (fun n hn => hl n (by simp [hn])) (fun n hn => hl' n (by simp [hn])) h.2
      rw [ha, ht]

/-- C19: the text is an injective function of the bytes (no length hypothesis needed): the ID carries
    exactly the 128 bits read from the CSPRNG, so it is as unbiased as they are. -/
theorem sessionIDString_injective (bs bs' : List Nat) (h : Bytes bs) (h' : Bytes bs')
    (he : sessionIDString bs = sessionIDString bs') : bs = bs' := by
  have := String.ofList_injective he
  exact encode_injective bs bs' h h'
    (map_symChar_injective _ _ (encode_digits_lt bs h) (encode_digits_lt bs' h') this)
example : Bytes (List.range 16) := by unfold Bytes; decide

theorem symChar_plain (s : Sym) : cookiePlain (symChar s).toNat = true := by
  cases s with
  | d n => simp only [symChar, b64char_toNat]; exact b64code_plain n
  | pad => decide

/-- C19: every character of a session ID is a valid cookie-value byte and is neither space nor comma. -/
theorem sessionIDString_cookieSafe (bs : List Nat) : ∀ c ∈ (sessionIDString bs).toList, cookiePlain c.toNat = true := by
  intro c hc
  rw [sessionIDString_toList, List.mem_map] at hc
  obtain ⟨s, _, rfl⟩ := hc
  exact symChar_plain s

/-- C19: Set-Cookie writes the value unchanged (nothing dropped, no quotes) and the Cookie parser returns it unchanged. -/
theorem sessionIDString_cookie_roundtrip (bs : List Nat) :
    let v := (sessionIDString bs).toList.map Char.toNat
    sanitizeCookieValue v = v ∧ parseCookieValue (sanitizeCookieValue v) = some v := by
  intro v
  have h : ∀ c ∈ v, cookiePlain c = true := by
    intro c hc
    simp only [v, List.mem_map] at hc
    obtain ⟨ch, hch, rfl⟩ := hc
    exact sessionIDString_cookieSafe bs ch hch
  have := cookie_roundtrip_plain v h
  exact ⟨this.1, by rw [this.1]; exact this.2⟩

/-! ## RandomID -/

/-- `RandomID(n)` given the `n` bytes in the order they were read: byte `i` lands at position `n-1-i`. -/
def randomIDString (bytes : List Nat) : String := String.ofList ((randomID bytes).map b62char)

/-- the Go loop, literally: `id` is the buffer, `length` the remaining count, one byte consumed per round. -/
def randomIDLoop : (length : Nat) → (id : List Char) → (bytes : List Nat) → List Char
  | 0, id, _ => id
  | _ + 1, id, [] => id            -- reader exhausted (Go returns an error; not reached when enough bytes are supplied)
  | length + 1, id, b :: rest => randomIDLoop length (id.set length (b62char (b % 62))) rest

theorem randomIDLoop_eq (bytes : List Nat) (pre suf : List Char) (hpre : pre.length = bytes.length) :
    randomIDLoop bytes.length (pre ++ suf) bytes = (bytes.map (fun b => b62char (b % 62))).reverse ++ suf := by
  induction bytes generalizing pre suf with
  | nil => simp at hpre; simp [randomIDLoop, hpre]
  | cons b rest ih =>
    simp only [List.length_cons, randomIDLoop]
    have hne : pre ≠ [] := by intro h; simp [h] at hpre
    obtain ⟨pre', x, rfl⟩ : ∃ p x, pre = p ++ [x] := ⟨pre.dropLast, pre.getLast hne, (List.dropLast_concat_getLast hne).symm⟩
    have hlen : pre'.length = rest.length := by simpa using hpre
    have hset : (pre' ++ [x] ++ suf).set rest.length (b62char (b % 62)) = pre' ++ (b62char (b % 62) :: suf) := by
      rw [List.append_assoc, ← hlen, List.set_append_right _ _ (Nat.le_refl _)]
      simp
    rw [hset, ih pre' _ hlen]
    simp

/-- the functional definition is what the Go loop leaves in the buffer `make([]byte, n)`. -/
theorem randomIDString_eq_loop (bytes : List Nat) :
    randomIDString bytes = String.ofList (randomIDLoop bytes.length (List.replicate bytes.length (Char.ofNat 0)) bytes) := by
  have := randomIDLoop_eq bytes (List.replicate bytes.length (Char.ofNat 0)) [] (by simp)
  rw [List.append_nil, List.append_nil] at this
  rw [this]
  simp [randomIDString, randomID, List.map_reverse, Function.comp_def]

/-- C19: exactly `n` characters, for every `n ≥ 0`. -/
theorem randomIDString_length (bytes : List Nat) : (randomIDString bytes).length = bytes.length := by
  simp [randomIDString, String.length_ofList, randomID_length]

def chars62 : List Char := "0123456789ABCDEFGHIJKLMNOPQRSTUVWXYZabcdefghijklmnopqrstuvwxyz".toList

/-- C19: every character is one of the 62 symbols. -/
theorem randomIDString_alphabet (bytes : List Nat) : ∀ c ∈ (randomIDString bytes).toList, c ∈ chars62 := by
  intro c hc
  simp only [randomIDString, String.toList_ofList, List.mem_map] at hc
  obtain ⟨i, hi, rfl⟩ := hc
  have hlt := randomID_lt bytes i hi
  unfold chars62
  rw [← b62char_eq_chars]
  exact List.mem_map.2 ⟨i, List.mem_range.2 hlt, rfl⟩

/-- C19: every one of the 62 symbols is produced by some byte value. -/
theorem randomIDString_onto : ∀ c ∈ chars62, ∃ b, b < 256 ∧ randomIDString [b] = String.ofList [c] := by
  intro c hc
  unfold chars62 at hc
  rw [← b62char_eq_chars, List.mem_map] at hc
  obtain ⟨i, hi, rfl⟩ := hc
  have hi := List.mem_range.1 hi
  refine ⟨i, by omega, ?_⟩
  simp [randomIDString, randomID, Nat.mod_eq_of_lt hi]

/-- first byte read is the LAST character (test vector recorded from the real Go `RandomID(4)`). -/
example : randomIDString [0, 61, 62, 255] = "70z0" := by decide

end Ids
