import Sessions.Ids.Strings
/-! C19, CUID: the Go function as a computable pure state transformer (uint64 / uint16 wrap-around modelled
with `%`), its base-62 rendering, and the sequence-level uniqueness / ordering theorems over the state machine
`(lastTime, lastCounter)`. The mutex serialises callers, so "any number of concurrent callers" is "any
sequence of calls"; the clock readings are the inputs. Core Lean only, all definitions computable. -/
namespace Ids

/-! ## timestamp and MAC hash -/

/-- `referenceDate` of ids.go. -/
def referenceDate : Nat := 1483228800000

/-- `timestamp := uint64(now.Unix())*1000 - referenceDate + uint64(now.Nanosecond())/1000000; timestamp &= 1<<40 - 1`
    with every uint64 operation wrapping mod 2^64 (18446744073709551616). `unixSec` is `now.Unix()` (≥ 0). -/
def cuidTimestamp (unixSec nanos : Nat) : Nat :=
  let u := unixSec % 18446744073709551616
  let a := (u * 1000) % 18446744073709551616
  let b := (a + (18446744073709551616 - 1483228800000)) % 18446744073709551616
  let c := (b + (nanos % 18446744073709551616) / 1000000) % 18446744073709551616
  c &&& (2 ^ 40 - 1)

/-- after the reference date and without overflow (any date up to year 584 million) this is the plain formula mod 2^40. -/
theorem cuidTimestamp_eq (unixSec nanos : Nat) (h : referenceDate ≤ unixSec * 1000)
    (hu : unixSec * 1000 + 1000 ≤ 18446744073709551616) (hn : nanos < 1000000000) :
    cuidTimestamp unixSec nanos = (unixSec * 1000 - referenceDate + nanos / 1000000) % 2 ^ 40 := by
  unfold cuidTimestamp referenceDate at *
  simp only [Nat.and_two_pow_sub_one_eq_mod]
  have hk : (18446744073709551616 : Nat) - 1483228800000 = 18446742590480751616 := by decide
  have h3 : (unixSec * 1000 + (18446744073709551616 - 1483228800000)) % 18446744073709551616
      = unixSec * 1000 - 1483228800000 := by rw [hk]; clear hk; omega
  have h5 : (unixSec * 1000 - 1483228800000 + nanos / 1000000) % 18446744073709551616
      = unixSec * 1000 - 1483228800000 + nanos / 1000000 := Nat.mod_eq_of_lt (by omega)
  have h1 : unixSec % 18446744073709551616 = unixSec := Nat.mod_eq_of_lt (by omega)
  have h2 : unixSec * 1000 % 18446744073709551616 = unixSec * 1000 := Nat.mod_eq_of_lt (by omega)
  have h4 : nanos % 18446744073709551616 = nanos := Nat.mod_eq_of_lt (by omega)
  rw [h1, h2, h3, h4, h5]
example : cuidTimestamp 1790000000 123456789 = 306771200123 := by decide
example : referenceDate ≤ 1790000000 * 1000 ∧ 1790000000 * 1000 + 1000 ≤ 18446744073709551616 := by decide

/-- before the reference date the uint64 subtraction wraps, and the mask keeps the low 40 bits of the wrapped value. -/
example : cuidTimestamp 0 0 = 715794455552 := by decide
/-- the last millisecond before the reference date, the first one, and the first one of the next 2^40-ms epoch
    (where the sortable range of C19 ends); all values cross-checked against the Go expression. -/
example : cuidTimestamp 1483228799 999999999 = 1099511627775 ∧ cuidTimestamp 1483228800 0 = 0
    ∧ cuidTimestamp (1483228800 + 1099511627) 776000000 = 0 := by decide

theorem cuidTimestamp_lt (unixSec nanos : Nat) : cuidTimestamp unixSec nanos < 2 ^ 40 := by
  unfold cuidTimestamp
  simp only [Nat.and_two_pow_sub_one_eq_mod]
  exact Nat.mod_lt _ (by decide)

/-- one round of `macHash = (macHash << 5) - macHash; macHash += uint16(b)` on uint16. -/
def macHashStep (h b : Nat) : Nat := (((h * 32) % 65536 + 65536 - h % 65536) % 65536 + b % 65536) % 65536

/-- the 16-bit hash of the MAC address bytes. -/
def macHash (mac : List Nat) : Nat := mac.foldl macHashStep 0

/-- the loop is `h * 31 + b` mod 2^16. -/
theorem macHashStep_eq (h b : Nat) : macHashStep h b = (h * 31 + b) % 65536 := by
  unfold macHashStep; omega

theorem macHash_lt (mac : List Nat) : macHash mac < 65536 := by
  unfold macHash
  have : ∀ h, h < 65536 → List.foldl macHashStep h mac < 65536 := by
    induction mac with
    | nil => intro h hh; exact hh
    | cons b t ih => intro h _; exact ih _ (by unfold macHashStep; omega)
  exact this 0 (by decide)
example : macHash [0x00, 0x1b, 0x21, 0x3c, 0x4d, 0x5e] = 26055 := by decide

/-! ## bit assembly -/

/-- `bits := (timestamp << 24) | (mac << 8) | counter` exactly as the Go code computes it from the new `lastCounter = c`. -/
def cuidBitsGo (ms macHash c : Nat) : Nat :=
  let counter := c &&& 0xff
  let spill := c >>> 8
  let mh := if spill != 0 then (macHash + (spill &&& 0xffff)) % 65536 else macHash
  ((ms <<< 24) % 18446744073709551616) ||| (mh <<< 8) ||| counter

/-- the arithmetic form used by the abstract spike (`cuid_fields`, `cuid_counter_injective`, `cuid_later_larger`). -/
def cuidBits (ms mac c : Nat) : Nat := ms * 16777216 + ((mac + c / 256) % 65536) * 256 + c % 256

/-- the `|` of the three fields is their sum (they do not overlap), shifts are multiplications, masks are `%`. -/
theorem cuidBitsGo_eq (ms mac c : Nat) (hms : ms < 2 ^ 40) (hmac : mac < 65536) :
    cuidBitsGo ms mac c = cuidBits ms mac c := by
  unfold cuidBitsGo cuidBits
  have h40 : (2 : Nat) ^ 40 = 1099511627776 := by decide
  have hff : (0xff : Nat) = 2 ^ 8 - 1 := by decide
  have hffff : (0xffff : Nat) = 2 ^ 16 - 1 := by decide
  simp only [hff, hffff, Nat.and_two_pow_sub_one_eq_mod, Nat.shiftRight_eq_div_pow]
  have h8 : (2 : Nat) ^ 8 = 256 := by decide
  have h16 : (2 : Nat) ^ 16 = 65536 := by decide
  rw [h8, h16]
  have hmh : (if (c / 256 != 0) = true then (mac + c / 256 % 65536) % 65536 else mac) = (mac + c / 256) % 65536 := by
    split
    · omega
    · rename_i h; simp at h; omega
  rw [hmh]
  have hnowrap : (ms <<< 24) % 18446744073709551616 = ms <<< 24 := by
    rw [Nat.shiftLeft_eq]; apply Nat.mod_eq_of_lt; omega
  rw [hnowrap, Nat.or_assoc]
  have hc : c % 256 < 2 ^ 8 := by omega
  rw [← Nat.shiftLeft_add_eq_or_of_lt hc]
  have hlow : ((mac + c / 256) % 65536) <<< 8 + c % 256 < 2 ^ 24 := by
    rw [Nat.shiftLeft_eq]; omega
  rw [← Nat.shiftLeft_add_eq_or_of_lt hlow]
  simp only [Nat.shiftLeft_eq]
  omega

example : (307181294574 : Nat) < 2 ^ 40 ∧ (26055 : Nat) < 65536
    ∧ cuidBitsGo 307181294574 26055 70001 = cuidBits 307181294574 26055 70001 := by decide

theorem cuidBits_lt (ms mac c : Nat) (hms : ms < 2 ^ 40) : cuidBits ms mac c < 2 ^ 64 := by
  unfold cuidBits
  have h40 : (2 : Nat) ^ 40 = 1099511627776 := by decide
  have h64 : (2 : Nat) ^ 64 = 18446744073709551616 := by decide
  omega

/-! ## base-62 rendering -/

/-- the Go loop `for len := 0; len < 11; len++ { s = string(chars[bits%62]) + s; bits /= 62 }`:
    least significant digit first, each prepended. -/
def b62loop : Nat → Nat → List Char → List Char
  | 0, _, acc => acc
  | k + 1, bits, acc => b62loop k (bits / 62) (b62char (bits % 62) :: acc)

def cuidRender (bits : Nat) : String := String.ofList (b62loop 11 bits [])

theorem digitsMS_snoc (b w m : Nat) (hb : 0 < b) (hm : m < b ^ (w + 1)) :
    digitsMS b (w + 1) m = digitsMS b w (m / b) ++ [m % b] := by
  induction w generalizing m with
  | zero => simp at hm; simp [digitsMS, Nat.mod_eq_of_lt hm]
  | succ w ih =>
    rw [digitsMS, ih (m % b ^ (w + 1)) (Nat.mod_lt _ (Nat.pow_pos hb))]
    conv => rhs; rw [digitsMS]
    have h1 : m / b / b ^ w = m / b ^ (w + 1) := by
      rw [Nat.div_div_eq_div_mul, Nat.pow_succ, Nat.mul_comm]
    have h2 : m % b ^ (w + 1) / b = m / b % b ^ w := by
      rw [Nat.pow_succ, Nat.mul_comm, Nat.mod_mul_right_div_self]
    have h3 : m % b ^ (w + 1) % b = m % b := by
      apply Nat.mod_mod_of_dvd
      rw [Nat.pow_succ]; exact Nat.dvd_mul_left _ _
    rw [h1, h2, h3]
    simp

/-- the least-significant-first loop yields the most-significant-first rendering of the low `k` digits. -/
theorem b62loop_eq (k n : Nat) (acc : List Char) :
    b62loop k n acc = (digitsMS 62 k (n % 62 ^ k)).map b62char ++ acc := by
  induction k generalizing n acc with
  | zero => simp [b62loop, digitsMS]
  | succ k ih =>
    rw [b62loop, ih, digitsMS_snoc 62 k _ (by decide) (Nat.mod_lt _ (Nat.pow_pos (by decide)))]
    have h2 : n % 62 ^ (k + 1) / 62 = n / 62 % 62 ^ k := by
      rw [Nat.pow_succ, Nat.mul_comm, Nat.mod_mul_right_div_self]
    have h3 : n % 62 ^ (k + 1) % 62 = n % 62 := by
      apply Nat.mod_mod_of_dvd
      rw [Nat.pow_succ]; exact Nat.dvd_mul_left _ _
    rw [h2, h3]
    simp

/-- for 64-bit values nothing is truncated (`fits`): the string is the 11-digit rendering used in `digitsMS_lt`. -/
theorem cuidRender_eq (bits : Nat) (h : bits < 2 ^ 64) :
    cuidRender bits = String.ofList ((digitsMS 62 11 bits).map b62char) := by
  unfold cuidRender
  rw [b62loop_eq, List.append_nil, Nat.mod_eq_of_lt (Nat.lt_trans h fits)]

theorem digitsMS_digit_lt (b w n : Nat) (hb : 0 < b) (hn : n < b ^ w) : ∀ d ∈ digitsMS b w n, d < b := by
  induction w generalizing n with
  | zero => intro d hd; simp [digitsMS] at hd
  | succ w ih =>
    intro d hd
    simp only [digitsMS, List.mem_cons] at hd
    have hpos : 0 < b ^ w := Nat.pow_pos hb
    rcases hd with rfl | hd
    · rw [Nat.div_lt_iff_lt_mul hpos, Nat.mul_comm, ← Nat.pow_succ]; exact hn
    · exact ih _ (Nat.mod_lt _ hpos) d hd

/-- character order on ordered digits is numeric order: lexicographic `<` is preserved by the rendering. -/
theorem map_b62char_lt (l₁ l₂ : List Nat) (h₂ : ∀ d ∈ l₂, d < 62) (h : l₁ < l₂) :
    l₁.map b62char < l₂.map b62char := by
  induction l₁ generalizing l₂ with
  | nil =>
    cases l₂ with
    | nil => exact absurd h (List.lt_irrefl _)
    | cons b t => simp
  | cons a s ih =>
    cases l₂ with
    | nil => simp at h
    | cons b t =>
      simp only [List.map_cons]
      rw [List.cons_lt_cons_iff] at h ⊢
      rcases h with h | ⟨rfl, h⟩
      · exact Or.inl (b62char_lt a b (h₂ b (by simp)) h)
      · exact Or.inr ⟨rfl, ih t (fun d hd => h₂ d (by simp [hd])) h⟩

/-- C19 (order): on 64-bit values, numeric `<` is `String` `<` of the CUID text. -/
theorem cuidRender_lt (n m : Nat) (hm : m < 2 ^ 64) (h : n < m) : cuidRender n < cuidRender m := by
  have hm' : m < 62 ^ 11 := Nat.lt_trans hm fits
  rw [cuidRender_eq n (Nat.lt_trans h hm), cuidRender_eq m hm, String.lt_iff, String.toList_ofList, String.toList_ofList]
  exact map_b62char_lt _ _ (digitsMS_digit_lt 62 11 m (by decide) hm') (digitsMS_lt 62 11 n m (by decide) hm' h)
example : cuidRender 61 < cuidRender 62 := by decide

theorem cuidRender_injective (n m : Nat) (hn : n < 2 ^ 64) (hm : m < 2 ^ 64) (h : cuidRender n = cuidRender m) : n = m := by
  rcases Nat.lt_trichotomy n m with hlt | heq | hgt
  · have := cuidRender_lt n m hm hlt; rw [h] at this; exact absurd this (String.lt_irrefl _)
  · exact heq
  · have := cuidRender_lt m n hn hgt; rw [h] at this; exact absurd this (String.lt_irrefl _)

theorem b62loop_length (k n : Nat) (acc : List Char) : (b62loop k n acc).length = k + acc.length := by
  induction k generalizing n acc with
  | zero => simp [b62loop]
  | succ k ih => rw [b62loop, ih]; simp; omega

/-- C19: 11 characters, whatever the 64-bit value. -/
theorem cuidRender_length (bits : Nat) : (cuidRender bits).length = 11 := by
  simp [cuidRender, String.length_ofList, b62loop_length]

/-- C19: all characters are base-62 symbols. -/
theorem cuidRender_alphabet (bits : Nat) : ∀ c ∈ (cuidRender bits).toList, c ∈ chars62 := by
  intro c hc
  simp only [cuidRender, String.toList_ofList, b62loop_eq, List.append_nil, List.mem_map] at hc
  obtain ⟨d, hd, rfl⟩ := hc
  have hlt := digitsMS_digit_lt 62 11 _ (by decide) (Nat.mod_lt bits (by decide : 0 < 62 ^ 11)) d hd
  unfold chars62
  rw [← b62char_eq_chars]
  exact List.mem_map.2 ⟨d, List.mem_range.2 hlt, rfl⟩

/-! ## the state transformer -/

/-- `CUID()` as a pure function of the state `(lastTime, lastCounter)`, the masked 40-bit timestamp `ms`
    (= `cuidTimestamp now.Unix() now.Nanosecond()`) and the 16-bit MAC hash (= `macHash macAddress`).
    Returns `(text, lastTime', lastCounter')`. `lastCounter++` wraps mod 2^64. -/
def cuidStep (lastTime lastCounter ms macHash : Nat) : String × Nat × Nat :=
  let c := if ms = lastTime then (lastCounter + 1) % 18446744073709551616 else 0
  (cuidRender (cuidBitsGo ms macHash c), ms, c)

/-- the strings of a sequence of calls with clock readings `l`, starting from state `(lastTime, lastCounter)`. -/
def cuidRun (macHash : Nat) : Nat → Nat → List Nat → List String
  | _, _, [] => []
  | lt, lc, ms :: rest =>
    let r := cuidStep lt lc ms macHash
    r.1 :: cuidRun macHash r.2.1 r.2.2 rest

/-- every returned string has 11 base-62 characters — no hypothesis on state or inputs at all. -/
theorem cuidStep_length (lt lc ms mac : Nat) : (cuidStep lt lc ms mac).1.length = 11 := cuidRender_length _
theorem cuidStep_alphabet (lt lc ms mac : Nat) : ∀ c ∈ (cuidStep lt lc ms mac).1.toList, c ∈ chars62 := cuidRender_alphabet _

/-! ### the counter trace (un-wrapped counters) -/

def nextCounter (lt lc ms : Nat) : Nat := if ms = lt then lc + 1 else 0

/-- `(ms, lastCounter-after-the-call)` for each call. -/
def trace : Nat → Nat → List Nat → List (Nat × Nat)
  | _, _, [] => []
  | lt, lc, ms :: rest => (ms, nextCounter lt lc ms) :: trace ms (nextCounter lt lc ms) rest

theorem trace_map_fst (lt lc : Nat) (l : List Nat) : (trace lt lc l).map Prod.fst = l := by
  induction l generalizing lt lc with
  | nil => rfl
  | cons ms rest ih => simp [trace, ih]

theorem trace_mem_fst (lt lc : Nat) (l : List Nat) (p : Nat × Nat) (hp : p ∈ trace lt lc l) : p.1 ∈ l := by
  rw [← trace_map_fst lt lc l]; exact List.mem_map.2 ⟨p, hp, rfl⟩

/-- counters never exceed the number of calls with the same reading (plus the carried-in counter). -/
theorem trace_bound (lt lc : Nat) (l : List Nat) (p : Nat × Nat) (hp : p ∈ trace lt lc l) :
    p.2 + 1 ≤ (if p.1 = lt then lc + 1 else 0) + l.count p.1 := by
  induction l generalizing lt lc with
  | nil => simp [trace] at hp
  | cons ms rest ih =>
    simp only [trace, List.mem_cons] at hp
    rcases hp with rfl | hp
    · simp only [nextCounter, List.count_cons_self]
      split <;> omega
    · have := ih ms (nextCounter lt lc ms) hp
      rw [List.count_cons]
      unfold nextCounter at this
      by_cases h1 : p.1 = ms
      · subst h1
        simp only [↓reduceIte, beq_self_eq_true] at this ⊢
        split at this <;> simp_all <;> omega
      · have h2 : (ms == p.1) = false := by simp; omega
        simp only [h1, ↓reduceIte, h2] at this ⊢
        split <;> simp_all <;> omega

/-- while the clock does not step backwards, a repeated reading gets a strictly larger counter. -/
theorem trace_gt (lt lc : Nat) (l : List Nat) (hs : l.Pairwise (· ≤ ·)) (hge : ∀ x ∈ l, lt ≤ x)
    (p : Nat × Nat) (hp : p ∈ trace lt lc l) (he : p.1 = lt) : lc < p.2 := by
  induction l generalizing lt lc with
  | nil => simp [trace] at hp
  | cons ms rest ih =>
    rw [List.pairwise_cons] at hs
    simp only [trace, List.mem_cons] at hp
    rcases hp with rfl | hp
    · simp only [nextCounter] at he ⊢; simp [he]
    · have hmem := trace_mem_fst _ _ _ _ hp
      have h1 : ms ≤ p.1 := hs.1 _ hmem
      have h2 : lt ≤ ms := hge ms (by simp)
      have hms : ms = lt := by omega
      have := ih ms (nextCounter lt lc ms) hs.2 hs.1 hp (by omega)
      simp only [nextCounter, hms, ↓reduceIte] at this
      omega

/-- lexicographic order on `(ms, counter)`. -/
def CLt (p q : Nat × Nat) : Prop := p.1 < q.1 ∨ (p.1 = q.1 ∧ p.2 < q.2)

/-- the trace is strictly increasing in `(ms, counter)`. -/
theorem trace_pairwise (lt lc : Nat) (l : List Nat) (hs : l.Pairwise (· ≤ ·)) :
    (trace lt lc l).Pairwise CLt := by
  induction l generalizing lt lc with
  | nil => simp [trace]
  | cons ms rest ih =>
    rw [List.pairwise_cons] at hs
    simp only [trace, List.pairwise_cons]
    refine ⟨?_, ih _ _ hs.2⟩
    intro q hq
    have hmem := trace_mem_fst _ _ _ _ hq
    have h1 : ms ≤ q.1 := hs.1 _ hmem
    by_cases he : q.1 = ms
    · exact Or.inr ⟨he.symm, trace_gt ms _ rest hs.2 hs.1 q hq he⟩
    · exact Or.inl (by simp only; omega)

/-- as long as no counter reaches 2^64 the Go state machine follows the un-wrapped trace. -/
theorem cuidRun_eq_trace (mac lt lc : Nat) (l : List Nat) (hmac : mac < 65536) (hms : ∀ ms ∈ l, ms < 2 ^ 40)
    (hc : ∀ p ∈ trace lt lc l, p.2 < 18446744073709551616) :
    cuidRun mac lt lc l = (trace lt lc l).map (fun p => cuidRender (cuidBits p.1 mac p.2)) := by
  induction l generalizing lt lc with
  | nil => rfl
  | cons ms rest ih =>
    have hc0 := hc (ms, nextCounter lt lc ms) (by simp [trace])
    have hcnt : (if ms = lt then (lc + 1) % 18446744073709551616 else 0) = nextCounter lt lc ms := by
      unfold nextCounter at hc0 ⊢
      split
      · rename_i h; simp only [h, ↓reduceIte] at hc0; exact Nat.mod_eq_of_lt hc0
      · rfl
    simp only [cuidRun, cuidStep, trace, List.map_cons, hcnt]
    rw [cuidBitsGo_eq ms mac _ (hms ms (by simp)) hmac,
      ih ms _ (fun m hm => hms m (by simp [hm])) (fun p hp => hc p (by simp [trace, hp]))]

/-! ### C19, sequence level -/

/-- admissible clock readings of one process: never stepping backwards, inside one 2^40-ms epoch,
    and fewer than 2^24 calls within any single millisecond. -/
structure CuidInput (l : List Nat) : Prop where
  sorted : l.Pairwise (· ≤ ·)
  lt40 : ∀ ms ∈ l, ms < 2 ^ 40
  few : ∀ ms ∈ l, l.count ms < 2 ^ 24

/-- non-vacuity: repeated readings, a gap, and the special reading 0 (which equals the initial `lastTime`). -/
example : CuidInput [0, 0, 5, 5, 5, 7, 1099511627775] := by
  refine ⟨by decide, by decide, by decide⟩

theorem trace_counter_lt (l : List Nat) (h : CuidInput l) : ∀ p ∈ trace 0 0 l, p.2 < 2 ^ 24 := by
  intro p hp
  have hb := trace_bound 0 0 l p hp
  have hf := h.few p.1 (trace_mem_fst _ _ _ _ hp)
  split at hb <;> omega

theorem cuidRun_eq (mac : Nat) (hmac : mac < 65536) (l : List Nat) (h : CuidInput l) :
    cuidRun mac 0 0 l = (trace 0 0 l).map (fun p => cuidRender (cuidBits p.1 mac p.2)) := by
  apply cuidRun_eq_trace mac 0 0 l hmac h.lt40
  intro p hp
  have := trace_counter_lt l h p hp
  have h24 : (2 : Nat) ^ 24 = 16777216 := by decide
  omega

theorem cuidRun_length (mac lt lc : Nat) (l : List Nat) : (cuidRun mac lt lc l).length = l.length := by
  induction l generalizing lt lc with
  | nil => rfl
  | cons ms rest ih => simp [cuidRun, ih]

/-- C19: every value returned in a process has 11 characters from the 62-symbol alphabet (unconditionally). -/
theorem cuidRun_wellformed (mac lt lc : Nat) (l : List Nat) :
    ∀ s ∈ cuidRun mac lt lc l, s.length = 11 ∧ ∀ c ∈ s.toList, c ∈ chars62 := by
  induction l generalizing lt lc with
  | nil => intro s hs; simp [cuidRun] at hs
  | cons ms rest ih =>
    intro s hs
    simp only [cuidRun, List.mem_cons] at hs
    rcases hs with rfl | hs
    · exact ⟨cuidStep_length _ _ _ _, cuidStep_alphabet _ _ _ _⟩
    · exact ih _ _ s hs

/-- strictly `(ms, counter)`-increasing pairs with counters below 2^24 give strictly different 64-bit values;
    with a later `ms` a strictly larger one (the spill into the MAC field cannot reach the timestamp). -/
theorem cuidBits_of_CLt (mac : Nat) (p q : Nat × Nat) (hp : p.2 < 2 ^ 24) (hq : q.2 < 2 ^ 24) (h : CLt p q) :
    cuidBits p.1 mac p.2 ≠ cuidBits q.1 mac q.2 ∧ (p.1 < q.1 → cuidBits p.1 mac p.2 < cuidBits q.1 mac q.2) := by
  have h24 : (2 : Nat) ^ 24 = 16777216 := by decide
  rw [h24] at hp hq
  constructor
  · rcases h with h | ⟨h1, h2⟩
    · exact Nat.ne_of_lt (cuid_later_larger mac p.1 q.1 p.2 q.2 h)
    · intro he
      rw [h1] at he
      have := cuid_counter_injective mac q.1 p.2 q.2 hp hq he
      omega
  · intro h; exact cuid_later_larger mac p.1 q.1 p.2 q.2 h

/--
**C19 `cuid_unique`.** For every 16-bit MAC hash and every admissible sequence of clock readings, the strings
returned by the successive calls of one process (initial state `lastTime = lastCounter = 0`) are pairwise distinct.
-/
theorem cuid_unique (mac : Nat) (hmac : mac < 65536) (l : List Nat) (h : CuidInput l) :
    (cuidRun mac 0 0 l).Nodup := by
  rw [cuidRun_eq mac hmac l h, List.nodup_iff_pairwise_ne, List.pairwise_map]
  have hpw := trace_pairwise 0 0 l h.sorted
  have hlt := trace_counter_lt l h
  -- strengthen Pairwise with the membership facts
  have : (trace 0 0 l).Pairwise (fun p q => p ∈ trace 0 0 l ∧ q ∈ trace 0 0 l ∧ CLt p q) := by
    rw [List.pairwise_iff_getElem] at hpw ⊢
    intro i j hi hj hij
    exact ⟨List.getElem_mem hi, List.getElem_mem hj, hpw i j hi hj hij⟩
  refine this.imp ?_
  intro p q ⟨hp, hq, hclt⟩ heq
  have hb := cuidBits_of_CLt mac p q (hlt p hp) (hlt q hq) hclt
  have hms_p := h.lt40 p.1 (trace_mem_fst _ _ _ _ hp)
  have hms_q := h.lt40 q.1 (trace_mem_fst _ _ _ _ hq)
  exact hb.1 (cuidRender_injective _ _ (cuidBits_lt _ _ _ hms_p) (cuidBits_lt _ _ _ hms_q) heq)
example : (cuidRun 26055 0 0 [0, 0, 5, 5, 5, 7, 1099511627775]).Nodup := by decide

theorem getElem?_map_fst_trace (lt lc : Nat) (l : List Nat) (i : Nat) :
    ((trace lt lc l)[i]?).map Prod.fst = l[i]? := by
  rw [← List.getElem?_map, trace_map_fst]

/--
**C19 `cuid_sorted`.** In the same setting, a value generated at a strictly later millisecond reading is
`String`-greater than every value generated at an earlier one (`i < j` follows from `mi < mj` because readings
do not decrease).
-/
theorem cuid_sorted (mac : Nat) (hmac : mac < 65536) (l : List Nat) (h : CuidInput l)
    (i j mi mj : Nat) (si sj : String)
    (hmi : l[i]? = some mi) (hmj : l[j]? = some mj)
    (hsi : (cuidRun mac 0 0 l)[i]? = some si) (hsj : (cuidRun mac 0 0 l)[j]? = some sj)
    (hlt : mi < mj) : si < sj := by
  rw [cuidRun_eq mac hmac l h, List.getElem?_map] at hsi hsj
  cases hpi : (trace 0 0 l)[i]? with
  | none => rw [hpi] at hsi; simp at hsi
  | some p =>
    cases hqj : (trace 0 0 l)[j]? with
    | none => rw [hqj] at hsj; simp at hsj
    | some q =>
      rw [hpi] at hsi; rw [hqj] at hsj
      simp only [Option.map_some, Option.some.injEq] at hsi hsj
      have hp1 : p.1 = mi := by
        have := getElem?_map_fst_trace 0 0 l i; rw [hpi, hmi] at this; simpa using this
      have hq1 : q.1 = mj := by
        have := getElem?_map_fst_trace 0 0 l j; rw [hqj, hmj] at this; simpa using this
      obtain ⟨hi, hpi'⟩ := List.getElem?_eq_some_iff.1 hpi
      obtain ⟨hj, hqj'⟩ := List.getElem?_eq_some_iff.1 hqj
      have hpmem : p ∈ trace 0 0 l := hpi' ▸ List.getElem_mem hi
      have hqmem : q ∈ trace 0 0 l := hqj' ▸ List.getElem_mem hj
      have hcl := trace_counter_lt l h
      have hpw := List.pairwise_iff_getElem.1 (trace_pairwise 0 0 l h.sorted)
      have hij : i < j := by
        rcases Nat.lt_trichotomy i j with h1 | h1 | h1
        · exact h1
        · subst h1; rw [hpi] at hqj; cases hqj; omega
        · have := hpw j i hj hi h1
          rw [hpi', hqj'] at this
          rcases this with h2 | ⟨h2, _⟩ <;> omega
      have hclt : CLt p q := by have := hpw i j hi hj hij; rwa [hpi', hqj'] at this
      have hb := (cuidBits_of_CLt mac p q (hcl p hpmem) (hcl q hqmem) hclt).2 (by omega)
      rw [← hsi, ← hsj]
      exact cuidRender_lt _ _ (cuidBits_lt _ _ _ (h.lt40 q.1 (trace_mem_fst _ _ _ _ hqmem))) hb
example : (cuidRun 26055 0 0 [0, 0, 5, 5, 5, 7, 1099511627775]) =
    ["0000000RzBx", "0000000RzBy", "00000067xnE", "00000067xnF", "00000067xnG", "0000008Okpk", "LygHa15TsDw"] := by decide

/-- `cuid_sorted` instantiated: readings 0 < 5 (positions 1, 2) and 5 < 7 (positions 4, 5). -/
example : CuidInput [0, 0, 5, 5, 5, 7, 1099511627775] ∧
    (cuidRun 26055 0 0 [0, 0, 5, 5, 5, 7, 1099511627775])[1]! < (cuidRun 26055 0 0 [0, 0, 5, 5, 5, 7, 1099511627775])[2]! ∧
    (cuidRun 26055 0 0 [0, 0, 5, 5, 5, 7, 1099511627775])[4]! < (cuidRun 26055 0 0 [0, 0, 5, 5, 5, 7, 1099511627775])[5]! :=
  ⟨⟨by decide, by decide, by decide⟩, by decide, by decide⟩

/-- test vectors recorded from the real Go `CUID()` (MAC 00:1b:21:3c:4d:5e, state forced to `(ts, lc)`):
    plain increment, counter 255 → 256 (first spill), large spill, and counter 2^24 whose low 24 bits wrap. -/
example : cuidStep 307181294574 0 307181294574 (macHash [0x00, 0x1b, 0x21, 0x3c, 0x4d, 0x5e]) = ("68hkyHHAZO5", 307181294574, 1) := by decide
example : cuidStep 307181294574 255 307181294574 26055 = ("68hkyHHAZSC", 307181294574, 256) := by decide
example : cuidStep 307181294574 70000 307181294574 26055 = ("68hkyHHArb7", 307181294574, 70001) := by decide
example : cuidStep 307181294574 16777215 307181294574 26055 = ("68hkyHHAZO4", 307181294574, 16777216) := by decide
example : cuidStep 0 99 307181294574 26055 = ("68hkyHHAZO4", 307181294574, 0) := by decide

/-- the spill is real: counter 256 at one reading changes the MAC field, yet the value is still new. -/
example : (cuidStep 5 255 5 26055).2.2 = 256 ∧ (cuidStep 5 255 5 26055).1 ≠ (cuidStep 5 4 3 26055).1 := by decide

/-- the count bound is needed: 2^24 calls in one millisecond make counter 2^24 collide with counter 0. -/
example : cuidBits 5 26055 16777216 = cuidBits 5 26055 0 := by decide

end Ids
