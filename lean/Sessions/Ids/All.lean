import Sessions.Ids.Ids
import Sessions.Ids.Strings
import Sessions.Ids.Cuid
/-! C19: everything about ids.go (abstract spike, text-level functions, CUID state machine). -/
