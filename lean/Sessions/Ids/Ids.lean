/-! Spike: identifier functions of ids.go as pure functions, with the input-universal facts of C19. -/
namespace Ids

/-! ## base64.StdEncoding on byte lists (bytes as Nat < 256) -/
inductive Sym where
  | d (n : Nat)      -- a 6-bit digit
  | pad
deriving DecidableEq, Repr

def encode : List Nat → List Sym
  | a :: b :: c :: rest =>
      .d (a / 4) :: .d (a % 4 * 16 + b / 16) :: .d (b % 16 * 4 + c / 64) :: .d (c % 64) :: encode rest
  | [a, b] => [.d (a / 4), .d (a % 4 * 16 + b / 16), .d (b % 16 * 4), .pad]
  | [a] => [.d (a / 4), .d (a % 4 * 16), .pad, .pad]
  | [] => []

def decode : List Sym → Option (List Nat)
  | .d d0 :: .d d1 :: .d d2 :: .d d3 :: rest =>
      (decode rest).map (fun r => (d0 * 4 + d1 / 16) :: (d1 % 16 * 16 + d2 / 4) :: (d2 % 4 * 64 + d3) :: r)
  | [.d d0, .d d1, .d d2, .pad] => some [d0 * 4 + d1 / 16, d1 % 16 * 16 + d2 / 4]
  | [.d d0, .d d1, .pad, .pad] => some [d0 * 4 + d1 / 16]
  | [] => some []
  | _ => none

def Bytes (l : List Nat) : Prop := ∀ x ∈ l, x < 256

theorem decode_encode (bs : List Nat) (hb : Bytes bs) : decode (encode bs) = some bs := by
  induction bs using encode.induct with
  | case1 a b c rest ih =>
    have ha : a < 256 := hb a (by simp)
    have hbb : b < 256 := hb b (by simp)
    have hc : c < 256 := hb c (by simp)
    have hrest : Bytes rest := fun x hx => hb x (by simp [hx])
    simp only [encode, decode, ih hrest, Option.map_some]
    congr 2
    · omega
    · congr 1
      · omega
      · congr 1; omega
  | case2 a b =>
    have ha : a < 256 := hb a (by simp)
    have hbb : b < 256 := hb b (by simp)
    simp only [encode, decode]
    congr 2
    · omega
    · congr 1; omega
  | case3 a =>
    have ha : a < 256 := hb a (by simp)
    simp only [encode, decode]
    congr 2; omega
  | case4 => rfl

/-- the encoding is injective on byte strings: the id carries exactly the entropy of its 16 bytes. -/
theorem encode_injective (bs bs' : List Nat) (h : Bytes bs) (h' : Bytes bs') (he : encode bs = encode bs') : bs = bs' := by
  have := decode_encode bs h
  rw [he, decode_encode bs' h'] at this
  exact (Option.some.inj this).symm

theorem encode_length (bs : List Nat) : (encode bs).length = 4 * ((bs.length + 2) / 3) := by
  induction bs using encode.induct with
  | case1 a b c rest ih => simp only [encode, List.length_cons, ih]; omega
  | case2 a b => simp [encode]
  | case3 a => simp [encode]
  | case4 => simp [encode]

/-- generateSessionID: 16 bytes give exactly 24 symbols. -/
theorem sessionID_length (bs : List Nat) (h : bs.length = 16) : (encode bs).length = 24 := by
  rw [encode_length, h]

theorem encode_digits_lt (bs : List Nat) (hb : Bytes bs) : ∀ n, Sym.d n ∈ encode bs → n < 64 := by
  induction bs using encode.induct with
  | case1 a b c rest ih =>
    have ha : a < 256 := hb a (by simp)
    have hbb : b < 256 := hb b (by simp)
    have hc : c < 256 := hb c (by simp)
    have hrest : Bytes rest := fun x hx => hb x (by simp [hx])
    intro n hn
    simp only [encode, List.mem_cons, Sym.d.injEq] at hn
    rcases hn with h | h | h | h | h
    · omega
    · omega
    · omega
    · omega
    · exact ih hrest n h
  | case2 a b =>
    have ha : a < 256 := hb a (by simp)
    have hbb : b < 256 := hb b (by simp)
    intro n hn
    simp only [encode, List.mem_cons, Sym.d.injEq, List.not_mem_nil, or_false] at hn
    rcases hn with h | h | h | h
    · omega
    · omega
    · omega
    · cases h
  | case3 a =>
    have ha : a < 256 := hb a (by simp)
    intro n hn
    simp only [encode, List.mem_cons, Sym.d.injEq, List.not_mem_nil, or_false] at hn
    rcases hn with h | h | h | h
    · omega
    · omega
    · cases h
    · cases h
  | case4 => intro n hn; simp [encode] at hn

/-! the 64 + 1 output characters: pairwise distinct and cookie-safe (no quote, semicolon, comma, backslash, space, control) -/
def alphabet : List Nat :=
  (List.range 26).map (· + 65) ++ (List.range 26).map (· + 97) ++ (List.range 10).map (· + 48) ++ [43, 47]
def padChar : Nat := 61
def cookieSafe (c : Nat) : Bool := c > 32 && c < 127 && c != 34 && c != 44 && c != 59 && c != 92
theorem alphabet_length : alphabet.length = 64 := by decide
theorem alphabet_nodup : (padChar :: alphabet).Nodup := by decide
theorem alphabet_safe : (padChar :: alphabet).all cookieSafe = true := by decide

/-! ## RandomID: one byte per character, `chars[b % 62]`, filled from the end -/
def randomID (bytes : List Nat) : List Nat := (bytes.map (· % 62)).reverse
theorem randomID_length (bytes : List Nat) : (randomID bytes).length = bytes.length := by simp [randomID]
theorem randomID_lt (bytes : List Nat) : ∀ x ∈ randomID bytes, x < 62 := by
  intro x hx; simp [randomID] at hx; obtain ⟨b, _, rfl⟩ := hx; omega
/-- every one of the 62 symbols is produced by some byte value. -/
theorem randomID_onto (i : Nat) (hi : i < 62) : ∃ b, b < 256 ∧ randomID [b] = [i] :=
  ⟨i, by omega, by simp [randomID]; omega⟩

/-! ## CUID -/
structure CState where
  lastTime : Nat := 0
  lastCounter : Nat := 0

/-- one call at (masked) millisecond stamp `ts`; returns the 64-bit value before base-62 rendering.
    (Abstract spike version; the Go-faithful, string-producing `Ids.cuidStep` is in `Sessions/Ids/Cuid.lean`.) -/
def cuidStepBits (mac : Nat) (st : CState) (ts : Nat) : Nat × CState :=
  let c := if ts = st.lastTime then st.lastCounter + 1 else 0
  (ts * 16777216 + ((mac + c / 256) % 65536) * 256 + c % 256, { lastTime := ts, lastCounter := c })

/-- the three bit fields do not overlap, so the `|` of the Go code is this sum and the value determines them. -/
theorem cuid_fields (mac c ts : Nat) :
    (ts * 16777216 + ((mac + c / 256) % 65536) * 256 + c % 256) / 16777216 = ts := by omega

/-- same millisecond, different counter values below 2^24 ⇒ different values. -/
theorem cuid_counter_injective (mac ts c c' : Nat) (hc : c < 16777216) (hc' : c' < 16777216)
    (h : ts * 16777216 + ((mac + c / 256) % 65536) * 256 + c % 256
       = ts * 16777216 + ((mac + c' / 256) % 65536) * 256 + c' % 256) : c = c' := by omega

/-- a later millisecond gives a larger value, whatever the counters. -/
theorem cuid_later_larger (mac ts ts' c c' : Nat) (h : ts < ts') :
    ts * 16777216 + ((mac + c / 256) % 65536) * 256 + c % 256
      < ts' * 16777216 + ((mac + c' / 256) % 65536) * 256 + c' % 256 := by omega

/-! fixed-width base-62, most significant digit first -/
def digitsMS (b : Nat) : Nat → Nat → List Nat
  | 0, _ => []
  | w + 1, n => (n / b ^ w) :: digitsMS b w (n % b ^ w)

theorem digitsMS_length (b w n : Nat) : (digitsMS b w n).length = w := by
  induction w generalizing n with
  | zero => rfl
  | succ w ih => simp [digitsMS, ih]

/-- 11 base-62 digits are enough for every 64-bit value. -/
theorem fits : 2 ^ 64 < 62 ^ 11 := by decide

/-- numeric order is lexicographic order of the fixed-width rendering (so later CUIDs sort later). -/
theorem digitsMS_lt (b w n m : Nat) (hb : 0 < b) (hm : m < b ^ w) (h : n < m) : digitsMS b w n < digitsMS b w m := by
  induction w generalizing n m with
  | zero => simp at hm; omega
  | succ w ih =>
    simp only [digitsMS]
    have hpos : 0 < b ^ w := Nat.pow_pos hb
    by_cases hq : n / b ^ w = m / b ^ w
    · rw [hq]
      apply List.cons_lt_cons_iff.2
      right
      refine ⟨rfl, ?_⟩
      apply ih
      · exact Nat.mod_lt _ hpos
      · have h1 := Nat.div_add_mod n (b ^ w)
        have h2 := Nat.div_add_mod m (b ^ w)
        rw [hq] at h1
        omega
    · apply List.cons_lt_cons_iff.2
      left
      have : n / b ^ w ≤ m / b ^ w := Nat.div_le_div_right (Nat.le_of_lt h)
      omega

end Ids
