import Sessions.Model
import Std.Data.HashMap
import Sessions.Drv.Pw
import Sessions.Drv.Ids
import Sessions.Drv.Codec
import Sessions.Drv.Mx
/-!
# Driver: runs the Lean model on a script and prints the transcript the harness prints

usage: driver sess <script> <impl-transcript>   (the implementation's transcript supplies the
per-operation oracles: order of map iteration, which persistence calls failed, and the cookie
value net/http parsed from a raw header)
-/
open Sx

/-! ## canonical text (must agree with /verif/harness/common.go) -/

def hexDigit (n : Nat) : Char := if n < 10 then Char.ofNat (48 + n) else Char.ofNat (87 + n)

def hexOfBytes (bs : List UInt8) : String :=
  String.ofList (bs.foldr (fun b acc => hexDigit (b.toNat / 16) :: hexDigit (b.toNat % 16) :: acc) [])

def hexVal (c : Char) : Nat :=
  if '0' ≤ c && c ≤ '9' then c.toNat - 48 else if 'a' ≤ c && c ≤ 'f' then c.toNat - 87 else if 'A' ≤ c && c ≤ 'F' then c.toNat - 55 else 0

def bytesOfHex : List Char → List UInt8
  | a :: b :: r => UInt8.ofNat (hexVal a * 16 + hexVal b) :: bytesOfHex r
  | _ => []

def stringOfBytes (bs : List UInt8) : String :=
  match String.fromUTF8? (ByteArray.mk bs.toArray) with
  | some s => s
  | none => String.ofList (bs.map (fun b => Char.ofNat b.toNat))

def safeChar (c : Char) : Bool :=
  c.isAlphanum || c == '+' || c == '/' || c == '=' || c == '.' || c == '_' || c == '-' || c == ':'

def q (s : String) : String :=
  if s.isEmpty then "~" else if s.toList.all safeChar then s else "~" ++ hexOfBytes s.toUTF8.toList

def unq (s : String) : String :=
  match s.toList with
  | '~' :: r => stringOfBytes (bytesOfHex r)
  | _ => s

/-! ## ids: the n-th id is the base64 of be64((n+1)*K mod 2^64) ++ be64(n+1) -/

def be64 (n : Nat) : List Nat := (List.range 8).reverse.map (fun i => (n / 256 ^ i) % 256)

def chunk (n : Nat) : List Nat := be64 (((n + 1) * 0x9E3779B97F4A7C15) % 2 ^ 64) ++ be64 ((n + 1) % 2 ^ 64)

def b64Alphabet : Array Char := "ABCDEFGHIJKLMNOPQRSTUVWXYZabcdefghijklmnopqrstuvwxyz0123456789+/".toList.toArray

def b64c (n : Nat) : Char := b64Alphabet.getD n '?'

def b64enc : List Nat → List Char
  | a :: b :: c :: r => b64c (a / 4) :: b64c (a % 4 * 16 + b / 16) :: b64c (b % 16 * 4 + c / 64) :: b64c (c % 64) :: b64enc r
  | [a, b] => [b64c (a / 4), b64c (a % 4 * 16 + b / 16), b64c (b % 16 * 4), '=']
  | [a] => [b64c (a / 4), b64c (a % 4 * 16), '=', '=']
  | [] => []

def b64val (c : Char) : Option Nat :=
  if 'A' ≤ c && c ≤ 'Z' then some (c.toNat - 65) else if 'a' ≤ c && c ≤ 'z' then some (c.toNat - 71)
  else if '0' ≤ c && c ≤ '9' then some (c.toNat + 4) else if c == '+' then some 62 else if c == '/' then some 63 else none

def genString (n : Nat) : String := String.ofList (b64enc (chunk n))

def renderID : ID → String
  | .gen n => genString n
  | .lit s => s

/-- recognise a presented string as a minted id -/
def parseID (s : String) : ID :=
  let cs := s.toList
  if cs.length == 24 && cs.drop 22 == ['=', '='] then
    match (cs.take 22).mapM b64val with
    | none => .lit s
    | some ds =>
      -- the last 64 bits of the 128 decoded bits: digits 11..21 hold bits 66..131 (of 132)
      let bits := ds.foldl (fun acc d => acc * 64 + d) 0 / 16
      let n1 := bits % 2 ^ 64
      if n1 ≥ 1 && genString (n1 - 1) == s then .gen (n1 - 1) else .lit s
  else .lit s

def idSpec (spec : String) : ID :=
  match spec.toList with
  | 'g' :: r => if !r.isEmpty && r.all Char.isDigit then .gen (String.ofList r).toNat! else parseID (unq spec)
  | _ => parseID (unq spec)

def idLe (a b : ID) : Bool := !(renderID b < renderID a)

/-! ## rendering -/

/-- A one-element slice of a string (the only slice-typed value session scripts use) is carried through the model as a
string with this marker in front: the model's value type has no slices, and nothing in `session.go` looks inside a value. -/
def sliceMark : String := "\u0001slice:"

def renderVal : Val → String
  | .str s => if s.startsWith sliceMark then "l" ++ hexOfBytes (s.drop sliceMark.length).toString.toUTF8.toList
              else "s" ++ hexOfBytes s.toUTF8.toList
  | .int n => "i" ++ toString n
  | .flt n => "f" ++ toString n
  | .bool b => if b then "b1" else "b0"
  | .null => "n"

def parseVal (s : String) : Val :=
  match s.toList with
  | 's' :: r => .str (stringOfBytes (bytesOfHex r))
  | 'l' :: r => .str (sliceMark ++ stringOfBytes (bytesOfHex r))
  | 'i' :: r => .int (String.ofList r).toInt!
  | 'f' :: r => .flt (String.ofList r).toInt!
  | 'b' :: r => .bool (r == ['1'])
  | _ => .null

def renderData : Option Data → String
  | none => "nil"
  | some d =>
    let sorted := d.mergeSort (fun a b => !(b.1 < a.1))
    "{" ++ ",".intercalate (sorted.map (fun kv => q kv.1 ++ "=" ++ renderVal kv.2)) ++ "}"

def qoptID : Option ID → String
  | none => "-"
  | some i => q (renderID i)

def renderObj (o : Sess) : String :=
  "id=" ++ q (renderID o.id) ++ " rf=" ++ qoptID o.ref ++ " us=" ++ (match o.user with | none => "-" | some (u, v) => q u ++ "@" ++ toString v)
    ++ " cr=" ++ toString o.created ++ " la=" ++ toString o.lastAccess ++ " ip=" ++ q o.ip ++ " ua=" ++ toString o.ua
    ++ " da=" ++ renderData o.data

def renderRec (r : Rec) : String :=
  "rf=" ++ qoptID r.ref ++ " us=" ++ (match r.user with | none => "-" | some u => q u)
    ++ " cr=" ++ toString r.created ++ " la=" ++ toString r.lastAccess ++ " ip=" ++ q r.ip ++ " ua=" ++ toString r.ua
    ++ " da=" ++ renderData r.data

def renderEv : Ev → String
  | .load id true => "ev load " ++ q (renderID id) ++ " ok"
  | .load id false => "ev load " ++ q (renderID id) ++ " nil"
  | .loadFail id => "ev load " ++ q (renderID id) ++ " fail"
  | .loadErr id => "ev loaderr " ++ q (renderID id)
  | .save id r => "ev save " ++ q (renderID id) ++ " " ++ renderRec r
  | .saveFail id => "ev save " ++ q (renderID id) ++ " fail"
  | .del id => "ev del " ++ q (renderID id)
  | .delFail id => "ev del " ++ q (renderID id) ++ " fail"
  | .users u => "ev users " ++ q u
  | .usersFail u => "ev users " ++ q u ++ " fail"
  | .user u => "ev user " ++ q u
  | .userFail u => "ev user " ++ q u ++ " fail"
  | .bg t id => "bg " ++ toString t ++ " del " ++ q (renderID id)
  | .setCookie _ => "?"
  | .delCookie => "?"

def qopt (s : String) : String := if s.isEmpty then "-" else q s

def b2s (b : Bool) : String := if b then "1" else "0"

def renderCookie (ck : CookieCfg) (t : Int) (e : Ev) : String :=
  match cookieOut ck t e with
  | none => "?"
  | some c =>
    "ck " ++ q c.name ++ " " ++ (match c.value with | some id => q (renderID id) | none => "deleted")
      ++ " path=" ++ qopt c.path ++ " dom=" ++ qopt c.domain
      ++ " exp=" ++ (match c.expires with | none => "-" | some x => toString x)
      ++ " maxage=" ++ toString c.maxAge ++ " sec=" ++ b2s c.secure ++ " http=" ++ b2s c.httpOnly ++ " ss=" ++ toString c.sameSite

def renderRet : RetV → String
  | .str s => s
  | .val v => "val:" ++ renderVal v
  | .time t => "val:i" ++ toString t
  | .user none => "val:-"
  | .user (some (u, v)) => "val:" ++ q u ++ "@" ++ toString v

def dumpLines (s : State) (withCache : Bool := true) : List String :=
  let c := if withCache then s.cache.mergeSort (fun a b => idLe a.1 b.1) else []
  let st := s.store.mergeSort (fun a b => idLe a.1 b.1)
  c.map (fun e => "c " ++ q (renderID e.1) ++ " " ++ renderObj (s.obj e.2)) ++
  st.map (fun e => "s " ++ q (renderID e.1) ++ " " ++ renderRec e.2)

/-! ## parsing scripts -/

def parseCookieCfg (base : CookieCfg) (toks : List String) : CookieCfg :=
  toks.foldl (fun c kv =>
    match kv.splitOn "=" with
    | [k, v] =>
      let sv := if v == "-" then "" else unq v
      if k == "name" then { c with name := unq v } else if k == "domain" then { c with domain := sv }
      else if k == "path" then { c with path := sv } else if k == "secure" then { c with secure := v == "1" }
      else if k == "httponly" then { c with httpOnly := v == "1" } else if k == "samesite" then { c with sameSite := v.toInt! }
      else if k == "maxage" then { c with maxAge := v.toInt! } else if k == "expoff" then { c with expOff := v.toInt! } else c
    | _ => c) base

def parseInt (s : String) : Int := if s == "max" then maxI64 else s.toInt!

def parseOp (ck : CookieCfg) (input : Option (Option String)) (toks : List String) : Option Op :=
  match toks with
  | ["codec", c] => some (.codec (if c == "json" then .json else .gob))
  | ["cfg", n, v] => some (.cfg n (parseInt v))
  | "cookiecfg" :: r => some (.cookiecfg (parseCookieCfg ck r))
  | ["wait", d] => some (.wait (parseInt d))
  | ["stale", u, i] => some (.stale (unq u) (idSpec i))
  | "fault" :: _ => some .fault
  | ["tz", _] => some .fault          -- the harness switches its local time zone; the model has none
  | ["crashinside", k] => some (.crashinside k.toNat!)
  | ["req", client, spec, ip, ua, create] =>
    let cs : CookieSpec :=
      if spec == "none" then .none else if spec == "jar" then .jar
      else if spec.startsWith "val:" then
        let sp := (spec.drop 4).toString
        let id := idSpec sp
        .val id (match id with | .gen _ => 24 | .lit s => s.utf8ByteSize)
      else -- raw header: what net/http parsed comes from the implementation's transcript
        match input with
        | some (some v) => let id := parseID v; .val id (match id with | .gen _ => 24 | .lit s => s.utf8ByteSize)
        | _ => .none
    some (.req client cs (unq ip) (if ua == "-" then "" else unq ua) (create == "1"))
  | ["h", "set", k, v] => some (.h (.set (unq k) (parseVal v)))
  | ["h", "del", k] => some (.h (.del (unq k)))
  | ["h", "get", k] => some (.h (.get (unq k)))
  | ["h", "getdel", k] => some (.h (.getdel (unq k)))
  | ["h", "login", u, e] => some (.h (.login (unq u) (e == "1")))
  | ["h", "logout"] => some (.h .logout)
  | ["h", "regen"] => some (.h .regen)
  | ["h", "destroy"] => some (.h .destroy)
  | ["h", "expired"] => some (.h .expired)
  | ["h", "lastaccess"] => some (.h .lastaccess)
  | ["h", "user"] => some (.h .user)
  | ["end"] => some .endReq
  | ["logoutuser", u] => some (.logoutUser (unq u))
  | ["refresh", u] => some (.refresh (unq u))
  | ["purge"] => some .purge
  | ["dropcache"] => some .dropcache
  | ["expired", i] => some (.expiredRec (idSpec i))
  | ["crash"] => some .crash
  | _ => none

/-! ## oracles from the implementation's transcript -/

structure Blk where
  picks : List ID := []
  fails : List Bool := []
  input : Option (Option String) := none
deriving Inhabited

def words (l : String) : List String := (l.splitOn " ").filter (· ≠ "")

def parseTranscript (lines : Array String) : Std.HashMap Nat Blk := Id.run do
  let mut m : Std.HashMap Nat Blk := {}
  let mut cur : Nat := 0
  let mut blk : Blk := {}
  let mut open_ := false
  for l in lines do
    let ws := words l
    match ws with
    | "#" :: idx :: _ =>
      cur := idx.toNat!
      blk := {}
      open_ := true
    | ["."] =>
      if open_ then m := m.insert cur blk
      open_ := false
    | "in" :: v :: _ => blk := { blk with input := some (if v == "-" then none else some (unq v)) }
    | "ev" :: kind :: id :: rest =>
      if kind == "loaderr" then pure ()
      else
        let failed := rest == ["fail"] || rest == ["encerr"]
        blk := { blk with fails := blk.fails ++ [failed] }
        if kind == "save" then blk := { blk with picks := blk.picks ++ [parseID (unq id)] }
    | _ => pure ()
  return m

/-! ## main loop -/

def emitOut (w : World) (wOld : World) (o : Out) (idx : Nat) (line : String) : List String :=
  if o.silent then [] else
  let hdr := ["# " ++ toString idx ++ " " ++ line, "t " ++ toString o.t]
  let inp := match o.input with
    | none => []
    | some none => ["in -"]
    | some (some id) => ["in " ++ q (renderID id)]
  let evs := o.evs.map renderEv
  let ret := match o.ret with | none => [] | some r => ["ret " ++ renderRet r]
  let msg := match o.msg with | none => [] | some m => ["msg " ++ q m]
  let ss := match o.sess with
    | some (cached, ob) => ["ss cached=" ++ (if cached then "1" else "0") ++ " " ++ renderObj ob]
    | none => []
  let cks := o.cookies.map (renderCookie wOld.ck o.t)
  let rng := (match o.rng with | none => [] | some n => ["rng " ++ toString n]) ++
    (if o.faulted > 0 then ["faulted " ++ toString o.faulted] else [])
  let fr := match o.frozen with
    | none => []
    | some (some k) => ["crashinside " ++ toString k]
    | some none => ["nocrash"]
  let bg := o.bg.map renderEv
  let dump := if o.dump then dumpLines w.st o.dumpCache else []
  let jar := match o.jar with
    | none => []
    | some (c, none) => ["j " ++ c ++ " -"]
    | some (c, some id) => ["j " ++ c ++ " " ++ q (renderID id)]
  hdr ++ inp ++ evs ++ ret ++ msg ++ ss ++ cks ++ rng ++ fr ++ bg ++ dump ++ jar ++ ["."] ++ (if o.restart then ["restart"] else [])

def runSess (scriptPath transcriptPath : String) : IO Unit := do
  let script ← IO.FS.lines scriptPath
  let tr ← IO.FS.lines transcriptPath
  let orcs := parseTranscript tr
  let out ← IO.getStdout
  let mut w : World := {}
  let mut idx := 0
  for raw in script do
    let line := raw.trimAscii.toString
    if line.isEmpty || line.startsWith "//" then
      idx := idx + 1
      continue
    let blk := orcs.getD idx {}
    -- `waitto T`: sleep until the transcript clock reads T (no-op when it already does); the rest of the grammar is stateless
    let toks := match words line with
      | ["waitto", t] => ["wait", toString (max 0 (parseInt t - w.st.now))]
      | ws => ws
    match parseOp w.ck blk.input toks with
    | none =>
      out.putStrLn ("fatal unknown op " ++ line)
      return
    | some op =>
      let (w', o) := w.step idLe { picks := blk.picks, fails := blk.fails } op
      for l in emitOut w' w o idx line do out.putStrLn l
      w := w'
    idx := idx + 1

def main (args : List String) : IO UInt32 := do
  match args with
  | ["sess", script, transcript] => runSess script transcript; return 0
  | "pw" :: rest => Drv.runPw rest
  | "ids" :: rest => Drv.runIds rest
  | "codec" :: rest => Drv.Cdc.runCodec rest
  | "mx" :: rest => Drv.runMx rest
  | _ => IO.eprintln "usage: driver sess <script> <impl-transcript>"; return 2
