-- Root of the verification library: every module that must be checked is imported here.
import Sessions.Mutex.All
import Sessions.Ids.All
import Sessions.Password.All
import Sessions.Drf.Main
import Sessions.Codec.GobProgram
import Sessions.Spike.Hist
import Sessions.Proofs.Inv.All
import Sessions.Proofs.Local.All
import Sessions.Props
import Sessions.Proofs.More.All
import Sessions.Proofs.Global.All
import Sessions.Proofs.Cookie18
