-- Root of the verification library: every module that must be checked is imported here.
import Sessions.Mutex.Live
import Sessions.Ids.Ids
import Sessions.Password.Password
import Sessions.Drf.Main
import Sessions.Codec.GobProgram
import Sessions.Spike.Hist
