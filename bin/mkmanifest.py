#!/usr/bin/env python3
"""Writes /verif/MANIFEST.json from the table below (kept in one place so that it stays valid)."""
import json
import os
import subprocess

V = os.path.dirname(os.path.dirname(os.path.abspath(__file__)))

LIFECYCLE_NOTE = ("Trusted: Lean kernel; the hand-written Lean model of session.go/cache.go (tied to /repo on every run by differential "
                  "execution under the Go virtual clock, by the property's monitor on the real code's transcripts, by equivalence theorems "
                  "with eleven functions translated from the source, and by the decision logic regenerated as expression trees); the go/ast "
                  "extractor and the small interpreters that give its output a meaning; Go runtime and "
                  "standard library; unguessable ids; request granularity (same-id atomicity comes from C13 + the lock bracket in Start).")

CHECKS = {
    "C01": ("proof", "Theorems about the Lean model (listed in the evidence file) + per-run correspondence of the compiled model with the real package on directed and general histories + a monitor that evaluates the property on every implementation transcript; the assurance is the weaker of theorem and tie.", "6/C01"),
    "C02": ("proof", "T-local theorems about Start on forged cookies for every string and state of the model; exact differential tie incl. random bytes consumed; monitor on the real code.", "6/C02"),
    "C03": ("proof", "T-local theorems (stale refused, Expired sound) for all idle times/configurations and the history-level knowledge invariant (active sessions are kept through evictions, idle sweeps, purges: knows_all_histories, c03_active_kept) on the model; the staleness test and Expired() are REGENERATED from the source as expression trees and proved equal to the model's predicates for all values; differential tie under the virtual clock on both sides of and exactly on every threshold; monitor.", "6/C03, 13.8"),
    "C04": ("proof", "T-local rotation theorems and history-level theorems (an id is turned into a reference once, at most one mint per due id, every request presenting it gets the same session: rot4_all_histories, c04_one_mint_per_due_id, c04_same_session) on the model; rotation guard and back-stop REGENERATED from the source and proved equal to the model's for all values; differential tie (cookie, id, store, random bytes); monitor; schedules reduced to sequential order by C13 + lock bracket and exercised by K concurrent Starts (partial for sub-request interleavings of different ids).", "6/C04, 13.8"),
    "C05": ("proof", "Theorems on chain following (any length), back-stop, clean-up timers over all histories and Expired for reference records on the model; back-stop, grace period of the clean-up goroutine and Expired() REGENERATED from the source and proved equal to the model's; cache operations atomic (regenerated lock facts); differential tie with clean-up goroutines firing at exact virtual deadlines and real process restarts; monitor; concurrent family cleanup-race on real goroutines.", "6/C05, 13.2"),
    "C06": ("proof", "Theorems on the address matcher and fingerprint test for all inputs; the address and User-Agent blocks of Start REGENERATED from the source (guards, loop header, loop body, assignments to the valid flag) and proved to compute the model's ipOK/uaOK for all values; differential tie over address/User-Agent matrices incl. IPv6 and IPv4-mapped peers; monitor.", "6/C06, 13.2"),
    "C07": ("proof", "Invariant-based theorems on the model + differential tie with restarts; monitor tracking every former id of ended sessions.", "6/C07"),
    "C08": ("proof", "T-local theorems for LogIn/LogOut/RefreshUser on the model; differential tie incl. stale listings; monitor on cached objects and stored records.", "6/C08"),
    "C09": ("proof", "Coherence invariant proved over all fault-free histories of the model (every call boundary is a crash point) + acknowledged-means-saved at the next boundary of EVERY history under every fault oracle (c09_ack_saved_global); cache operations atomic (regenerated lock facts); differential tie; monitor comparing memory and store after every call; concurrent family load-race (one object per cached session, coherent with its record).", "6/C09, 13.8"),
    "C10": ("proof", "Store-prefix safety on the model + every persistence-call boundary of every id change replayed on the real code with a frozen store and a real restart; monitor for dangling references and lost data.", "6/C10"),
    "C11": ("proof", "Theorems for every fault oracle on the model, T-local and over ALL histories with faults (structural invariant, the store follows the shown events, a failed call changes nothing, a failed load is quiet, no record disappears without a shown delete, deletes only by invalidation: Proofs/Global/Faulty11*) + regenerated error table + single and pair fault injection at every persistence call of the base histories on the real code; monitor.", "6/C11, 13.8"),
    "C12": ("proof", "Theorems on compaction (size bound, LRU victim, flush before drop, failed flush keeps the session) for all states/choices of the model and the size bound over all histories; the cache's conditions (idle sweep, may-grow test, clamp, eviction loop, victim scan, cache switch) REGENERATED from the source and proved equal to the model's for all values; store calls under the cache lock (regenerated); differential tie incl. cache dumps; monitor; concurrent family load-race.", "6/C12, 13.2"),
    "C18": ("proof", "Theorems on the cookie events of Start for all requests/states; differential tie on every Set-Cookie with all attributes under randomised templates; monitor.", "6/C18"),
    "C19": ("proof", "Theorems on base64/RandomID/CUID as pure functions and over the CUID state machine for all inputs; exact recomputation of every value the real package produces from recorded inputs; statistics on the real CSPRNG only support the uniform-source assumption.", "6/C19"),
    "C20": ("proof", "Theorems for all inputs and all word lists (first applicable rule, totality, list entries rejected, names monotone, Go-faithful rune decoding); the real function, the compiled model and an independent reference classifier answer the same queries (all 300k list entries in the thorough tier).", "6/C20"),
}

CHECKS.update({
    "C13": ("proof", "Mutual exclusion proved as an invariant of the transition system transcribed from mutexes.go for ANY number of goroutines and keys and every interleaving incl. purges; tie: the real lock table's manager events (add-only trace hook) and Lock/Unlock call/return events, recorded under the virtual clock on random and directed schedules, are checked by the Lean conformance checkers (proved sound against the transition system), and K concurrent Start calls on one id are checked for non-overlapping critical sections.", "6/C13"),
    "C14": ("proof", "Deadlock freedom, no lost wake-up, exactly one admission per release, key independence, spurious-unlock no-op and termination of finite programs (progress measure) proved for the transition system under every scheduler; tie: as C13 plus an exact 'stuck' detector (a virtual-time watchdog fires only when every goroutine is blocked).", "6/C14"),
    "C16": ("proof", "gob_roundtrip proved for ALL sessions about the encoder/decoder programs REGENERATED from GobEncode/GobDecode on every run; differential round trips of the real codec over generated field values judged against the property text; golden corpus of bytes written by the pinned commit.", "6/C16"),
    "C17": ("proof", "json_roundtrip / json_total proved for ALL sessions about the key tables REGENERATED from MarshalJSON/UnmarshalJSON on every run; differential round trips of the real codec; golden corpus; malformed and mutated inputs must give an error or a re-encodable session and never panic.", "6/C17"),
})

CHECKS["C15"] = ("proof", "Lock discipline: the access table of every Session field, cache.sessions and the CUID state is REGENERATED from the source on every run and `lockDiscipline_ok` (every access inside the right lock, or private, or write-once) is re-proved by the kernel; the generic theorem Drf.conflict_separated turns guarded accesses into happens-before separation; a small-step model of the four key/value methods is proved linearizable (GetAndDelete hands a value to at most one caller). Tie/search: the real package under the Go race detector on directed and random concurrent schedules (only reports with package frames count), panics, stuck goroutines, and a linearizability check of recorded key/value histories. Partial by nature: the Go memory model and the detector's completeness are not modelled.", "6/C15")

PENDING = {}

IR_SUFFIX = (" The bodies of RegenerateID, Destroy, cache.Set/Get/Delete, Set/Delete/LogOut/GetAndDelete/Get and LogIn are TRANSLATED from the "
             "source on every run into a deep-embedded IR and proved equal to the model's functions for all states (FactsIr*), so the "
             "model theorems about those functions are theorems about the code as it is now, modulo the interpreter's seam (DESIGN 13.2).")
IR_PROPS = ("C01", "C04", "C05", "C07", "C08", "C09", "C10", "C12", "C18")

TECHNIQUE = {
    "C03": "Lean 4 theorems about an executable model (T-local + history-level invariant) + decision logic regenerated from the source and proved equal to the model's + differential correspondence with the real code + property monitor",
    "C04": "Lean 4 theorems about an executable model (T-local + history-level ghost invariant) + decision logic regenerated from the source + differential correspondence + property monitor + concurrent Start scenarios",
    "C05": "Lean 4 theorems about an executable model + decision logic and lock facts regenerated from the source + differential correspondence + property monitor + concurrent family",
    "C06": "Lean 4 theorems about an executable model + address/User-Agent decision logic regenerated from the source and proved to compute the model's tests + differential correspondence + property monitor",
    "C12": "Lean 4 theorems about an executable model + cache conditions and lock facts regenerated from the source + differential correspondence + property monitor + concurrent family",
    "C13": "Lean 4 invariant proofs about a transition system transcribed from mutexes.go + trace conformance of the real lock table (Lean checkers proved sound) + concurrent scenarios",
    "C14": "Lean 4 safety and progress proofs about a transition system transcribed from mutexes.go + trace conformance of the real lock table + exact stuck detection under the virtual clock",
    "C15": "Lean 4 theorems over a lock-discipline table regenerated from the source + happens-before and linearizability theorems + race detector and linearizability check as search",
    "C16": "Lean 4 round-trip theorem over codec programs regenerated from the source + differential round trips of the real codec + golden corpus",
    "C17": "Lean 4 round-trip/totality theorems over key tables regenerated from the source + differential round trips of the real codec + malformed inputs",
    "C19": "Lean 4 theorems about pure models of the identifier functions + exact recomputation of the real package's outputs",
    "C20": "Lean 4 theorems about a model of the rule cascade for all inputs and word lists + three-way differential with the real function",
}


def main():
    hooks = subprocess.run(["git", "-C", "/repo", "log", "--format=%H %s"], capture_output=True, text=True).stdout.strip().split("\n")
    hook_commits = [l.split()[0] for l in hooks if "verif hooks" in l]
    checks = []
    for pid, (cat, text, ref) in sorted(CHECKS.items()):
        checks.append({
            "property_id": pid,
            "quick_cmd": "VERIF_TIER=quick bin/check %s" % pid,
            "thorough_cmd": "VERIF_TIER=thorough bin/check %s" % pid,
            "evidence_file": "/verif/evidence/%s.json" % pid,
            "replay_cmd_template": "bin/check %s --replay {path}" % pid,
            "engine": "lean-model+harness",
            "level_claimed": {"category": cat, "text": text + (IR_SUFFIX if pid in IR_PROPS else ""), "design_ref": "DESIGN.md §" + ref},
            "level_note": LIFECYCLE_NOTE if pid not in ("C13", "C14", "C15", "C16", "C17", "C19", "C20") else
            "Trusted: Lean kernel; the lexical lock-state walker of the go/ast extractor; sync.RWMutex/Mutex and the Go memory model (a release happens-before a later acquire); the race detector is used as a search, not as the proof." if pid == "C15" else
            "Trusted: Lean kernel; the transition system transcribed by hand from mutexes.go (tied to /repo by trace conformance on every run); Go runtime (channel rendezvous, select, scheduler, virtual clock); holds shorter than the staleness timeout." if pid in ("C13", "C14") else
            "Trusted: Lean kernel; the go/ast extractor that regenerates the codec programs; encoding/gob, encoding/json, time and strconv (per-value round trip assumed as laws)." if pid in ("C16", "C17") else
            "Trusted: Lean kernel; the hand-written Lean functions (tied to /repo on every run by exact recomputation of the real package's outputs); Go standard library (crypto/rand, encoding/base64, strings.ToLower, gzip).",
            "technique": TECHNIQUE.get(pid, "Lean 4 theorems about an executable model + differential correspondence with the real code + property monitor"),
        })
    m = {
        "version": 1,
        "setup_cmd": "bin/setup",
        "hooks": {
            "guard": "verif",
            "enable": "go build -tags verif (the harness in /verif/harness is built with -tags \"verif faketime\", CGO_ENABLED=0, against /repo's working tree)",
            "baseline_off_cmd": "python3 /verif/bin/baseline.py /repo",
            "source_commits": hook_commits,
            "add_only": True,
        },
        "engines": [
            {"name": "lean-model+harness", "path": "/verif/lean, /verif/harness, /verif/vlib", "serves_properties": sorted(CHECKS),
             "kind_free_text": "Lean 4 model + theorems; Go harness driving the real package under the runtime's virtual clock; Python orchestration, generators and monitors"},
        ],
        "checks": checks,
        "not_applicable": [{"property_id": k, "reason": v} for k, v in sorted(PENDING.items())],
        "notes": "See DESIGN.md. Fixed defects and open findings: known_findings.json. Seeded changes used for self-validation: seeded/.",
    }
    with open(os.path.join(V, "MANIFEST.json"), "w") as f:
        json.dump(m, f, indent=1)
        f.write("\n")


if __name__ == "__main__":
    main()
