#!/usr/bin/env python3
"""Development tool: prints the markdown table of /verif/seeded/*/meta.json for DESIGN.md §13.5."""
import glob, json, os
V = os.path.dirname(os.path.dirname(os.path.abspath(__file__)))
print("| id | property | what was changed (independent sub-agent) | needs | caught by (★ = with a concrete failing input; ○ = `no-failing-input-found`) |")
print("|---|---|---|---|---|")
for d in sorted(glob.glob(os.path.join(V, "seeded", "*"))):
    mp = os.path.join(d, "meta.json")
    if not os.path.exists(mp):
        continue
    m = json.load(open(mp))
    cb = m.get("caught_by", [])
    prop = m.get("property", "?")
    own = [c for c in cb if c.rstrip("*") == prop]
    others = [c for c in cb if c.rstrip("*") != prop]
    def fmt(c):
        return c.rstrip("*") + ("○" if c.endswith("*") else "★")
    txt = " ".join(fmt(c) for c in own + others) or "— (see text)"
    print("| %s | %s | %s | %s | %s |" % (os.path.basename(d), prop, str(m.get("summary", "")).replace("|", "/")[:230], str(m.get("needs", "")).replace("|", "/")[:160], txt))
