#!/usr/bin/env python3
"""Development tool (run once): capture the golden codec corpus from the PINNED tree (commit with the verif hooks,
before any fix): encodings of generated sessions together with the field values they encode."""
import os, random, subprocess, sys
V = os.path.dirname(os.path.dirname(os.path.abspath(__file__)))
sys.path.insert(0, V)
PINNED = sys.argv[1] if len(sys.argv) > 1 else "cfd1589"
wt = "/var/tmp/pinned-tree"
subprocess.run(["git", "-C", "/repo", "worktree", "add", "--detach", "-q", wt, PINNED], check=True)
try:
    os.environ["VERIF_REPO"] = wt
    from vlib import env, codeclib
    hbin = env.build_harness("plain")
    os.makedirs(os.path.join(V, "corpus", "golden"), exist_ok=True)
    for codec in ("gob", "json"):
        r = random.Random("golden/" + codec)
        cases = codeclib.package_shapes(codec) + [codeclib.gen_case(r, codec) for _ in range(160)]
        lines = [codeclib.spec_line(codec, c) for c in cases]
        out = codeclib.run_harness(hbin, lines)
        n = 0
        with open(os.path.join(V, "corpus", "golden", codec + ".txt"), "w") as f:
            f.write("// golden corpus: bytes produced by the pinned commit %s, with the field values they encode\n" % PINNED)
            for l, o in zip(lines, out):
                t = o.split(" ")
                b = [x for x in t if x.startswith("bytes=")]
                if not b:
                    continue
                import json
                f.write("%s %s | %s\n" % (codec, b[0][6:], json.dumps(cases[lines.index(l)])))
                n += 1
        print(codec, n, "golden records")
finally:
    subprocess.run(["git", "-C", "/repo", "worktree", "remove", "--force", wt])
