#!/usr/bin/env python3
"""Development tool: confirm seeded changes produced by independent sub-agents and run the checks against them.
usage: dev_seeded.py <dir containing seeded/<id>/{patch.diff,*_test.go,meta.json}> [--props C01,C02] [--only C09_a]
For each: scratch worktree of /repo HEAD; (1) demo test passes WITHOUT the patch; (2) patch applies, baseline suite passes,
demo FAILS with it; (3) run the checks with VERIF_REPO pointing at the patched worktree; (4) copy into /verif/seeded/<id>/ with
the results recorded in meta.json."""
import glob, json, os, shutil, subprocess, sys, tempfile
V = os.path.dirname(os.path.dirname(os.path.abspath(__file__)))
ALL = ["C01","C02","C03","C04","C05","C06","C07","C08","C09","C10","C11","C12","C13","C14","C16","C17","C18","C19","C20"]
src = sys.argv[1]
props = ALL
only = None
for i, a in enumerate(sys.argv):
    if a == "--props": props = sys.argv[i+1].split(",")
    if a == "--only": only = sys.argv[i+1]
GO = dict(os.environ, GOFLAGS="-mod=mod", GOPROXY="off", GOSUMDB="off", GOTOOLCHAIN="local")
def sh(cmd, cwd=None, env=None, timeout=900):
    return subprocess.run(cmd, cwd=cwd, env=env, capture_output=True, text=True, timeout=timeout)
rows = []
for d in sorted(glob.glob(os.path.join(src, "seeded", "*_*"))):
    sid = os.path.basename(d)
    if only and sid != only: continue
    patch = os.path.join(d, "patch.diff")
    demos = glob.glob(os.path.join(d, "*_test.go"))
    if not os.path.exists(patch) or not demos:
        print(sid, "incomplete"); continue
    meta = json.load(open(os.path.join(d, "meta.json"))) if os.path.exists(os.path.join(d, "meta.json")) else {}
    prop = meta.get("property", sid.split("_")[0])[:3]
    tmp = tempfile.mkdtemp(prefix="seedchk-", dir="/var/tmp")
    wt = os.path.join(tmp, "repo")
    try:
        sh(["git", "-C", "/repo", "worktree", "add", "--detach", "-q", wt, "HEAD"])
        for t in demos: shutil.copy(t, wt)
        names = " ".join(os.path.basename(t) for t in demos)
        run_demo = lambda: sh(["go", "test", "-vet=off", "-count=1", "-run", "Seed|seed|SEED", "."], cwd=wt, env=GO)
        r0 = run_demo()
        demo_without = r0.returncode == 0
        ap = sh(["git", "-C", wt, "apply", "--3way", patch])
        if ap.returncode != 0:
            ap = sh(["git", "-C", wt, "apply", patch])
        applies = ap.returncode == 0
        r1 = run_demo() if applies else None
        demo_with_fails = bool(r1) and r1.returncode != 0 and "FAIL" in (r1.stdout + r1.stderr) and "build failed" not in (r1.stdout + r1.stderr)
        for t in demos: os.remove(os.path.join(wt, os.path.basename(t)))
        b = sh([sys.executable, os.path.join(V, "bin", "baseline.py"), wt])
        suite_ok = b.returncode == 0
        confirmed = demo_without and applies and demo_with_fails and suite_ok
        caught, details = [], {}
        if confirmed or os.environ.get("FORCE"):
            env = dict(os.environ, VERIF_REPO=wt, VERIF_EVIDENCE=os.path.join(tmp, "ev"))
            order = [prop] + [p for p in props if p != prop]
            for p in order:
                r = sh([os.path.join(V, "bin", "check"), p], env=env, timeout=1800)
                vl = [l for l in r.stdout.split("\n") if l.startswith("VIOLATION")]
                if vl:
                    caught.append(p + ("*" if all(l.endswith("no-failing-input-found") for l in vl) else ""))
                    msg = r.stdout.split(vl[0])[1].split("\n")[1].strip()[:200] if vl else ""
                    details[p] = {"violations": len(vl), "no_failing_input": all(l.endswith("no-failing-input-found") for l in vl), "first": msg}
                elif r.returncode not in (0, 1):
                    details[p] = {"error": (r.stdout + r.stderr)[-300:]}
        rows.append((sid, prop, confirmed, demo_without, applies, demo_with_fails, suite_ok, caught))
        print("%s prop=%s confirmed=%s (demo_without_ok=%s applies=%s demo_with_fails=%s suite_ok=%s) caught_by=%s" % (sid, prop, confirmed, demo_without, applies, demo_with_fails, suite_ok, " ".join(caught) or "NONE"))
        for p, dd in details.items():
            print("    ", p, dd.get("first") or dd.get("error"))
        sys.stdout.flush()
        if confirmed:
            dst = os.path.join(V, "seeded", sid)
            os.makedirs(dst, exist_ok=True)
            shutil.copy(patch, dst)
            for t in demos: shutil.copy(t, dst)
            meta.update({"property": prop, "confirmed_by_us": {"demo_passes_without_change": demo_without, "patch_applies": applies,
                         "demo_fails_with_change": demo_with_fails, "baseline_suite_passes_with_change": suite_ok,
                         "commands": "git worktree of /repo HEAD; go test -run Seed (demo) before/after git apply patch.diff; bin/baseline.py <worktree>; VERIF_REPO=<worktree> bin/check <property> for every property"},
                         "caught_by": caught, "check_details": details})
            json.dump(meta, open(os.path.join(dst, "meta.json"), "w"), indent=1)
    finally:
        sh(["git", "-C", "/repo", "worktree", "remove", "--force", wt])
        shutil.rmtree(tmp, ignore_errors=True)
print("SUMMARY")
for r in rows: print(" ", r[0], "confirmed" if r[2] else "NOT-CONFIRMED", "caught by:", " ".join(r[7]) or "NONE")
