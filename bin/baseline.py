#!/usr/bin/env python3
"""Run rivo/sessions' own test suite with the verif build tag OFF and check that the 31 stable
baseline tests pass (TestMutexesMultipleLocks is flaky in the baseline and is not required)."""
import json
import os
import subprocess
import sys

STABLE = """TestAnonSession TestCUID TestCache TestExistingSession TestExpiredReferencedSession TestExpiredSession
TestMutexesDifferentKeys TestMutexesLockAndRelease TestMutexesLongLock TestMutexesSizePurge TestMutexesStalePurge
TestMutexesTwoLocks TestNoSession TestNonExistingSession TestRandomID TestReasonablePassword TestReferencedSession
TestSessionData TestSessionGob TestSessionGobWithUser TestSessionIDChange TestSessionIDChangeDoS
TestSessionInvalidRemoteIP TestSessionInvalidRemoteUserAgent TestSessionJSON TestSessionJSONWithUser
TestSessionValidRemoteIP TestSessionValidRemoteUserAgent TestUserLogin TestUserLogout TestUserRefresh""".split()

repo = sys.argv[1] if len(sys.argv) > 1 else "/repo"
env = dict(os.environ, GOFLAGS="-mod=mod", GOPROXY="off", GOSUMDB="off", GOTOOLCHAIN="local")
p = subprocess.run(["go", "test", "-json", "-vet=off", "-count=1", "-timeout", "25m", "./..."], cwd=repo, env=env,
                   stdout=subprocess.PIPE, stderr=subprocess.STDOUT, text=True)
res = {}
for line in p.stdout.splitlines():
    try:
        e = json.loads(line)
    except ValueError:
        continue
    if e.get("Test") and e.get("Action") in ("pass", "fail", "skip"):
        res[e["Test"]] = e["Action"]
bad = [t for t in STABLE if res.get(t) != "pass"]
print("baseline: %d/%d stable tests pass%s" % (len(STABLE) - len(bad), len(STABLE), "" if not bad else "; NOT passing: " + " ".join(bad)))
sys.exit(1 if bad else 0)
