#!/bin/bash
# Development tool: re-pin the source hashes in lean/Sessions/FactsPinsBase.lean to /repo's current tree
# (after a fix: commit and after re-reading the pinned functions against the hand-written models).
set -e
cd "$(dirname "$0")/.."
(cd extract && GOFLAGS=-mod=mod GOPROXY=off go build -o /tmp/extract-pins .)
/tmp/extract-pins -repo /repo | sed -n '/^def sourcePins/,/\]$/p' | grep '("' | sed 's/^ *//; s/)\]$/)/' > /tmp/pins.new
python3 - <<'PY'
import re
p='lean/Sessions/FactsPinsBase.lean'
s=open(p).read()
new=open('/tmp/pins.new').read().rstrip('\n').split('\n')
body="\n".join("  "+l for l in new)
s=re.sub(r"def expected : List \(String × String\) := \[\n.*?\]\n", "def expected : List (String × String) := [\n"+body+"]\n", s, flags=re.S)
open(p,'w').write(s)
print("re-pinned", len(new), "functions")
PY
rm -f /tmp/extract-pins /tmp/pins.new
