#!/usr/bin/env python3
"""Development tool: a mutation sweep over rivo/sessions.

Generates small syntactic changes of the package's non-test source (relational/logical/arithmetic operator swaps, negated
conditions, deleted statements, swallowed errors, changed constants), and for each one that still compiles AND passes the
package's own 31 baseline tests runs the property checks until one of them reports a violation. Changes that no check
reports ("survivors") are either equivalent with respect to the twenty properties or gaps of the checks; they are listed
for inspection. Nothing here touches /repo or /verif: every worker has its own copy of /verif and its own git worktree of
/repo under --out (default /var/tmp/mutsweep), removed at the end.

usage: dev_mutsweep.py [--workers N] [--files cache.go,session.go] [--ops ROR,LCR,...] [--limit N] [--sample K/M] [--out DIR]
       dev_mutsweep.py --list            (print the mutants, run nothing)
       dev_mutsweep.py --summary FILE    (summarise a results file)
Results: <out>/results.jsonl, one line per mutant: {id, file, line, op, old, new, status, caught_by, concrete, seconds}.
"""
import argparse
import json
import multiprocessing as mp
import os
import re
import shutil
import subprocess
import sys
import time

V = os.path.dirname(os.path.dirname(os.path.abspath(__file__)))
REPO = "/repo"
FILES = ["cache.go", "session.go", "persistence.go", "mutexes.go", "ids.go", "passwords.go", "config.go"]
ALL = ["C%02d" % i for i in range(1, 21)]
RELEVANT = {
    "passwords.go": ["C20"],
    "ids.go": ["C19", "C01", "C02"],
    "mutexes.go": ["C13", "C14", "C04", "C15"],
    "persistence.go": ["C09", "C11", "C08", "C01", "C16", "C17"],
    "cache.go": ["C12", "C09", "C03", "C07", "C11", "C15", "C01"],
    "session.go": ["C01", "C04", "C05", "C08", "C09", "C06", "C03", "C07", "C02", "C10", "C11", "C18", "C16", "C17", "C15", "C12"],
    "config.go": ["C18", "C01"],
}
# checks whose harness never executes the file (skipped for survivors to save time)
UNRELATED = {
    "passwords.go": [c for c in ALL if c != "C20"],
    "ids.go": ["C13", "C14", "C16", "C17", "C20"],
    "mutexes.go": ["C16", "C17", "C19", "C20"],
    "persistence.go": ["C13", "C14", "C19", "C20"],
    "cache.go": ["C13", "C14", "C16", "C17", "C19", "C20"],
    "session.go": ["C13", "C14", "C19", "C20"],
}
GOENV = dict(os.environ, GOFLAGS="-mod=mod", GOPROXY="off", GOSUMDB="off", GOTOOLCHAIN="local")


# ---------------------------------------------------------------------------------------------------------------------
# mutant generation

def code_part(line):
    """(code, comment) of a source line; naive about '//' inside string literals (then the line is skipped)"""
    i = line.find("//")
    if i < 0:
        return line, ""
    if line[:i].count('"') % 2 == 1 or line[:i].count("`") % 2 == 1:
        return None, None
    return line[:i], line[i:]


ROR = {" < ": [" <= "], " <= ": [" < "], " > ": [" >= "], " >= ": [" > "], " == ": [" != "], " != ": [" == "]}
LCR = {" && ": [" || "], " || ": [" && "]}
AOR = {" + ": [" - "], " - ": [" + "], " * ": [" / "], " / ": [" * "], " % ": [" / "], "<<": [">>"], " & ": [" | "], " | ": [" & "], "++": ["--"]}


def occurrences(s, tok):
    i = s.find(tok)
    while i >= 0:
        yield i
        i = s.find(tok, i + len(tok))


def in_string(code, pos):
    return code[:pos].count('"') % 2 == 1 or code[:pos].count("`") % 2 == 1 or code[:pos].count("'") % 2 == 1


def mutants_of_line(code):
    """yields (op, new_code)"""
    for table, name in ((ROR, "ROR"), (LCR, "LCR"), (AOR, "AOR")):
        for tok, reps in table.items():
            for pos in occurrences(code, tok):
                if in_string(code, pos):
                    continue
                for r in reps:
                    yield name, code[:pos] + r + code[pos + len(tok):]
    st = code.strip()
    ind = code[:len(code) - len(code.lstrip())]
    # negated condition
    m = re.match(r"^(\s*(?:\}\s*else\s+)?if\s+)(.*)\s\{\s*$", code)
    if m:
        head, cond = m.group(1), m.group(2)
        init = ""
        if "; " in cond:
            k = cond.rfind("; ")
            init, cond = cond[:k + 2], cond[k + 2:]
        yield "NEG", "%s%s!(%s) {" % (head, init, cond)
        # drop one conjunct / disjunct
        for sep in (" && ", " || "):
            parts = cond.split(sep)
            if len(parts) > 1 and "(" not in cond:
                for i in range(len(parts)):
                    yield "DROP", "%s%s%s {" % (head, init, sep.join(parts[:i] + parts[i + 1:]))
    # deleted statement: a call statement, a plain assignment, delete(), a send, defer/go of a call
    if re.match(r"^(defer\s+|go\s+)?[A-Za-z_][\w\.\[\]\*\(\)\"]*\(.*\)$", st) and not st.startswith(("func", "if", "for", "switch", "return", "case")):
        yield "SDL", ind
    elif re.match(r"^[A-Za-z_][\w\.\[\]\*]*(, [A-Za-z_][\w\.\[\]\*]*)* (=|\+=|-=|\|=|<<=) .+[^{(,]$", st):
        yield "SDL", ind
    elif re.match(r"^[\w\.\[\]]+ <- .*$", st) or re.match(r"^[\w\.\[\]]+(\+\+|--)$", st):
        yield "SDL", ind
    # swallowed errors / flipped results
    if re.match(r"^return (.*, )?err$", st):
        yield "RET", ind + re.sub(r"err$", "nil", st)
    if re.match(r"^return .*\berror\b", st) is None:
        m = re.match(r"^return (.*, )?(fmt\.Errorf|errors\.New)\(.*\)$", st)
        if m:
            yield "RET", ind + "return " + (m.group(1) or "") + "nil"
    if st == "return true":
        yield "RET", ind + "return false"
    if st == "return false":
        yield "RET", ind + "return true"
    if st == "continue":
        yield "RET", ind + "break"
    if st == "break":
        yield "RET", ind + "continue"
    # constants
    for m in re.finditer(r"(?<![\w\.\"x])(\d+)(?![\w\.\"])", code):
        if in_string(code, m.start()):
            continue
        n = int(m.group(1))
        for r in sorted({n + 1, n - 1 if n > 0 else 1, 0 if n > 1 else n + 1}):
            if r != n:
                yield "CONST", code[:m.start()] + str(r) + code[m.end():]
    for a, b in (("true", "false"), ("false", "true")):
        for m in re.finditer(r"\b%s\b" % a, code):
            if not in_string(code, m.start()) and not st.startswith("return"):
                yield "CONST", code[:m.start()] + b + code[m.end():]
    # time / duration arguments
    for a, b in ((".Before(", ".After("), (".After(", ".Before("), ("time.Now()", "time.Time{}"), ("RLock()", "Lock()"), ("RUnlock()", "Unlock()")):
        for pos in occurrences(code, a):
            if not in_string(code, pos) and a in ("RLock()", "RUnlock()"):
                continue  # changes locking strength only; never a behavioural difference the properties can see
            if not in_string(code, pos):
                yield "API", code[:pos] + b + code[pos + len(a):]


def gen_mutants(files, ops=None):
    out = []
    for fn in files:
        lines = open(os.path.join(REPO, fn)).read().split("\n")
        in_block = False
        in_raw = False
        depth_func = False
        for i, line in enumerate(lines):
            st = line.strip()
            if in_block:
                if "*/" in line:
                    in_block = False
                continue
            if st.startswith("/*"):
                in_block = "*/" not in st
                continue
            if in_raw:
                if line.count("`") % 2 == 1:
                    in_raw = False
                continue
            if line.count("`") % 2 == 1:
                in_raw = True
                continue
            if not st or st.startswith("//") or st.startswith(("import", "package")):
                continue
            code, comment = code_part(line)
            if code is None or not code.strip():
                continue
            seen = set()
            k = 0
            for op, new in mutants_of_line(code.rstrip()):
                if ops and op not in ops:
                    continue
                new_line = new + (" " + comment if comment and new.strip() else "")
                if new_line == line or new_line in seen:
                    continue
                seen.add(new_line)
                out.append(dict(id="%s:%d:%s:%d" % (fn, i + 1, op, k), file=fn, line=i + 1, op=op, old=line.strip(), new=new_line.strip()))
                out[-1]["_new_line"] = new_line
                k += 1
    return out


# ---------------------------------------------------------------------------------------------------------------------
# running

STABLE = None


def baseline_ok(repo):
    p = subprocess.run([sys.executable, os.path.join(V, "bin", "baseline.py"), repo], capture_output=True, text=True, timeout=900)
    return p.returncode == 0, p.stdout.strip()[-300:]


def worker(wid, q, outdir, respath, lock, order_all):
    vcopy = os.path.join(outdir, "v%d" % wid)
    wt = os.path.join(outdir, "r%d" % wid)
    ev = os.path.join(outdir, "e%d" % wid)
    if os.path.exists(vcopy):
        shutil.rmtree(vcopy)
    subprocess.run(["rsync", "-a", "--exclude", ".git", "--exclude", "seeded", "--exclude", "evidence", "--exclude", "design-spikes",
                    V + "/", vcopy + "/"], check=True)
    # keep only the Lean build and the audit caches in the copy's cache
    subprocess.run(["git", "-C", REPO, "worktree", "remove", "--force", wt], capture_output=True)
    shutil.rmtree(wt, ignore_errors=True)
    subprocess.run(["git", "-C", REPO, "worktree", "add", "--detach", "-q", wt, "HEAD"], check=True)
    env = dict(GOENV, VERIF_REPO=wt, VERIF_EVIDENCE=ev, VERIF_SEED="1", VERIF_TIER="quick")
    while True:
        m = q.get()
        if m is None:
            break
        t0 = time.time()
        subprocess.run(["git", "-C", wt, "checkout", "-q", "--", "."], check=True)
        p = os.path.join(wt, m["file"])
        lines = open(p).read().split("\n")
        lines[m["line"] - 1] = m["_new_line"]
        open(p, "w").write("\n".join(lines))
        res = dict((k, v) for k, v in m.items() if not k.startswith("_"))
        res.update(status="?", caught_by=None, concrete=None, tried=[])
        try:
            b = subprocess.run(["go", "build", "./..."], cwd=wt, env=GOENV, capture_output=True, text=True, timeout=300)
            if b.returncode != 0:
                res["status"] = "nocompile"
            else:
                b2 = subprocess.run(["go", "vet", "-tags", "verif", "./..."], cwd=wt, env=GOENV, capture_output=True, text=True, timeout=300)
                b = subprocess.run(["go", "test", "-vet=off", "-count=1", "-timeout", "150s", "./..."], cwd=wt, env=GOENV, capture_output=True,
                                   text=True, timeout=400)
                ok = b.returncode == 0
                if not ok:
                    # the flaky test alone does not count as a failing suite
                    failed = set(re.findall(r"--- FAIL: (\w+)", b.stdout))
                    ok = bool(failed) and failed <= {"TestMutexesMultipleLocks"} and "panic:" not in b.stdout
                if not ok:
                    res["status"] = "tests"
                else:
                    res["vet"] = b2.returncode == 0
                    order = RELEVANT.get(m["file"], []) + [c for c in order_all if c not in RELEVANT.get(m["file"], []) and c not in UNRELATED.get(m["file"], [])]
                    res["status"] = "survived"
                    for pr in order:
                        try:
                            r = subprocess.run([os.path.join(vcopy, "bin", "check"), pr], env=env, capture_output=True, text=True, timeout=1500)
                        except subprocess.TimeoutExpired:
                            res["tried"].append(pr + ":timeout")
                            continue
                        vl = [l for l in r.stdout.split("\n") if l.startswith("VIOLATION")]
                        res["tried"].append("%s:%d" % (pr, r.returncode))
                        if vl:
                            concrete = not all(l.endswith("no-failing-input-found") for l in vl)
                            if res["caught_by"] is None:
                                res["caught_by"] = pr
                                res["what"] = vl[0][:200]
                            res["status"] = "caught"
                            if concrete:
                                res["concrete"] = pr
                                try:
                                    rp = [l for l in vl if not l.endswith("no-failing-input-found")][0].split("replay=")[1].split()[0]
                                    res["replay_head"] = "".join(open(rp).readlines()[:6])[:600]
                                except Exception:
                                    pass
                                break
                            try:
                                rp = vl[0].split("replay=")[1].split()[0]
                                res.setdefault("noinput", []).append(pr + ": " + " ".join(open(rp).read().split())[:160])
                            except Exception:
                                pass
                        if r.returncode not in (0, 1):
                            res.setdefault("broken", []).append(pr + ": " + (r.stdout[-200:] + r.stderr[-200:]))
        except subprocess.TimeoutExpired:
            res["status"] = "timeout"
        res["seconds"] = round(time.time() - t0, 1)
        with lock:
            with open(respath, "a") as f:
                f.write(json.dumps(res) + "\n")
        # forget the builds of this mutant
        cache = os.path.join(vcopy, ".cache")
        for n in os.listdir(cache):
            pth = os.path.join(cache, n)
            if os.path.isdir(pth) and re.fullmatch(r"[0-9a-f]{16}", n):
                shutil.rmtree(pth, ignore_errors=True)
        shutil.rmtree(ev, ignore_errors=True)
    subprocess.run(["git", "-C", REPO, "worktree", "remove", "--force", wt], capture_output=True)
    shutil.rmtree(wt, ignore_errors=True)
    shutil.rmtree(vcopy, ignore_errors=True)


def summary(path):
    rs = [json.loads(l) for l in open(path)]
    from collections import Counter
    print("mutants:", len(rs), dict(Counter(r["status"] for r in rs)))
    live = [r for r in rs if r["status"] in ("caught", "survived")]
    print("compile and pass the package's tests:", len(live), " caught:", sum(r["status"] == "caught" for r in live),
          " with a concrete input:", sum(bool(r.get("concrete")) for r in live))
    print("first alarm by:", dict(Counter(r["caught_by"] for r in live if r["caught_by"])))
    print("concrete input by:", dict(Counter(r["concrete"] for r in live if r.get("concrete"))))
    print("caught without a failing input (source pin / fact / correspondence only):")
    for r in live:
        if r["status"] == "caught" and not r.get("concrete"):
            print("  %-28s %s   -->   %s   [%s]" % (r["id"], r["old"][:80], r["new"][:80], r["caught_by"]))
    print("per operator:", dict(Counter((r["op"], r["status"]) for r in live)))
    print("survivors:")
    for r in live:
        if r["status"] == "survived":
            print("  %-28s %s   -->   %s" % (r["id"], r["old"][:90], r["new"][:90]))
    for r in rs:
        if r.get("broken"):
            print("BROKEN CHECK", r["id"], r["broken"][:2])


def main():
    ap = argparse.ArgumentParser()
    ap.add_argument("--workers", type=int, default=5)
    ap.add_argument("--files", default=",".join(FILES))
    ap.add_argument("--ops", default="")
    ap.add_argument("--limit", type=int, default=0)
    ap.add_argument("--sample", default="")
    ap.add_argument("--out", default="/var/tmp/mutsweep")
    ap.add_argument("--list", action="store_true")
    ap.add_argument("--summary", default="")
    ap.add_argument("--only", default="", help="comma separated mutant ids")
    a = ap.parse_args()
    if a.summary:
        return summary(a.summary)
    ms = gen_mutants(a.files.split(","), set(a.ops.split(",")) if a.ops else None)
    if a.only:
        ms = [m for m in ms if m["id"] in a.only.split(",")]
    if a.sample:
        k, n = map(int, a.sample.split("/"))
        ms = [m for i, m in enumerate(ms) if i % n == k]
    if a.limit:
        ms = ms[:a.limit]
    if a.list:
        for m in ms:
            print("%-30s %s   -->   %s" % (m["id"], m["old"][:80], m["new"][:80]))
        print(len(ms), "mutants")
        return
    os.makedirs(a.out, exist_ok=True)
    respath = os.path.join(a.out, "results.jsonl")
    done = set()
    if os.path.exists(respath):
        done = {json.loads(l)["id"] for l in open(respath)}
    ms = [m for m in ms if m["id"] not in done]
    print("%d mutants to run (%d already done)" % (len(ms), len(done)), flush=True)
    q = mp.Queue()
    lock = mp.Lock()
    for m in ms:
        q.put(m)
    for _ in range(a.workers):
        q.put(None)
    ps = [mp.Process(target=worker, args=(w, q, a.out, respath, lock, ALL)) for w in range(a.workers)]
    for p in ps:
        p.start()
    for p in ps:
        p.join()
    summary(respath)


if __name__ == "__main__":
    main()
