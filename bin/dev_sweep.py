#!/usr/bin/env python3
"""Development tool: run N general histories through harness and model and summarise divergences."""
import collections
import os
import random
import sys

sys.path.insert(0, os.path.dirname(os.path.dirname(os.path.abspath(__file__))))
from vlib import env, gen, run, monitors

n = int(sys.argv[1]) if len(sys.argv) > 1 else 50
seed = int(sys.argv[2]) if len(sys.argv) > 2 else 1
feats = tuple(sys.argv[3].split(",")) if len(sys.argv) > 3 and sys.argv[3] else ()
steps = int(sys.argv[4]) if len(sys.argv) > 4 else 30
hbin = env.build_harness("ft")
scripts = []
for i in range(n):
    rnd = random.Random(seed * 1000003 + i)
    scripts.append(("g%d" % i, gen.general(rnd, nsteps=steps, features=feats)))
res = run.run_batch(hbin, scripts)
cnt = collections.Counter()
shown = 0
for r in res:
    if r.status == "infra":
        cnt["infra"] += 1
        print("INFRA", r.name, r.error)
        continue
    if r.status == "abort":
        cnt["abort"] += 1
    if r.div:
        key = (r.div["kind"], tuple(r.div["channels"]))
        cnt[key] += 1
        if shown < int(os.environ.get("SHOW", "3")):
            shown += 1
            print("=== ", r.name, r.div["idx"], r.div["op"], r.div["channels"])
            for l in r.div["impl"][:6]:
                print("  impl :", l[:230])
            for l in r.div["model"][:6]:
                print("  model:", l[:230])
            if os.environ.get("DUMP"):
                open("/tmp/div_%s.script" % r.name, "w").write(r.script)
    else:
        cnt["agree"] += 1
mc = collections.Counter()
mshown = collections.Counter()
for r in res:
    if r.status == "infra":
        continue
    for side, blocks in (("impl", r.blocks), ("model", r.mblocks)):
        if not blocks:
            continue
        try:
            v = monitors.run_monitors(blocks)
        except Exception as e:
            import traceback
            traceback.print_exc()
            print("MONITOR CRASH", r.name, side)
            open("/tmp/crash_%s.script" % r.name, "w").write(r.script)
            continue
        for p, vs in v.items():
            mc[(side, p)] += 1
            if mshown[(side, p)] < int(os.environ.get("MSHOW", "2")):
                mshown[(side, p)] += 1
                print("MON", side, p, r.name, vs[0])
                if os.environ.get("DUMP"):
                    open("/tmp/mon_%s_%s.script" % (p, r.name), "w").write(r.script)
print(cnt)
print(sorted(mc.items()))
