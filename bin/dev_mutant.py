#!/usr/bin/env python3
"""Development tool: apply a patch to a scratch copy of /repo, confirm the baseline suite still passes, run the given
checks against the scratch copy (evidence written to a scratch directory), report which checks alarm. Never touches /repo.
usage: dev_mutant.py <patch.diff | 'sed:<file>:<python-regex>:<replacement>'> C01 C02 ...  (no props = all lifecycle)"""
import os, re, shutil, subprocess, sys, tempfile
V = os.path.dirname(os.path.dirname(os.path.abspath(__file__)))
patch = sys.argv[1]
props = sys.argv[2:] or ["C01","C02","C03","C04","C05","C06","C07","C08","C09","C10","C11","C12","C18"]
d = tempfile.mkdtemp(prefix="mut-", dir="/var/tmp")
try:
    repo = os.path.join(d, "repo")
    subprocess.run(["git", "-C", "/repo", "worktree", "add", "--detach", "-q", repo, "HEAD"], check=True)
    if patch.startswith("sed@"):
        _, fn, pat, repl = patch.split("@", 3)
        p = os.path.join(repo, fn)
        s = open(p).read()
        s2, n = re.subn(pat, repl, s, count=1)
        if n != 1:
            print("pattern did not match"); sys.exit(2)
        open(p, "w").write(s2)
    else:
        subprocess.run(["git", "-C", repo, "apply", os.path.abspath(patch)], check=True)
    print(subprocess.run(["git", "-C", repo, "diff", "--stat"], capture_output=True, text=True).stdout.strip())
    b = subprocess.run([sys.executable, os.path.join(V, "bin", "baseline.py"), repo], capture_output=True, text=True)
    print(b.stdout.strip())
    env = dict(os.environ, VERIF_REPO=repo, VERIF_EVIDENCE=os.path.join(d, "evidence"))
    caught = []
    for pr in props:
        r = subprocess.run([os.path.join(V, "bin", "check"), pr], env=env, capture_output=True, text=True)
        lines = [l for l in r.stdout.split("\n") if l.startswith("VIOLATION")]
        nf = sum(1 for l in lines if l.endswith("no-failing-input-found"))
        print("%s exit=%d violations=%d (no-input %d) %s" % (pr, r.returncode, len(lines), nf, (r.stdout.split("VIOLATION")[1].split("\n")[1].strip()[:150] if lines else "")))
        if r.returncode not in (0, 1):
            print(r.stdout[-500:], r.stderr[-500:])
        if lines:
            caught.append(pr)
            if os.environ.get("SHOWREPLAY"):
                rp = lines[0].split("replay=")[1].split()[0]
                print("".join(open(rp).readlines()[:int(os.environ["SHOWREPLAY"])]))
    print("CAUGHT BY:", " ".join(caught) or "none")
finally:
    subprocess.run(["git", "-C", "/repo", "worktree", "remove", "--force", os.path.join(d, "repo")])
    shutil.rmtree(d, ignore_errors=True)
