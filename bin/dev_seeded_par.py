#!/usr/bin/env python3
"""Development tool: run the seeded-change confirmation (bin/dev_seeded.py) for many changes in parallel, each worker in
its own copy of /verif (the checks of one copy share lean/Sessions/Generated/Facts.lean). Confirmed changes are copied
back into /verif/seeded.
usage: dev_seeded_par.py <dir with seeded/<id>/...> [--workers 4] [--ids C01_e,C02_f] [--props own|all|C01,C02]"""
import glob
import os
import queue
import shutil
import subprocess
import sys
import threading

V = os.path.dirname(os.path.dirname(os.path.abspath(__file__)))
src = sys.argv[1]
workers, ids, props = 4, None, "own"
for i, a in enumerate(sys.argv):
    if a == "--workers":
        workers = int(sys.argv[i + 1])
    if a == "--ids":
        ids = sys.argv[i + 1].split(",")
    if a == "--props":
        props = sys.argv[i + 1]
todo = [os.path.basename(d) for d in sorted(glob.glob(os.path.join(src, "seeded", "*_*")))
        if os.path.exists(os.path.join(d, "patch.diff")) and glob.glob(os.path.join(d, "*_test.go"))]
if ids:
    todo = [t for t in todo if t in ids]
q = queue.Queue()
for t in todo:
    q.put(t)
lock = threading.Lock()


def work(w):
    vc = "/var/tmp/vseedpar%d_%d" % (os.getpid(), w)
    subprocess.run(["rsync", "-a", "--delete", "--exclude", ".git", "--exclude", "evidence", "--exclude", "design-spikes",
                    "--exclude", "seeded", V + "/", vc + "/"], check=True)
    os.makedirs(os.path.join(vc, "seeded"), exist_ok=True)
    while True:
        try:
            sid = q.get_nowait()
        except queue.Empty:
            break
        own = sid.split("_")[0]
        if props == "own":
            pr = own
        elif props == "all":
            pr = ",".join("C%02d" % i for i in range(1, 21))
        else:
            pr = props
        r = subprocess.run([sys.executable, os.path.join(vc, "bin", "dev_seeded.py"), src, "--only", sid, "--props", pr],
                           capture_output=True, text=True)
        with lock:
            print(r.stdout.split("SUMMARY")[0].rstrip())
            if r.returncode != 0:
                print(sid, "runner failed:", r.stderr[-400:])
            sys.stdout.flush()
            d = os.path.join(vc, "seeded", sid)
            if os.path.isdir(d):
                dst = os.path.join(V, "seeded", sid)
                if os.path.isdir(dst):
                    shutil.rmtree(dst)
                shutil.copytree(d, dst)
    shutil.rmtree(vc, ignore_errors=True)


ts = [threading.Thread(target=work, args=(w,)) for w in range(workers)]
for t in ts:
    t.start()
for t in ts:
    t.join()
