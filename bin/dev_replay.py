#!/usr/bin/env python3
"""Development tool: run one script on harness (+model) and print monitor verdicts."""
import os, sys
sys.path.insert(0, os.path.dirname(os.path.dirname(os.path.abspath(__file__))))
from vlib import env, run, monitors
hbin = env.build_harness("ft")
for p in sys.argv[1:]:
    r = run.run_batch(hbin, [(p, open(p).read())])[0]
    print("==", os.path.basename(p), "status", r.status, r.error or "")
    if r.blocks:
        for prop, vs in monitors.run_monitors(r.blocks).items():
            for v in vs[:3]:
                print("   impl ", prop, v)
    if r.mblocks:
        for prop, vs in monitors.run_monitors(r.mblocks).items():
            for v in vs[:3]:
                print("   MODEL", prop, v)
    if r.div:
        print("   divergence:", r.div["idx"], r.div["op"], r.div["channels"])
        for l in r.div["impl"][:4]: print("      impl :", l[:200])
        for l in r.div["model"][:4]: print("      model:", l[:200])
    if os.environ.get("SHOWT"):
        print(r.impl_text)
