module verifextract

go 1.21
