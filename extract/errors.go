package main

import (
	"fmt"
	"go/ast"
	"sort"
	"strings"
)

// Error-check table (C11): every call whose result includes an error coming (directly or through the cache) from the
// persistence layer, and what the caller does with that error:
//   "checked"  bound and tested at once with a return in the error branch whose error result is not the literal nil
//   "swallowed" bound and tested at once, but the error branch returns nil as the error
//   "returned" returned to the caller as is
//   "dropped"  result discarded (expression statement, blank identifier, or inside a go statement)
//   "bound"    bound but not tested by the next statement

func init() { register("error handling", emitErrors) }

var errCallees = map[string]bool{
	"Persistence.LoadSession": true, "Persistence.SaveSession": true, "Persistence.DeleteSession": true,
	"Persistence.UserSessions": true, "Persistence.LoadUser": true,
	"sessions.Get": true, "sessions.Set": true, "sessions.Delete": true, "c.compact": true,
	"s.RegenerateID": true, "session.RegenerateID": true, "s.LogOut": true, "session.LogOut": true, "LogOut": true,
	"s.Destroy": true, "session.Destroy": true, "generateSessionID": true,
}

type errSite struct {
	fn, callee, handling string
	line                 int
}

func emitErrors(c *Ctx) {
	var sites []errSite
	fns := c.FuncDecls()
	names := make([]string, 0, len(fns))
	for n := range fns {
		names = append(names, n)
	}
	sort.Strings(names)
	for _, name := range names {
		fd := fns[name]
		if fd.Body == nil {
			continue
		}
		var walkBlock func(list []ast.Stmt, inGo bool)
		calleeOf := func(e ast.Expr) (string, *ast.CallExpr) {
			ce, ok := e.(*ast.CallExpr)
			if !ok {
				return "", nil
			}
			t := exprText(c, ce.Fun)
			if errCallees[t] {
				return t, ce
			}
			return "", nil
		}
		// the error branch returns, and what it returns as its last result is not the literal nil
		returnsError := func(body *ast.BlockStmt) (returns, nonNil bool) {
			for _, b := range body.List {
				if r, ok := b.(*ast.ReturnStmt); ok {
					returns = true
					nonNil = len(r.Results) > 0 && exprText(c, r.Results[len(r.Results)-1]) != "nil"
					return
				}
			}
			return
		}
		// "checked", "swallowed" (the error branch returns nil as the error) or "" (not an error test)
		errTest := func(s ast.Stmt) string {
			is, ok := s.(*ast.IfStmt)
			if !ok || is.Init != nil {
				return ""
			}
			cond := exprText(c, is.Cond)
			if cond != "err != nil" && cond != "e != nil" {
				return ""
			}
			returns, nonNil := returnsError(is.Body)
			if !returns {
				return ""
			}
			if !nonNil {
				return "swallowed"
			}
			return "checked"
		}
		record := func(callee string, ce *ast.CallExpr, handling string) {
			sites = append(sites, errSite{name, callee, handling, c.Fset.Position(ce.Pos()).Line})
		}
		var walkStmt func(s ast.Stmt, next ast.Stmt, inGo bool)
		walkStmt = func(s ast.Stmt, next ast.Stmt, inGo bool) {
			switch x := s.(type) {
			case *ast.ExprStmt:
				if callee, ce := calleeOf(x.X); ce != nil {
					record(callee, ce, "dropped")
				}
			case *ast.ReturnStmt:
				for _, r := range x.Results {
					if callee, ce := calleeOf(r); ce != nil {
						record(callee, ce, "returned")
					}
				}
			case *ast.AssignStmt:
				for _, r := range x.Rhs {
					callee, ce := calleeOf(r)
					if ce == nil {
						continue
					}
					last := exprText(c, x.Lhs[len(x.Lhs)-1])
					switch {
					case last == "_":
						record(callee, ce, "dropped")
					case inGo:
						record(callee, ce, "dropped")
					case next != nil && errTest(next) != "":
						record(callee, ce, errTest(next))
					default:
						record(callee, ce, "bound")
					}
				}
			case *ast.IfStmt:
				if as, ok := x.Init.(*ast.AssignStmt); ok {
					for _, r := range as.Rhs {
						if callee, ce := calleeOf(r); ce != nil {
							cond := exprText(c, x.Cond)
							returns, nonNil := returnsError(x.Body)
							switch {
							case (cond == "err != nil" || cond == "e != nil") && returns && nonNil:
								record(callee, ce, "checked")
							case (cond == "err != nil" || cond == "e != nil") && returns:
								record(callee, ce, "swallowed")
							default:
								record(callee, ce, "bound")
							}
						}
					}
				}
				walkBlock(x.Body.List, inGo)
				if x.Else != nil {
					if eb, ok := x.Else.(*ast.BlockStmt); ok {
						walkBlock(eb.List, inGo)
					} else {
						walkStmt(x.Else, nil, inGo)
					}
				}
			case *ast.ForStmt:
				walkBlock(x.Body.List, inGo)
			case *ast.RangeStmt:
				walkBlock(x.Body.List, inGo)
			case *ast.BlockStmt:
				walkBlock(x.List, inGo)
			case *ast.GoStmt:
				if fl, ok := x.Call.Fun.(*ast.FuncLit); ok {
					walkBlock(fl.Body.List, true)
				}
			case *ast.DeferStmt:
				if callee, ce := calleeOf(x.Call); ce != nil {
					record(callee, ce, "dropped")
				}
			case *ast.SwitchStmt:
				walkBlock(x.Body.List, inGo)
			case *ast.SelectStmt:
				walkBlock(x.Body.List, inGo)
			case *ast.CaseClause:
				walkBlock(x.Body, inGo)
			case *ast.CommClause:
				walkBlock(x.Body, inGo)
			}
		}
		walkBlock = func(list []ast.Stmt, inGo bool) {
			for i, s := range list {
				var next ast.Stmt
				if i+1 < len(list) {
					next = list[i+1]
				}
				walkStmt(s, next, inGo)
			}
		}
		// function literals assigned or called inside (other than go statements) are walked as part of the function
		walkBlock(fd.Body.List, false)
	}
	var rows []string
	for _, s := range sites {
		rows = append(rows, fmt.Sprintf("(%s, %d, %s, %s)", leanString(s.fn), s.line, leanString(s.callee), leanString(s.handling)))
	}
	fmt.Fprintf(c.Out, "/-- (function, line, callee, what happens to the error) -/\ndef errorSites : List (String × Nat × String × String) := [\n  %s]\n", strings.Join(rows, ",\n  "))
}
