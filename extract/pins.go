package main

import (
	"bytes"
	"crypto/sha256"
	"fmt"
	"go/ast"
	"go/printer"
	"strings"
)

// Source pins: the normalised text (comments and the add-only verifTrace calls removed, go/printer formatting) of the
// functions a hand-written transition system or decision procedure was transcribed from, with its SHA-256. The Lean side
// pins the hashes: when one of these functions changes in any way, the theorem `*_source_matches_model` stops checking
// and the check searches for a failing input (DESIGN.md §5.2).

func init() { register("source pins", emitPins) }

var pinned = []string{"newMutexes", "mutexes.getItem", "mutexes.Lock", "mutexes.Unlock", "cache.compact", "cache.Get", "cache.Set",
	"cache.Delete", "PurgeSessions", "generateSessionID", "RandomID", "CUID", "ReasonablePassword", "initPasswords"}

func stripTrace(n ast.Node) {
	ast.Inspect(n, func(x ast.Node) bool {
		bs, ok := x.(*ast.BlockStmt)
		if ok {
			bs.List = filterTrace(bs.List)
		}
		if cc, ok := x.(*ast.CommClause); ok {
			cc.Body = filterTrace(cc.Body)
		}
		if cc, ok := x.(*ast.CaseClause); ok {
			cc.Body = filterTrace(cc.Body)
		}
		return true
	})
}

func filterTrace(list []ast.Stmt) []ast.Stmt {
	out := list[:0:0]
	for _, s := range list {
		if es, ok := s.(*ast.ExprStmt); ok {
			if ce, ok := es.X.(*ast.CallExpr); ok {
				if id, ok := ce.Fun.(*ast.Ident); ok && id.Name == "verifTrace" {
					continue
				}
			}
		}
		out = append(out, s)
	}
	return out
}

func emitPins(c *Ctx) {
	fns := c.FuncDecls()
	var rows []string
	for _, name := range pinned {
		fd := fns[name]
		if fd == nil {
			c.Unrecognised = append(c.Unrecognised, "pinned function "+name+" not found")
			continue
		}
		fd.Doc = nil
		stripTrace(fd)
		var buf bytes.Buffer
		// printing the declaration alone (without the file's comment list) drops all comments
		printer.Fprint(&buf, c.Fset, fd)
		// blank lines left behind by removed comments/statements do not matter
		var lines []string
		for _, l := range strings.Split(buf.String(), "\n") {
			if strings.TrimSpace(l) != "" {
				lines = append(lines, strings.TrimRight(l, " \t"))
			}
		}
		text := strings.Join(lines, "\n")
		sum := sha256.Sum256([]byte(text))
		rows = append(rows, fmt.Sprintf("(%s, %s)", leanString(name), leanString(fmt.Sprintf("%x", sum[:]))))
	}
	fmt.Fprintf(c.Out, "/-- (function, SHA-256 of its normalised source) -/\ndef sourcePins : List (String × String) := [\n  %s]\n", strings.Join(rows, ",\n  "))
}
