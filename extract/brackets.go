package main

import (
	"fmt"
	"go/ast"
	"strings"
)

// Bracket facts: where the critical sections are that the sequential reasoning relies on.
//   startLockBracket   in Start, inside `if len(id) == 24 {`, the first statement is sessionIDMutexes.Lock(id), the second is
//                      `defer sessionIDMutexes.Unlock(id)`, and every use of the presented id's session (sessions.Get(id) and all
//                      later statements of Start) comes after them — the deferred unlock runs when Start returns
//   startLooksUpOnly24 the lookup of the presented id happens only inside that `if len(id) == 24` block
//   loginLockBracket   in LogIn, sessionIDMutexes.Lock(X); defer sessionIDMutexes.Unlock(X) precede s.RegenerateID
//   cuidLockBracket    CUID starts with lastMutex.Lock(); defer lastMutex.Unlock()
//   kvSingleSection    Set, Get, Delete, GetAndDelete each take the session lock exactly once and touch s.data only while holding it

func init() { register("critical-section brackets", emitBrackets) }

func stmtText(c *Ctx, s ast.Stmt) string { return exprText(c, s) }

func emitBrackets(c *Ctx) {
	fns := c.FuncDecls()
	o := c.Out
	b := func(name string, v bool) { fmt.Fprintf(o, "def %s : Bool := %v\n", name, v) }

	// ---- Start
	startOK, only24 := false, false
	if fd := fns["Start"]; fd != nil {
		var lockIf *ast.IfStmt
		for _, st := range fd.Body.List {
			if is, ok := st.(*ast.IfStmt); ok && is.Init == nil && exprText(c, is.Cond) == "len(id) == 24" {
				lockIf = is
				break
			}
		}
		if lockIf != nil && len(lockIf.Body.List) >= 3 &&
			stmtText(c, lockIf.Body.List[0]) == "sessionIDMutexes.Lock(id)" &&
			stmtText(c, lockIf.Body.List[1]) == "defer sessionIDMutexes.Unlock(id)" {
			lockPos := lockIf.Body.List[1].End()
			ok := true
			gets := 0
			ast.Inspect(fd.Body, func(n ast.Node) bool {
				ce, isCall := n.(*ast.CallExpr)
				if !isCall {
					return true
				}
				t := exprText(c, ce.Fun)
				switch t {
				case "sessions.Get", "sessions.Set", "sessions.Delete", "session.RegenerateID", "session.Destroy":
					if t == "sessions.Get" && len(ce.Args) == 1 && exprText(c, ce.Args[0]) == "id" {
						gets++
						if !(ce.Pos() > lockPos && ce.End() < lockIf.Body.End()) {
							ok = false
						}
					}
					if ce.Pos() < lockPos {
						ok = false
					}
				}
				return true
			})
			// the deferred unlock is the only release: a second Unlock(id) would let go of another request's hold
			unlocks := 0
			ast.Inspect(fd.Body, func(n ast.Node) bool {
				if ce, isCall := n.(*ast.CallExpr); isCall && exprText(c, ce.Fun) == "sessionIDMutexes.Unlock" {
					unlocks++
				}
				return true
			})
			locks := 0
			ast.Inspect(fd.Body, func(n ast.Node) bool {
				if ce, isCall := n.(*ast.CallExpr); isCall && exprText(c, ce.Fun) == "sessionIDMutexes.Lock" {
					locks++
				}
				return true
			})
			startOK = ok && gets == 1 && unlocks == 1 && locks == 1
			only24 = gets == 1
		}
	}
	b("startLockBracket", startOK)
	b("startLooksUpOnly24", only24)

	// ---- LogIn
	loginOK := false
	if fd := fns["Session.LogIn"]; fd != nil {
		list := fd.Body.List
		for i := 0; i+1 < len(list); i++ {
			t0, t1 := stmtText(c, list[i]), stmtText(c, list[i+1])
			if strings.HasPrefix(t0, "sessionIDMutexes.Lock(") && t1 == "defer sessionIDMutexes.Unlock("+strings.TrimSuffix(strings.TrimPrefix(t0, "sessionIDMutexes.Lock("), ")")+")" {
				// RegenerateID must come after, and nowhere before
				before, after := false, false
				ast.Inspect(fd.Body, func(n ast.Node) bool {
					if ce, ok := n.(*ast.CallExpr); ok && exprText(c, ce.Fun) == "s.RegenerateID" {
						if ce.Pos() > list[i+1].End() {
							after = true
						} else {
							before = true
						}
					}
					return true
				})
				loginOK = after && !before
			}
		}
	}
	b("loginLockBracket", loginOK)

	// ---- CUID
	cuidOK := false
	if fd := fns["CUID"]; fd != nil && len(fd.Body.List) >= 2 {
		cuidOK = stmtText(c, fd.Body.List[0]) == "lastMutex.Lock()" && stmtText(c, fd.Body.List[1]) == "defer lastMutex.Unlock()"
	}
	b("cuidLockBracket", cuidOK)

	// ---- key/value operations: one critical section each
	kvOK := true
	for _, name := range []string{"Session.Set", "Session.Get", "Session.Delete", "Session.GetAndDelete"} {
		fd := fns[name]
		if fd == nil {
			kvOK = false
			continue
		}
		acquires := 0
		ast.Inspect(fd.Body, func(n ast.Node) bool {
			if ce, ok := n.(*ast.CallExpr); ok {
				t := exprText(c, ce.Fun)
				if t == "s.Lock" || t == "s.RLock" {
					acquires++
				}
			}
			return true
		})
		if acquires != 1 {
			kvOK = false
		}
	}
	b("kvSingleSection", kvOK)
}
