package main

import (
	"fmt"
	"go/ast"
	"go/token"
	"sort"
	"strings"
)

// Decision logic: every condition the package decides on, as an expression TREE (not text), regenerated on every run.
//
// For each function of interest the emitter walks the body and writes, in source order,
//   - the condition of every `if` and every three-clause / condition-only `for`,
//   - the right-hand side of every plain assignment `x = <expr>` to a variable that is also used as an `if` condition
//     operand (the `valid` flag of Start),
//   - the results of `return` statements of functions returning a single bool (Expired),
//   - the arguments of `time.Sleep(...)` and of `.Add(...)` calls (the grace period of the clean-up goroutine, the back-dated
//     access time of a reference record).
// Local variables that are defined exactly once in the function by `x := e` (or `a, b := e1, e2`) and never assigned again
// are INLINED (age := time.Since(session.created) makes `age >= SessionIDExpiry` read
// `time.Since(session.created) >= SessionIDExpiry`), so the Lean side sees which field a threshold is measured from.
// The Lean theorems (Sessions/FactsConds.lean) evaluate these trees for ALL values of the variables and prove them equal to the
// predicates of the model; a harmless rewrite (`b <= a` for `a >= b`, De Morgan, reordered conjuncts) keeps them provable by the
// same tactic, a changed operator, operand, constant or a dropped conjunct does not.
//
// Fails closed: an expression kind the emitter does not know becomes `.unk "<text>"`, which evaluates to `none`.

func init() { register("decision logic", emitConds) }

var condFuncs = []string{"Start", "Session.Expired", "Session.RegenerateID", "cache.Get", "cache.Set", "cache.compact"}

func emitConds(c *Ctx) {
	fns := c.FuncDecls()
	o := c.Out
	o.WriteString("open Ce in\ndef conds : List (String × String × String × Ce.GE) := [\n")
	first := true
	for _, name := range condFuncs {
		fd := fns[name]
		if fd == nil || fd.Body == nil {
			c.Unrecognised = append(c.Unrecognised, "conds: function "+name+" not found")
			continue
		}
		for _, e := range condsOf(c, name, fd) {
			if !first {
				o.WriteString(",\n")
			}
			first = false
			fmt.Fprintf(o, "  (%s, %s, %s, %s)", leanString(name), leanString(e.kind), leanString(e.detail), e.tree)
		}
	}
	o.WriteString("]\n")
}

type condEntry struct{ kind, detail, tree string }

// single-definition locals of a function: name -> defining expression
func singleDefs(fd *ast.FuncDecl) map[string]ast.Expr {
	defs := map[string]ast.Expr{}
	count := map[string]int{}
	note := func(lhs ast.Expr, rhs ast.Expr, define bool) {
		id, ok := lhs.(*ast.Ident)
		if !ok || id.Name == "_" {
			return
		}
		count[id.Name]++
		if define && rhs != nil {
			defs[id.Name] = rhs
		} else {
			count[id.Name] += 100 // a plain assignment, or a definition without its own right-hand side: never inline
		}
	}
	ast.Inspect(fd.Body, func(n ast.Node) bool {
		switch s := n.(type) {
		case *ast.AssignStmt:
			for i, l := range s.Lhs {
				var r ast.Expr
				if len(s.Rhs) == len(s.Lhs) {
					r = s.Rhs[i]
				}
				note(l, r, s.Tok == token.DEFINE)
			}
		case *ast.RangeStmt:
			if s.Key != nil {
				note(s.Key, nil, false)
			}
			if s.Value != nil {
				note(s.Value, nil, false)
			}
		case *ast.IncDecStmt:
			note(s.X, nil, false)
		case *ast.ValueSpec:
			for _, nm := range s.Names {
				count[nm.Name] += 100
			}
		}
		return true
	})
	for _, f := range fd.Type.Params.List {
		for _, nm := range f.Names {
			count[nm.Name] += 100
		}
	}
	out := map[string]ast.Expr{}
	for k, v := range defs {
		if count[k] == 1 {
			out[k] = v
		}
	}
	return out
}

func condsOf(c *Ctx, fname string, fd *ast.FuncDecl) []condEntry {
	defs := singleDefs(fd)
	var out []condEntry
	tr := func(e ast.Expr) string { return geTree(c, e, defs, 0) }
	// variables used bare as an operand of a condition (`valid && …`, `!valid`)
	flags := map[string]bool{}
	var markFlags func(e ast.Expr)
	markFlags = func(e ast.Expr) {
		switch x := e.(type) {
		case *ast.Ident:
			if _, inl := defs[x.Name]; !inl {
				flags[x.Name] = true
			}
		case *ast.ParenExpr:
			markFlags(x.X)
		case *ast.UnaryExpr:
			if x.Op == token.NOT {
				markFlags(x.X)
			}
		case *ast.BinaryExpr:
			if x.Op == token.LAND || x.Op == token.LOR {
				markFlags(x.X)
				markFlags(x.Y)
			}
		}
	}
	ast.Inspect(fd.Body, func(n ast.Node) bool {
		switch s := n.(type) {
		case *ast.IfStmt:
			markFlags(s.Cond)
		case *ast.ForStmt:
			if s.Cond != nil {
				markFlags(s.Cond)
			}
		}
		return true
	})
	boolResult := fd.Type.Results != nil && len(fd.Type.Results.List) == 1 && exprText(c, fd.Type.Results.List[0].Type) == "bool"
	ast.Inspect(fd.Body, func(n ast.Node) bool {
		switch s := n.(type) {
		case *ast.FuncLit:
			// the clean-up goroutine: its Sleep argument is what we want, walk on
			return true
		case *ast.IfStmt:
			out = append(out, condEntry{"if", "", tr(s.Cond)})
		case *ast.ForStmt:
			if s.Cond != nil {
				detail := ""
				if s.Init != nil {
					detail = exprText(c, s.Init)
				}
				if s.Post != nil {
					detail += " ; " + exprText(c, s.Post)
				}
				out = append(out, condEntry{"for", detail, tr(s.Cond)})
			}
		case *ast.AssignStmt:
			if s.Tok == token.ASSIGN && len(s.Lhs) == 1 && len(s.Rhs) == 1 {
				if id, ok := s.Lhs[0].(*ast.Ident); ok && flags[id.Name] {
					out = append(out, condEntry{"set", id.Name, tr(s.Rhs[0])})
				}
			}
		case *ast.ReturnStmt:
			if boolResult && len(s.Results) == 1 {
				out = append(out, condEntry{"return", "", tr(s.Results[0])})
			}
		case *ast.CallExpr:
			t := exprText(c, s.Fun)
			if t == "time.Sleep" && len(s.Args) == 1 {
				out = append(out, condEntry{"sleep", "", tr(s.Args[0])})
			}
			if sel, ok := s.Fun.(*ast.SelectorExpr); ok && sel.Sel.Name == "Add" && len(s.Args) == 1 {
				out = append(out, condEntry{"add", "", tr(s)})
			}
		}
		return true
	})
	return out
}

var geBinOps = map[token.Token]string{
	token.LAND: "and", token.LOR: "or", token.EQL: "eq", token.NEQ: "ne", token.LSS: "lt", token.LEQ: "le",
	token.GTR: "gt", token.GEQ: "ge", token.ADD: "add", token.SUB: "sub",
}

// geTree renders an expression as a Lean term of type Ce.GE.
func geTree(c *Ctx, e ast.Expr, defs map[string]ast.Expr, depth int) string {
	rec := func(x ast.Expr) string { return geTree(c, x, defs, depth+1) }
	unk := func() string { return "(.unk " + leanString(exprText(c, e)) + ")" }
	if depth > 40 {
		return unk()
	}
	switch x := e.(type) {
	case *ast.ParenExpr:
		return rec(x.X)
	case *ast.Ident:
		switch x.Name {
		case "nil":
			return ".nil"
		case "true":
			return "(.bool true)"
		case "false":
			return "(.bool false)"
		}
		if d, ok := defs[x.Name]; ok {
			return rec(d)
		}
		return "(.var " + leanString(x.Name) + ")"
	case *ast.BasicLit:
		switch x.Kind {
		case token.INT:
			return "(.int " + x.Value + ")"
		case token.STRING:
			if strings.HasPrefix(x.Value, "\"") {
				return "(.str " + x.Value + ")"
			}
			return "(.str " + leanString(strings.Trim(x.Value, "`")) + ")"
		}
		return unk()
	case *ast.UnaryExpr:
		switch x.Op {
		case token.NOT:
			return "(.not " + rec(x.X) + ")"
		case token.SUB:
			return "(.neg " + rec(x.X) + ")"
		}
		return unk()
	case *ast.BinaryExpr:
		if op, ok := geBinOps[x.Op]; ok {
			return "(.bin ." + op + " " + rec(x.X) + " " + rec(x.Y) + ")"
		}
		return unk()
	case *ast.SelectorExpr:
		// package-qualified names and field selections
		if id, ok := x.X.(*ast.Ident); ok {
			if _, inl := defs[id.Name]; !inl {
				return "(.sel " + leanString(id.Name) + " " + leanString(x.Sel.Name) + ")"
			}
		}
		return "(.fld " + rec(x.X) + " " + leanString(x.Sel.Name) + ")"
	case *ast.IndexExpr:
		return "(.idx " + rec(x.X) + " " + rec(x.Index) + ")"
	case *ast.CallExpr:
		fn := exprText(c, x.Fun)
		if sel, ok := x.Fun.(*ast.SelectorExpr); ok {
			// method call on a value: receiver becomes the first argument, unless it is a package function
			if id, ok := sel.X.(*ast.Ident); ok && (id.Name == "time" || id.Name == "regexp" || id.Name == "strings" || id.Name == "Persistence" || id.Name == "sessions") {
				// package-level function or well-known global
			} else {
				args := []string{rec(sel.X)}
				for _, a := range x.Args {
					args = append(args, rec(a))
				}
				return geCall("."+sel.Sel.Name, args, unk)
			}
		}
		var args []string
		for _, a := range x.Args {
			args = append(args, rec(a))
		}
		return geCall(fn, args, unk)
	}
	return unk()
}

func geCall(fn string, args []string, unk func() string) string {
	switch len(args) {
	case 0:
		return "(.call0 " + leanString(fn) + ")"
	case 1:
		return "(.call1 " + leanString(fn) + " " + args[0] + ")"
	case 2:
		return "(.call2 " + leanString(fn) + " " + args[0] + " " + args[1] + ")"
	}
	return unk()
}

var _ = sort.Strings
