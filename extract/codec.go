package main

import (
	"bytes"
	"fmt"
	"go/ast"
	"go/printer"
	"go/token"
	"strings"
)

// Codec programs: GobEncode/GobDecode as ordered field operations, MarshalJSON/UnmarshalJSON as key tables.

func init() { register("codec programs", emitCodec) }

func exprText(c *Ctx, e ast.Node) string {
	var buf bytes.Buffer
	printer.Fprint(&buf, c.Fset, e)
	return strings.Join(strings.Fields(buf.String()), " ")
}

// gobFieldOf maps the text of an encoded expression / a decode target to a field name.
func gobFieldOf(text string) string {
	switch strings.TrimPrefix(text, "&") {
	case "s.created":
		return ".fld .created"
	case "s.lastAccess":
		return ".fld .lastAccess"
	case "s.lastIP":
		return ".fld .lastIP"
	case "s.lastUserAgentHash":
		return ".fld .ua"
	case "s.referenceID":
		return ".fld .ref"
	case "s.data":
		return ".fld .data"
	}
	return ""
}

// callsOn finds, in order, calls `recv.method(arg)` in the body, with the chain of enclosing if-conditions.
func callsOn(c *Ctx, body *ast.BlockStmt, recv, method string) (args []string, guards []string) {
	var walk func(n ast.Node, guard string)
	walk = func(n ast.Node, guard string) {
		switch x := n.(type) {
		case *ast.BlockStmt:
			for _, s := range x.List {
				walk(s, guard)
			}
		case *ast.IfStmt:
			if x.Init != nil {
				walk(x.Init, guard)
			}
			// a call inside the condition's init belongs to the enclosing guard; the body is guarded by the condition
			// unless the condition is the usual error test
			cond := exprText(c, x.Cond)
			g := guard
			if cond != "err != nil" && cond != "e != nil" {
				g = strings.TrimSpace(guard + " " + cond)
			}
			walk(x.Body, g)
			if x.Else != nil {
				walk(x.Else, strings.TrimSpace(guard+" !("+cond+")"))
			}
		case *ast.AssignStmt:
			for _, r := range x.Rhs {
				walk(r, guard)
			}
		case *ast.ExprStmt:
			walk(x.X, guard)
		case *ast.CallExpr:
			if se, ok := x.Fun.(*ast.SelectorExpr); ok {
				if id, ok := se.X.(*ast.Ident); ok && id.Name == recv && se.Sel.Name == method && len(x.Args) == 1 {
					args = append(args, exprText(c, x.Args[0]))
					guards = append(guards, guard)
				}
			}
		}
	}
	walk(body, "")
	return
}

func emitCodec(c *Ctx) {
	fns := c.FuncDecls()
	o := c.Out
	// ---- gob
	if fd := fns["Session.GobEncode"]; fd != nil {
		args, guards := callsOn(c, fd.Body, "encoder", "Encode")
		var ops []string
		for i, a := range args {
			g := guards[i]
			switch {
			case a == "uint8(1)" && g == "":
				ops = append(ops, ".version")
			case a == "s.user != nil" && g == "":
				ops = append(ops, ".userFlag")
			case strings.Contains(a, "s.user.GetID()") && g == "s.user != nil":
				ops = append(ops, ".userIdIfAny")
			case gobFieldOf(a) != "" && g == "":
				ops = append(ops, gobFieldOf(a))
			default:
				c.Unrecognised = append(c.Unrecognised, fmt.Sprintf("GobEncode: Encode(%s) under [%s]", a, g))
			}
		}
		fmt.Fprintf(o, "def gobEncodeProg : List Cd.EncOp := [%s]\n", strings.Join(ops, ", "))
	} else {
		c.Unrecognised = append(c.Unrecognised, "GobEncode not found")
		fmt.Fprintf(o, "def gobEncodeProg : List Cd.EncOp := []\n")
	}
	if fd := fns["Session.GobDecode"]; fd != nil {
		args, guards := callsOn(c, fd.Body, "decoder", "Decode")
		var ops []string
		for i, a := range args {
			g := guards[i]
			switch {
			case a == "&version" && g == "":
				ops = append(ops, ".version")
			case a == "&loggedIn" && g == "":
				ops = append(ops, ".userFlag")
			case a == "&userID" && g == "loggedIn":
				ops = append(ops, ".userIfFlag")
			case gobFieldOf(a) != "" && g == "" && strings.HasPrefix(a, "&"):
				ops = append(ops, gobFieldOf(a))
			default:
				c.Unrecognised = append(c.Unrecognised, fmt.Sprintf("GobDecode: Decode(%s) under [%s]", a, g))
			}
		}
		// the decoded user id must be handed to LoadUser and stored in s.user
		src := exprText(c, fd.Body)
		if !strings.Contains(src, "s.user, e = Persistence.LoadUser(userID.V)") {
			c.Unrecognised = append(c.Unrecognised, "GobDecode: the decoded user id is not loaded through Persistence.LoadUser into s.user")
		}
		fmt.Fprintf(o, "def gobDecodeProg : List Cd.DecOp := [%s]\n", strings.Join(ops, ", "))
	} else {
		c.Unrecognised = append(c.Unrecognised, "GobDecode not found")
		fmt.Fprintf(o, "def gobDecodeProg : List Cd.DecOp := []\n")
	}
	// ---- JSON
	emitMarshalJSON(c, fns["Session.MarshalJSON"])
	emitUnmarshalJSON(c, fns["Session.UnmarshalJSON"])
}

func jsonSrcOf(text string) string {
	switch text {
	case "1":
		return ".version"
	case "s.created.Format(time.RFC3339)":
		return ".created"
	case "s.lastAccess.Format(time.RFC3339)":
		return ".lastAccess"
	case "s.lastIP":
		return ".lastIP"
	case "strconv.FormatUint(s.lastUserAgentHash, 36)":
		return ".ua"
	case "s.data":
		return ".data"
	case "s.referenceID":
		return ".ref"
	case "s.user.GetID()":
		return ".userID"
	}
	return ""
}

func emitMarshalJSON(c *Ctx, fd *ast.FuncDecl) {
	o := c.Out
	var entries []string
	if fd == nil {
		c.Unrecognised = append(c.Unrecognised, "MarshalJSON not found")
		fmt.Fprintf(o, "def jsonMarshalProg : List Cj.MEntry := []\n")
		return
	}
	add := func(key, val, cond string) {
		src := jsonSrcOf(val)
		lc := map[string]string{"": ".always", `s.referenceID != ""`: ".refNonEmpty", "s.user != nil": ".userNonNil"}[cond]
		if src == "" || lc == "" {
			c.Unrecognised = append(c.Unrecognised, fmt.Sprintf("MarshalJSON: %s = %s under [%s]", key, val, cond))
			return
		}
		entries = append(entries, fmt.Sprintf("⟨%s, %s, %s⟩", key, src, lc))
	}
	sawMarshal := false
	for _, st := range fd.Body.List {
		switch x := st.(type) {
		case *ast.AssignStmt:
			// m := map[string]interface{}{ "k": v, ... }
			if len(x.Rhs) == 1 {
				if cl, ok := x.Rhs[0].(*ast.CompositeLit); ok {
					for _, el := range cl.Elts {
						kv, ok := el.(*ast.KeyValueExpr)
						if !ok {
							c.Unrecognised = append(c.Unrecognised, "MarshalJSON: map element without key")
							continue
						}
						add(exprText(c, kv.Key), exprText(c, kv.Value), "")
					}
					continue
				}
			}
			c.Unrecognised = append(c.Unrecognised, "MarshalJSON: "+exprText(c, x))
		case *ast.IfStmt:
			cond := exprText(c, x.Cond)
			for _, b := range x.Body.List {
				as, ok := b.(*ast.AssignStmt)
				if ok && len(as.Lhs) == 1 && len(as.Rhs) == 1 {
					if ix, ok := as.Lhs[0].(*ast.IndexExpr); ok {
						add(exprText(c, ix.Index), exprText(c, as.Rhs[0]), cond)
						continue
					}
				}
				c.Unrecognised = append(c.Unrecognised, "MarshalJSON: "+exprText(c, b))
			}
		case *ast.ReturnStmt:
			if exprText(c, x) == "return json.Marshal(m)" {
				sawMarshal = true
			} else {
				c.Unrecognised = append(c.Unrecognised, "MarshalJSON: "+exprText(c, x))
			}
		case *ast.ExprStmt, *ast.DeferStmt:
			t := exprText(c, x)
			if t != "s.RLock()" && t != "defer s.RUnlock()" {
				c.Unrecognised = append(c.Unrecognised, "MarshalJSON: "+t)
			}
		default:
			c.Unrecognised = append(c.Unrecognised, "MarshalJSON: "+exprText(c, x))
		}
	}
	if !sawMarshal {
		c.Unrecognised = append(c.Unrecognised, "MarshalJSON: no `return json.Marshal(m)`")
	}
	fmt.Fprintf(o, "def jsonMarshalProg : List Cj.MEntry := [%s]\n", strings.Join(entries, ", "))
}

// provenance of a local variable in UnmarshalJSON
type prov struct {
	key      string // JSON key the value came from (quoted Go literal)
	required bool
	conv     []string // assertions / parses applied so far
	nullable bool     // guarded by `x != nil`
}

func emitUnmarshalJSON(c *Ctx, fd *ast.FuncDecl) {
	o := c.Out
	if fd == nil {
		c.Unrecognised = append(c.Unrecognised, "UnmarshalJSON not found")
		fmt.Fprintf(o, "def jsonUnmarshalProg : List Cj.UEntry := []\n")
		return
	}
	vars := map[string]*prov{}
	var entries []string
	bad := func(n ast.Node) { c.Unrecognised = append(c.Unrecognised, "UnmarshalJSON: "+exprText(c, n)) }
	returnsErr := func(b *ast.BlockStmt) bool {
		if len(b.List) != 1 {
			return false
		}
		r, ok := b.List[0].(*ast.ReturnStmt)
		return ok && len(r.Results) == 1 && exprText(c, r.Results[0]) != "nil"
	}
	targetOf := map[string]string{"s.created": ".created", "s.lastAccess": ".lastAccess", "s.lastIP": ".lastIP", "s.lastUserAgentHash": ".ua",
		"s.referenceID": ".ref", "s.user": ".userID", "s.data": ".data"}
	emitEntry := func(p *prov, conv string, target string, n ast.Node) {
		lt := targetOf[target]
		var lc string
		chain := strings.Join(append(append([]string{}, p.conv...), conv), ">")
		switch chain {
		case "string>rfc3339":
			lc = ".timeRFC3339"
		case "string":
			lc = ".string"
		case "string>base36":
			lc = ".base36"
		case "loaduser":
			lc = ".loadUser"
		case "map":
			lc = ".mapStrict"
			if p.nullable {
				lc = ".mapOrNull"
			}
		}
		if lt == "" || lc == "" {
			bad(n)
			return
		}
		entries = append(entries, fmt.Sprintf("⟨%s, %v, %s, %s⟩", p.key, p.required, lc, lt))
	}
	// assignment `lhs0, lhs1 = rhs` (possibly the init of an if)
	handleAssign := func(as *ast.AssignStmt, nullableVar string) (lhs0 string, ok bool) {
		if len(as.Lhs) != 2 || len(as.Rhs) != 1 {
			return "", false
		}
		lhs0 = exprText(c, as.Lhs[0])
		switch r := as.Rhs[0].(type) {
		case *ast.IndexExpr: // v, ok = obj["k"]
			if exprText(c, r.X) != "obj" {
				return "", false
			}
			vars[lhs0] = &prov{key: exprText(c, r.Index)}
			return lhs0, true
		case *ast.TypeAssertExpr: // x, ok = v.(T)
			src := vars[exprText(c, r.X)]
			if src == nil {
				return "", false
			}
			t := exprText(c, r.Type)
			kind := map[string]string{"string": "string", "float64": "float64", "map[string]interface{}": "map"}[t]
			if kind == "" {
				return "", false
			}
			p := &prov{key: src.key, required: src.required, conv: append(append([]string{}, src.conv...), kind), nullable: src.nullable || exprText(c, r.X) == nullableVar}
			if _, isField := targetOf[lhs0]; isField {
				emitEntry(&prov{key: p.key, required: p.required, conv: src.conv, nullable: p.nullable}, kind, lhs0, as)
			} else {
				vars[lhs0] = p
			}
			return lhs0, true
		case *ast.CallExpr:
			fn := exprText(c, r.Fun)
			var argVar, conv string
			switch {
			case fn == "time.Parse" && len(r.Args) == 2 && exprText(c, r.Args[0]) == "time.RFC3339":
				argVar, conv = exprText(c, r.Args[1]), "rfc3339"
			case fn == "strconv.ParseUint" && len(r.Args) == 3 && exprText(c, r.Args[1]) == "36" && exprText(c, r.Args[2]) == "64":
				argVar, conv = exprText(c, r.Args[0]), "base36"
			case fn == "Persistence.LoadUser" && len(r.Args) == 1:
				argVar, conv = exprText(c, r.Args[0]), "loaduser"
			default:
				return "", false
			}
			src := vars[argVar]
			if src == nil {
				return "", false
			}
			emitEntry(src, conv, lhs0, as)
			return lhs0, true
		}
		return "", false
	}
	var walk func(list []ast.Stmt, nullableVar string)
	walk = func(list []ast.Stmt, nullableVar string) {
		for _, st := range list {
			switch x := st.(type) {
			case *ast.ExprStmt, *ast.DeferStmt:
				t := exprText(c, x)
				if t != "s.Lock()" && t != "defer s.Unlock()" {
					bad(x)
				}
			case *ast.DeclStmt:
				// variable declarations carry no behaviour
			case *ast.ReturnStmt:
				if exprText(c, x) != "return nil" {
					bad(x)
				}
			case *ast.AssignStmt:
				if _, ok := handleAssign(x, nullableVar); !ok {
					bad(x)
				}
			case *ast.IfStmt:
				cond := exprText(c, x.Cond)
				if x.Init == nil {
					switch {
					case cond == "version != 1" && returnsErr(x.Body):
						if p := vars["version"]; p != nil && len(p.conv) == 1 && p.conv[0] == "float64" {
							entries = append(entries, fmt.Sprintf("⟨%s, %v, .versionIs1, .version⟩", p.key, p.required))
						} else {
							bad(x)
						}
					case cond == "err != nil" && returnsErr(x.Body):
						// error test of the preceding assignment
					case strings.HasSuffix(cond, " != nil") && vars[strings.TrimSuffix(cond, " != nil")] != nil:
						walk(x.Body.List, strings.TrimSuffix(cond, " != nil"))
					default:
						bad(x)
					}
					continue
				}
				as, ok := x.Init.(*ast.AssignStmt)
				if !ok {
					bad(x)
					continue
				}
				// json.Unmarshal(data, &obj)
				if len(as.Lhs) == 1 && exprText(c, as.Rhs[0]) == "json.Unmarshal(data, &obj)" && cond == "err != nil" {
					continue
				}
				lhs0, ok := handleAssign(as, nullableVar)
				if !ok {
					bad(x)
					continue
				}
				switch {
				case cond == "!ok" && returnsErr(x.Body):
					if p := vars[lhs0]; p != nil && len(p.conv) == 0 {
						p.required = true
					}
				case cond == "err != nil" && returnsErr(x.Body):
				case cond == "ok":
					// optional key: the body handles the value
					walk(x.Body.List, nullableVar)
				default:
					bad(x)
				}
			default:
				bad(x)
			}
		}
	}
	walk(fd.Body.List, "")
	fmt.Fprintf(o, "def jsonUnmarshalProg : List Cj.UEntry := [%s]\n", strings.Join(entries, ", "))
	_ = token.NoPos
}
