package main

// Lock discipline facts (property C15): the table of every access to shared state and the lock that
// lexically encloses it.
//
//	structure Access  fn, line, recv, field, write, lock ("none" | "R" | "W" | "private" | "caller")
//	accesses          every selector access X.f where X is a Session and f one of its fields, every access to
//	                  the `sessions` map of a cache, every use of the CUID state (lastTime, lastCounter, macAddress)
//	compactCallSites  (function, line, the receiver's lock is held exclusively at the call) for every call of cache.compact
//	fieldWrites       (field, function, line) for every write to a Session field outside composite literals
//	decoderCalls      (function, line) for every call of GobDecode/UnmarshalJSON from package code (none expected: only
//	                  the encoding packages call them, on fresh objects)
//	lockUnrecognised  shapes the walker could not classify (must be empty; also added to the global list)
//
// The lock state is computed lexically, statement by statement, inside each function body: `X.Lock()`, `X.RLock()`,
// `X.Unlock()`, `X.RUnlock()` and `defer X.Unlock()/RUnlock()` on the same receiver text. A branch that ends in
// `return` does not influence the state after the statement; otherwise all ways through a statement must agree on the
// locks held (else: unrecognised, and the intersection is used). Function literals start with no locks. An access
// through a variable that holds an object created in the same function (composite literal, zero value) and not yet
// handed to anything else is "private"; so is everything in functions reachable only from `init()`. In cache.compact,
// which documents that its caller synchronises, accesses to the receiver's map are "caller" and the call sites are
// listed. Types are resolved from the declarations of the package without go/types; an access-like selector whose
// receiver type cannot be resolved is unrecognised (fails closed). What is NOT tracked: aliases of field addresses
// (`&X.f` is counted as a write where it is taken) and accesses made through reflection.

import (
	"fmt"
	"go/ast"
	"go/token"
	"sort"
	"strings"
)

func init() { register("lock discipline", emitLocks) }

var lkSessionFields = map[string]bool{"id": true, "user": true, "created": true, "lastAccess": true, "lastIP": true,
	"lastUserAgentHash": true, "referenceID": true, "data": true}
var lkCuidVars = map[string]bool{"lastTime": true, "lastCounter": true, "macAddress": true}

const lkCuidLock = "lastMutex"

type lkAccess struct {
	fn          string
	line        int
	recv, field string
	write       bool
	lock        string
}

type lkSite struct {
	fn   string
	line int
	held bool
}

// a call of the persistence layer from one of the cache's own functions
type lkPSite struct {
	fn, callee, lock string
	line             int
}

// lkPkg: declarations of the package, enough to resolve the types of the expressions that matter.
type lkPkg struct {
	c        *Ctx
	structs  map[string]map[string]ast.Expr // type -> field -> type
	types    map[string]ast.Expr            // named type -> underlying type expression
	ifaces   map[string]map[string]*ast.FuncType
	funcs    map[string]*ast.FuncType // "Recv.Name" | "Name"
	pkgVars  map[string]ast.Expr      // package-level variable -> type (nil: unknown)
	imports  map[string]bool          // names of imported packages
	callers  map[string]map[string]bool
	initOnly map[string]bool

	accesses []lkAccess
	sites    []lkSite
	psites   []lkPSite
	writes   []lkAccess
	decoders []lkSite
	unrec    []string
}

type lkFunc struct {
	p        *lkPkg
	name     string
	recvName string
	env      map[string]ast.Expr
	ambig    map[string]bool
	held     map[string]string
	private  map[string]bool
	loops    []map[string]string
	initOnly bool
}

func (p *lkPkg) bad(pos token.Pos, fn, format string, args ...interface{}) {
	line := p.c.Fset.Position(pos).Line
	p.unrec = append(p.unrec, fmt.Sprintf("locks: %s:%d %s", fn, line, fmt.Sprintf(format, args...)))
}

func lkRecvName(fd *ast.FuncDecl) (typ, name string) {
	if fd.Recv == nil || len(fd.Recv.List) != 1 {
		return "", ""
	}
	t := fd.Recv.List[0].Type
	if st, ok := t.(*ast.StarExpr); ok {
		t = st.X
	}
	if id, ok := t.(*ast.Ident); ok {
		typ = id.Name
	}
	if len(fd.Recv.List[0].Names) == 1 {
		name = fd.Recv.List[0].Names[0].Name
	}
	return
}

func lkFuncName(fd *ast.FuncDecl) string {
	if t, _ := lkRecvName(fd); t != "" {
		return t + "." + fd.Name.Name
	}
	return fd.Name.Name
}

func (p *lkPkg) collect() {
	names := make([]string, 0, len(p.c.Files))
	for n := range p.c.Files {
		names = append(names, n)
	}
	sort.Strings(names)
	for _, fname := range names {
		f := p.c.Files[fname]
		for _, im := range f.Imports {
			path := strings.Trim(im.Path.Value, `"`)
			n := path[strings.LastIndex(path, "/")+1:]
			if im.Name != nil {
				n = im.Name.Name
			}
			p.imports[n] = true
		}
		for _, d := range f.Decls {
			switch d := d.(type) {
			case *ast.FuncDecl:
				p.funcs[lkFuncName(d)] = d.Type
			case *ast.GenDecl:
				for _, sp := range d.Specs {
					switch sp := sp.(type) {
					case *ast.TypeSpec:
						p.types[sp.Name.Name] = sp.Type
						switch t := sp.Type.(type) {
						case *ast.StructType:
							m := map[string]ast.Expr{}
							for _, fl := range t.Fields.List {
								for _, n := range fl.Names {
									m[n.Name] = fl.Type
								}
							}
							p.structs[sp.Name.Name] = m
						case *ast.InterfaceType:
							m := map[string]*ast.FuncType{}
							for _, fl := range t.Methods.List {
								if ft, ok := fl.Type.(*ast.FuncType); ok {
									for _, n := range fl.Names {
										m[n.Name] = ft
									}
								}
							}
							p.ifaces[sp.Name.Name] = m
						}
					case *ast.ValueSpec:
						if d.Tok != token.VAR {
							continue
						}
						for i, n := range sp.Names {
							var t ast.Expr
							if sp.Type != nil {
								t = sp.Type
							} else if i < len(sp.Values) {
								if cl, ok := sp.Values[i].(*ast.CompositeLit); ok {
									t = cl.Type
								}
							}
							p.pkgVars[n.Name] = t
						}
					}
				}
			}
		}
	}
	// who calls whom by plain name (enough for the init-only closure)
	for _, fname := range names {
		for _, d := range p.c.Files[fname].Decls {
			fd, ok := d.(*ast.FuncDecl)
			if !ok || fd.Body == nil {
				continue
			}
			caller := lkFuncName(fd)
			ast.Inspect(fd.Body, func(n ast.Node) bool {
				switch x := n.(type) {
				case *ast.CallExpr:
					if id, ok := x.Fun.(*ast.Ident); ok {
						if p.callers[id.Name] == nil {
							p.callers[id.Name] = map[string]bool{}
						}
						p.callers[id.Name][caller] = true
					}
				case *ast.Ident:
					// a function used as a value may be called from anywhere
					_ = x
				}
				return true
			})
			// function values: an identifier naming a function outside call position
			ast.Inspect(fd.Body, func(n ast.Node) bool {
				if ce, ok := n.(*ast.CallExpr); ok {
					for _, a := range ce.Args {
						if id, ok := a.(*ast.Ident); ok {
							if _, isFunc := p.funcs[id.Name]; isFunc {
								if p.callers[id.Name] == nil {
									p.callers[id.Name] = map[string]bool{}
								}
								p.callers[id.Name]["<value>"] = true
							}
						}
					}
				}
				return true
			})
		}
	}
	p.initOnly["init"] = true
	for changed := true; changed; {
		changed = false
		for name := range p.funcs {
			if p.initOnly[name] || strings.Contains(name, ".") || ast.IsExported(name) || len(p.callers[name]) == 0 {
				continue
			}
			all := true
			for c := range p.callers[name] {
				if !p.initOnly[c] {
					all = false
				}
			}
			if all {
				p.initOnly[name] = true
				changed = true
			}
		}
	}
}

// ---------------------------------------------------------------------------
// types

func lkStrip(t ast.Expr) ast.Expr {
	for {
		switch x := t.(type) {
		case *ast.StarExpr:
			t = x.X
		case *ast.ParenExpr:
			t = x.X
		default:
			return t
		}
	}
}

// named: the name of the (pointer to a) named type, "" for anything else.
func lkNamed(t ast.Expr) string {
	switch x := lkStrip(t).(type) {
	case *ast.Ident:
		return x.Name
	case *ast.SelectorExpr:
		if id, ok := x.X.(*ast.Ident); ok {
			return id.Name + "." + x.Sel.Name
		}
	}
	return ""
}

func (p *lkPkg) underlying(t ast.Expr) ast.Expr {
	t = lkStrip(t)
	for i := 0; i < 8; i++ {
		id, ok := t.(*ast.Ident)
		if !ok {
			return t
		}
		u, ok := p.types[id.Name]
		if !ok {
			return t
		}
		t = lkStrip(u)
	}
	return t
}

func lkResults(ft *ast.FuncType) []ast.Expr {
	var out []ast.Expr
	if ft == nil || ft.Results == nil {
		return nil
	}
	for _, f := range ft.Results.List {
		n := len(f.Names)
		if n == 0 {
			n = 1
		}
		for i := 0; i < n; i++ {
			out = append(out, f.Type)
		}
	}
	return out
}

func (f *lkFunc) lookup(name string) (ast.Expr, bool) {
	if f.ambig[name] {
		return nil, true
	}
	if t, ok := f.env[name]; ok {
		return t, true
	}
	if t, ok := f.p.pkgVars[name]; ok {
		return t, true
	}
	return nil, false
}

func (f *lkFunc) callResults(ce *ast.CallExpr) []ast.Expr {
	p := f.p
	switch fun := ce.Fun.(type) {
	case *ast.Ident:
		switch fun.Name {
		case "make":
			if len(ce.Args) > 0 {
				return []ast.Expr{ce.Args[0]}
			}
		case "new":
			if len(ce.Args) > 0 {
				return []ast.Expr{&ast.StarExpr{X: ce.Args[0]}}
			}
		}
		if _, local := f.env[fun.Name]; !local {
			if ft, ok := p.funcs[fun.Name]; ok {
				return lkResults(ft)
			}
			if _, ok := p.types[fun.Name]; ok && len(ce.Args) == 1 {
				return []ast.Expr{fun} // conversion
			}
		}
	case *ast.SelectorExpr:
		if id, ok := fun.X.(*ast.Ident); ok {
			if _, known := f.lookup(id.Name); !known && p.imports[id.Name] {
				return nil // a function of another package
			}
		}
		rt := lkNamed(f.typeOf(fun.X))
		if rt == "" {
			return nil
		}
		if ft, ok := p.funcs[rt+"."+fun.Sel.Name]; ok {
			return lkResults(ft)
		}
		if m, ok := p.ifaces[rt]; ok {
			if ft, ok := m[fun.Sel.Name]; ok {
				return lkResults(ft)
			}
		}
	}
	return nil
}

// typeOf: the type expression of e as far as the package's own declarations tell; nil = unknown.
func (f *lkFunc) typeOf(e ast.Expr) ast.Expr {
	switch x := e.(type) {
	case *ast.Ident:
		t, _ := f.lookup(x.Name)
		return t
	case *ast.ParenExpr:
		return f.typeOf(x.X)
	case *ast.StarExpr:
		t := f.typeOf(x.X)
		if st, ok := t.(*ast.StarExpr); ok {
			return st.X
		}
		return nil
	case *ast.UnaryExpr:
		if x.Op == token.AND {
			if t := f.typeOf(x.X); t != nil {
				return &ast.StarExpr{X: t}
			}
		}
		return nil
	case *ast.CompositeLit:
		return x.Type
	case *ast.CallExpr:
		if r := f.callResults(x); len(r) > 0 {
			return r[0]
		}
		return nil
	case *ast.IndexExpr:
		switch u := f.p.underlying(f.typeOf(x.X)).(type) {
		case *ast.MapType:
			return u.Value
		case *ast.ArrayType:
			return u.Elt
		}
		return nil
	case *ast.SliceExpr:
		return f.typeOf(x.X)
	case *ast.TypeAssertExpr:
		return x.Type
	case *ast.SelectorExpr:
		rt := lkNamed(f.typeOf(x.X))
		if m, ok := f.p.structs[rt]; ok {
			return m[x.Sel.Name]
		}
		return nil
	}
	return nil
}

func (f *lkFunc) bind(name string, t ast.Expr) {
	if name == "_" {
		return
	}
	if old, ok := f.env[name]; ok && old != nil && t != nil && exprText(f.p.c, old) != exprText(f.p.c, t) {
		f.ambig[name] = true // one name, two types in this function: do not guess
	}
	if t != nil || !hasKey(f.env, name) {
		f.env[name] = t
	}
}

func hasKey(m map[string]ast.Expr, k string) bool { _, ok := m[k]; return ok }

func (f *lkFunc) bindFields(fl *ast.FieldList) {
	if fl == nil {
		return
	}
	for _, fd := range fl.List {
		for _, n := range fd.Names {
			f.bind(n.Name, fd.Type)
		}
	}
}

// ---------------------------------------------------------------------------
// accesses

func (f *lkFunc) line(pos token.Pos) int { return f.p.c.Fset.Position(pos).Line }

func (f *lkFunc) emit(pos token.Pos, recv, field string, write bool, lock string) {
	a := lkAccess{f.name, f.line(pos), recv, field, write, lock}
	f.p.accesses = append(f.p.accesses, a)
	if write && lkSessionFields[field] && recv != "" {
		f.p.writes = append(f.p.writes, a)
	}
}

func (f *lkFunc) lockFor(key string) string {
	if m, ok := f.held[key]; ok {
		return m
	}
	return "none"
}

// selector handles X.sel; returns true when it was an access to tracked state.
func (f *lkFunc) selector(x *ast.SelectorExpr, write bool) {
	sel := x.Sel.Name
	if !lkSessionFields[sel] && sel != "sessions" {
		return
	}
	if id, ok := x.X.(*ast.Ident); ok {
		if _, known := f.lookup(id.Name); !known && f.p.imports[id.Name] {
			return // pkg.Name
		}
	}
	t := f.typeOf(x.X)
	if t == nil {
		f.p.bad(x.Pos(), f.name, "cannot resolve the type of %s in %s", exprText(f.p.c, x.X), exprText(f.p.c, x))
		return
	}
	recv := exprText(f.p.c, x.X)
	switch n := lkNamed(t); {
	case n == "Session" && lkSessionFields[sel]:
		lock := f.lockFor(recv)
		if lock == "none" {
			if id, ok := x.X.(*ast.Ident); ok && f.private[id.Name] {
				lock = "private"
			} else if f.initOnly {
				lock = "private"
			}
		}
		f.emit(x.Pos(), recv, sel, write, lock)
	case n == "cache" && sel == "sessions":
		lock := f.lockFor(recv)
		if lock == "none" && f.name == "cache.compact" && recv == f.recvName {
			lock = "caller"
		} else if lock == "none" && f.initOnly {
			lock = "private"
		}
		f.emit(x.Pos(), recv, sel, write, lock)
	}
}

func (f *lkFunc) scanAll(es []ast.Expr, write bool) {
	for _, e := range es {
		f.scan(e, write)
	}
}

var lkLockMethods = map[string]bool{"Lock": true, "RLock": true, "Unlock": true, "RUnlock": true, "TryLock": true, "TryRLock": true, "RLocker": true}

func (f *lkFunc) scan(e ast.Expr, write bool) {
	p := f.p
	switch x := e.(type) {
	case nil:
	case *ast.Ident:
		if lkCuidVars[x.Name] && !hasKey(f.env, x.Name) {
			lock := f.lockFor(lkCuidLock)
			if lock == "none" && f.initOnly {
				lock = "private"
			}
			f.emit(x.Pos(), "", x.Name, write, lock)
		}
	case *ast.BasicLit:
	case *ast.ParenExpr:
		f.scan(x.X, write)
	case *ast.SelectorExpr:
		f.selector(x, write)
		f.scan(x.X, false)
	case *ast.IndexExpr:
		f.scan(x.X, write)
		f.scan(x.Index, false)
	case *ast.SliceExpr:
		f.scan(x.X, write)
		f.scan(x.Low, false)
		f.scan(x.High, false)
		f.scan(x.Max, false)
	case *ast.StarExpr:
		if t := f.typeOf(x.X); t == nil || lkNamed(t) == "Session" {
			if id, ok := x.X.(*ast.Ident); !ok || !p.imports[id.Name] {
				p.bad(x.Pos(), f.name, "dereference %s of a Session or of a value of unresolved type", exprText(p.c, x))
			}
		}
		f.scan(x.X, false)
	case *ast.UnaryExpr:
		if x.Op == token.AND {
			if _, isLit := x.X.(*ast.CompositeLit); isLit {
				f.scan(x.X, false)
			} else {
				f.scan(x.X, true) // the address escapes to the callee (decoders): counted as a write here
			}
		} else {
			f.scan(x.X, false)
		}
	case *ast.BinaryExpr:
		f.scan(x.X, false)
		f.scan(x.Y, false)
	case *ast.KeyValueExpr:
		f.scan(x.Key, false)
		f.scan(x.Value, false)
	case *ast.TypeAssertExpr:
		f.scan(x.X, false)
	case *ast.CompositeLit:
		_, isStruct := p.underlying(x.Type).(*ast.StructType)
		for _, el := range x.Elts {
			if kv, ok := el.(*ast.KeyValueExpr); ok {
				if _, isIdent := kv.Key.(*ast.Ident); !(isIdent && (isStruct || x.Type == nil || lkNamed(x.Type) != "")) {
					f.scan(kv.Key, false)
				}
				f.scan(kv.Value, false)
			} else {
				f.scan(el, false)
			}
		}
	case *ast.FuncLit:
		f.nested(x, "func")
	case *ast.CallExpr:
		switch fun := x.Fun.(type) {
		case *ast.Ident:
			if !hasKey(f.env, fun.Name) {
				switch fun.Name {
				case "delete":
					if len(x.Args) == 2 {
						f.scan(x.Args[0], true)
						f.scan(x.Args[1], false)
						return
					}
				case "copy":
					if len(x.Args) == 2 {
						f.scan(x.Args[0], true)
						f.scan(x.Args[1], false)
						return
					}
				}
			}
		case *ast.SelectorExpr:
			m := fun.Sel.Name
			rt := lkNamed(f.typeOf(fun.X))
			if lkLockMethods[m] && (rt == "Session" || rt == "cache" || strings.HasPrefix(rt, "sync.")) {
				p.bad(x.Pos(), f.name, "lock operation %s outside a plain statement", exprText(p.c, x))
			}
			if exprText(p.c, fun.X) == "Persistence" && (strings.HasPrefix(f.name, "cache.") || f.name == "PurgeSessions") {
				lock := "none"
				for _, recv := range []string{"c", "sessions"} {
					if f.held[recv] == "W" {
						lock = "W"
					}
				}
				if lock == "none" && f.name == "cache.compact" {
					lock = "caller" // compact documents that its caller holds the lock; compactCallSites checks the callers
				}
				f.p.psites = append(f.p.psites, lkPSite{f.name, "Persistence." + m, lock, f.line(x.Pos())})
			}
			if m == "compact" && (rt == "cache" || rt == "") {
				f.p.sites = append(f.p.sites, lkSite{f.name, f.line(x.Pos()), f.held[exprText(p.c, fun.X)] == "W"})
			}
			if (m == "GobDecode" || m == "UnmarshalJSON") && (rt == "Session" || rt == "") {
				if id, ok := fun.X.(*ast.Ident); !ok || !p.imports[id.Name] {
					f.p.decoders = append(f.p.decoders, lkSite{f.name, f.line(x.Pos()), false})
				}
			}
			f.scan(fun.X, false)
			f.scanAll(x.Args, false)
			return
		}
		f.scan(x.Fun, false)
		f.scanAll(x.Args, false)
	case *ast.ArrayType, *ast.MapType, *ast.StructType, *ast.InterfaceType, *ast.FuncType, *ast.ChanType, *ast.Ellipsis:
	default:
		p.bad(e.Pos(), f.name, "expression %T not handled", e)
	}
}

// nested walks a function literal: same variables, no locks.
func (f *lkFunc) nested(fl *ast.FuncLit, suffix string) {
	g := &lkFunc{p: f.p, name: f.name + "." + suffix, recvName: "", env: f.env, ambig: f.ambig, held: map[string]string{}, private: map[string]bool{}, initOnly: f.initOnly}
	g.bindFields(fl.Type.Params)
	g.bindFields(fl.Type.Results)
	g.block(fl.Body.List)
}

// ---------------------------------------------------------------------------
// statements

func lkCopy(m map[string]string) map[string]string {
	c := make(map[string]string, len(m))
	for k, v := range m {
		c[k] = v
	}
	return c
}

func lkEqual(a, b map[string]string) bool {
	if len(a) != len(b) {
		return false
	}
	for k, v := range a {
		if b[k] != v {
			return false
		}
	}
	return true
}

// lkMeet: what is certainly held on both ways.
func lkMeet(a, b map[string]string) map[string]string {
	c := map[string]string{}
	for k, v := range a {
		if w, ok := b[k]; ok {
			if v == w {
				c[k] = v
			} else {
				c[k] = "R"
			}
		}
	}
	return c
}

func lkTerminates(list []ast.Stmt) bool {
	if len(list) == 0 {
		return false
	}
	switch s := list[len(list)-1].(type) {
	case *ast.ReturnStmt:
		return true
	case *ast.ExprStmt:
		if ce, ok := s.X.(*ast.CallExpr); ok {
			if id, ok := ce.Fun.(*ast.Ident); ok && id.Name == "panic" {
				return true
			}
		}
	case *ast.BlockStmt:
		return lkTerminates(s.List)
	}
	return false
}

// lockCall recognises X.Lock() etc. as a whole statement.
func (f *lkFunc) lockCall(e ast.Expr) (key, method string, ok bool) {
	ce, isCall := e.(*ast.CallExpr)
	if !isCall || len(ce.Args) != 0 {
		return
	}
	se, isSel := ce.Fun.(*ast.SelectorExpr)
	if !isSel {
		return
	}
	switch se.Sel.Name {
	case "Lock", "RLock", "Unlock", "RUnlock":
	default:
		return
	}
	return exprText(f.p.c, se.X), se.Sel.Name, true
}

func (f *lkFunc) branch(pos token.Pos, before map[string]string, bodies [][]ast.Stmt, hasDefault bool) {
	var exits []map[string]string
	if !hasDefault {
		exits = append(exits, before)
	}
	for _, b := range bodies {
		f.held = lkCopy(before)
		f.block(b)
		if !lkTerminates(b) {
			exits = append(exits, f.held)
		}
	}
	if len(exits) == 0 {
		f.held = lkCopy(before) // unreachable afterwards
		return
	}
	res := exits[0]
	for _, e := range exits[1:] {
		if !lkEqual(res, e) {
			f.p.bad(pos, f.name, "the ways through this statement leave different locks held")
			res = lkMeet(res, e)
		}
	}
	f.held = lkCopy(res)
}

func (f *lkFunc) loopBody(pos token.Pos, body []ast.Stmt) {
	before := lkCopy(f.held)
	f.loops = append(f.loops, before)
	f.block(body)
	f.loops = f.loops[:len(f.loops)-1]
	if !lkTerminates(body) && !lkEqual(before, f.held) {
		f.p.bad(pos, f.name, "loop body changes the set of locks held")
		before = lkMeet(before, f.held)
	}
	f.held = before
}

func (f *lkFunc) block(list []ast.Stmt) {
	for _, s := range list {
		f.stmt(s)
	}
}

// escapes: after this statement, which private variables may be known to others.
func (f *lkFunc) escapes(s ast.Stmt) {
	if len(f.private) == 0 {
		return
	}
	fieldRecv := map[*ast.Ident]bool{}
	defined := map[*ast.Ident]bool{}
	if as, ok := s.(*ast.AssignStmt); ok {
		for _, l := range as.Lhs {
			if id, ok := l.(*ast.Ident); ok {
				defined[id] = true
			}
		}
	}
	ast.Inspect(s, func(n ast.Node) bool {
		if se, ok := n.(*ast.SelectorExpr); ok && lkSessionFields[se.Sel.Name] {
			if id, ok := se.X.(*ast.Ident); ok {
				fieldRecv[id] = true
			}
		}
		return true
	})
	ast.Inspect(s, func(n ast.Node) bool {
		if id, ok := n.(*ast.Ident); ok && f.private[id.Name] && !fieldRecv[id] && !defined[id] {
			delete(f.private, id.Name)
		}
		return true
	})
}

func (f *lkFunc) assignPrivate(lhs ast.Expr, rhs ast.Expr) {
	id, ok := lhs.(*ast.Ident)
	if !ok {
		return
	}
	fresh := false
	switch r := rhs.(type) {
	case *ast.UnaryExpr:
		if cl, ok := r.X.(*ast.CompositeLit); ok && r.Op == token.AND && lkNamed(cl.Type) == "Session" {
			fresh = true
		}
	case *ast.CompositeLit:
		fresh = lkNamed(r.Type) == "Session"
	}
	if fresh {
		f.private[id.Name] = true
	} else {
		delete(f.private, id.Name)
	}
}

func (f *lkFunc) stmt(s ast.Stmt) {
	p := f.p
	switch x := s.(type) {
	case nil, *ast.EmptyStmt:
	case *ast.ExprStmt:
		if key, m, ok := f.lockCall(x.X); ok {
			switch m {
			case "Lock", "RLock":
				if _, dup := f.held[key]; dup {
					p.bad(x.Pos(), f.name, "%s.%s() while that lock is already held", key, m)
				}
				f.held[key] = map[string]string{"Lock": "W", "RLock": "R"}[m]
			case "Unlock", "RUnlock":
				want := map[string]string{"Unlock": "W", "RUnlock": "R"}[m]
				if f.held[key] != want {
					p.bad(x.Pos(), f.name, "%s.%s() without the matching lock", key, m)
				}
				delete(f.held, key)
			}
			return
		}
		f.scan(x.X, false)
		f.escapes(s)
	case *ast.DeferStmt:
		if key, m, ok := f.lockCall(x.Call); ok {
			want := map[string]string{"Unlock": "W", "RUnlock": "R"}[m]
			if want == "" || f.held[key] != want {
				p.bad(x.Pos(), f.name, "defer %s.%s() without the matching lock", key, m)
			}
			return // held until the function returns
		}
		if fl, ok := x.Call.Fun.(*ast.FuncLit); ok {
			f.scanAll(x.Call.Args, false)
			f.nested(fl, "defer")
		} else {
			f.scan(x.Call, false)
		}
		f.escapes(s)
	case *ast.GoStmt:
		if fl, ok := x.Call.Fun.(*ast.FuncLit); ok {
			f.scanAll(x.Call.Args, false)
			f.nested(fl, "go")
		} else {
			f.scan(x.Call, false)
		}
		f.escapes(s)
	case *ast.AssignStmt:
		f.scanAll(x.Rhs, false)
		for _, l := range x.Lhs {
			if id, ok := l.(*ast.Ident); ok && !(lkCuidVars[id.Name] && !hasKey(f.env, id.Name)) {
				continue // a local variable
			}
			f.scan(l, true)
		}
		// types of newly defined variables
		if x.Tok == token.DEFINE || x.Tok == token.ASSIGN {
			var rts []ast.Expr
			if len(x.Rhs) == 1 && len(x.Lhs) > 1 {
				switch r := x.Rhs[0].(type) {
				case *ast.CallExpr:
					rts = f.callResults(r)
				case *ast.IndexExpr, *ast.TypeAssertExpr:
					rts = []ast.Expr{f.typeOf(r), ast.NewIdent("bool")}
				}
			} else {
				for _, r := range x.Rhs {
					rts = append(rts, f.typeOf(r))
				}
			}
			for i, l := range x.Lhs {
				id, ok := l.(*ast.Ident)
				if !ok {
					continue
				}
				if x.Tok == token.DEFINE {
					var t ast.Expr
					if i < len(rts) {
						t = rts[i]
					}
					if cur, known := f.env[id.Name]; !known || cur == nil || t != nil {
						f.bind(id.Name, t)
					}
				}
				if len(x.Rhs) == len(x.Lhs) {
					f.assignPrivate(l, x.Rhs[i])
				} else {
					delete(f.private, id.Name)
				}
			}
		}
		f.escapes(s)
	case *ast.IncDecStmt:
		f.scan(x.X, true)
	case *ast.DeclStmt:
		gd, ok := x.Decl.(*ast.GenDecl)
		if !ok {
			p.bad(x.Pos(), f.name, "declaration not handled")
			return
		}
		for _, sp := range gd.Specs {
			vs, ok := sp.(*ast.ValueSpec)
			if !ok {
				continue
			}
			f.scanAll(vs.Values, false)
			for i, n := range vs.Names {
				var t ast.Expr
				if vs.Type != nil {
					t = vs.Type
				} else if i < len(vs.Values) {
					t = f.typeOf(vs.Values[i])
				}
				f.bind(n.Name, t)
				if vs.Type != nil && len(vs.Values) == 0 {
					if id, ok := vs.Type.(*ast.Ident); ok && id.Name == "Session" {
						f.private[n.Name] = true // zero value
					}
				}
			}
		}
		f.escapes(s)
	case *ast.ReturnStmt:
		f.scanAll(x.Results, false)
	case *ast.SendStmt:
		f.scan(x.Chan, false)
		f.scan(x.Value, false)
		f.escapes(s)
	case *ast.BlockStmt:
		f.block(x.List)
	case *ast.LabeledStmt:
		f.stmt(x.Stmt)
	case *ast.BranchStmt:
		if (x.Tok == token.BREAK || x.Tok == token.CONTINUE) && len(f.loops) > 0 {
			if !lkEqual(f.loops[len(f.loops)-1], f.held) {
				p.bad(x.Pos(), f.name, "%s with a different set of locks than at the start of the enclosing statement", x.Tok)
			}
		} else if x.Tok == token.GOTO || x.Tok == token.FALLTHROUGH {
			p.bad(x.Pos(), f.name, "%s not handled", x.Tok)
		}
	case *ast.IfStmt:
		f.stmt(x.Init)
		f.scan(x.Cond, false)
		before := lkCopy(f.held)
		bodies := [][]ast.Stmt{x.Body.List}
		hasElse := x.Else != nil
		if hasElse {
			bodies = append(bodies, []ast.Stmt{x.Else})
		}
		f.branch(x.Pos(), before, bodies, hasElse)
	case *ast.ForStmt:
		f.stmt(x.Init)
		f.scan(x.Cond, false)
		f.loopBody(x.Pos(), append(append([]ast.Stmt{}, x.Body.List...), x.Post))
	case *ast.RangeStmt:
		f.scan(x.X, false)
		if x.Tok == token.DEFINE {
			var kt, vt ast.Expr
			switch u := p.underlying(f.typeOf(x.X)).(type) {
			case *ast.MapType:
				kt, vt = u.Key, u.Value
			case *ast.ArrayType:
				kt, vt = ast.NewIdent("int"), u.Elt
			}
			if id, ok := x.Key.(*ast.Ident); ok {
				f.bind(id.Name, kt)
			}
			if id, ok := x.Value.(*ast.Ident); ok {
				f.bind(id.Name, vt)
				delete(f.private, id.Name)
			}
		} else {
			f.scan(x.Key, true)
			f.scan(x.Value, true)
		}
		f.loopBody(x.Pos(), x.Body.List)
	case *ast.SwitchStmt:
		f.stmt(x.Init)
		f.scan(x.Tag, false)
		f.clauses(x.Pos(), x.Body.List)
	case *ast.TypeSwitchStmt:
		f.stmt(x.Init)
		f.stmt(x.Assign)
		f.clauses(x.Pos(), x.Body.List)
	case *ast.SelectStmt:
		f.clauses(x.Pos(), x.Body.List)
	default:
		p.bad(s.Pos(), f.name, "statement %T not handled", s)
	}
}

func (f *lkFunc) clauses(pos token.Pos, list []ast.Stmt) {
	before := lkCopy(f.held)
	var bodies [][]ast.Stmt
	hasDefault := false
	for _, c := range list {
		switch cc := c.(type) {
		case *ast.CaseClause:
			f.scanAll(cc.List, false)
			if cc.List == nil {
				hasDefault = true
			}
			bodies = append(bodies, cc.Body)
		case *ast.CommClause:
			if cc.Comm == nil {
				hasDefault = true
			}
			bodies = append(bodies, append([]ast.Stmt{cc.Comm}, cc.Body...))
		}
	}
	f.loops = append(f.loops, before)
	f.branch(pos, before, bodies, hasDefault)
	f.loops = f.loops[:len(f.loops)-1]
}

// ---------------------------------------------------------------------------

func emitLocks(c *Ctx) {
	p := &lkPkg{c: c, structs: map[string]map[string]ast.Expr{}, types: map[string]ast.Expr{}, ifaces: map[string]map[string]*ast.FuncType{},
		funcs: map[string]*ast.FuncType{}, pkgVars: map[string]ast.Expr{}, imports: map[string]bool{}, callers: map[string]map[string]bool{},
		initOnly: map[string]bool{}}
	p.collect()
	names := make([]string, 0, len(c.Files))
	for n := range c.Files {
		names = append(names, n)
	}
	sort.Strings(names)
	for _, fname := range names {
		for _, d := range c.Files[fname].Decls {
			switch d := d.(type) {
			case *ast.FuncDecl:
				if d.Body == nil {
					continue
				}
				_, rn := lkRecvName(d)
				f := &lkFunc{p: p, name: lkFuncName(d), recvName: rn, env: map[string]ast.Expr{}, ambig: map[string]bool{}, held: map[string]string{},
					private: map[string]bool{}}
				f.initOnly = p.initOnly[f.name]
				f.bindFields(d.Recv)
				f.bindFields(d.Type.Params)
				f.bindFields(d.Type.Results)
				f.block(d.Body.List)
			case *ast.GenDecl:
				// initialisers of package-level variables run before main: scan them as init code
				if d.Tok != token.VAR {
					continue
				}
				f := &lkFunc{p: p, name: "init", env: map[string]ast.Expr{}, ambig: map[string]bool{}, held: map[string]string{}, private: map[string]bool{}, initOnly: true}
				for _, sp := range d.Specs {
					if vs, ok := sp.(*ast.ValueSpec); ok {
						f.scanAll(vs.Values, false)
					}
				}
			}
		}
	}
	sort.SliceStable(p.accesses, func(i, j int) bool {
		a, b := p.accesses[i], p.accesses[j]
		if a.fn != b.fn {
			return a.fn < b.fn
		}
		return a.line < b.line
	})
	o := c.Out
	o.WriteString("structure Access where\n  fn : String\n  line : Nat\n  recv : String\n  field : String\n  write : Bool\n" +
		"  lock : String  -- \"none\" | \"R\" | \"W\" | \"private\" | \"caller\"\nderiving Repr, DecidableEq\n\n")
	o.WriteString("/-- every access to a Session field, to a cache's map and to the CUID state, with the lock that lexically encloses it -/\n")
	o.WriteString("def accesses : List Access := [")
	for i, a := range p.accesses {
		if i > 0 {
			o.WriteString(",")
		}
		fmt.Fprintf(o, "\n  ⟨%s, %d, %s, %s, %v, %s⟩", leanString(a.fn), a.line, leanString(a.recv), leanString(a.field), a.write, leanString(a.lock))
	}
	o.WriteString("]\n\n")
	o.WriteString("/-- (function, line, the cache lock of the receiver is held) for every call of cache.compact -/\n")
	o.WriteString("def compactCallSites : List (String × Nat × Bool) := [")
	for i, s := range p.sites {
		if i > 0 {
			o.WriteString(", ")
		}
		fmt.Fprintf(o, "(%s, %d, %v)", leanString(s.fn), s.line, s.held)
	}
	o.WriteString("]\n\n")
	o.WriteString("/-- (function, line, callee, cache lock held: \"W\" | \"caller\" | \"none\") for every persistence call made by the cache's own functions -/\n")
	o.WriteString("def cachePersistenceCalls : List (String × Nat × String × String) := [")
	sort.SliceStable(p.psites, func(i, j int) bool {
		if p.psites[i].fn != p.psites[j].fn {
			return p.psites[i].fn < p.psites[j].fn
		}
		return p.psites[i].line < p.psites[j].line
	})
	for i, s := range p.psites {
		if i > 0 {
			o.WriteString(", ")
		}
		fmt.Fprintf(o, "(%s, %d, %s, %s)", leanString(s.fn), s.line, leanString(s.callee), leanString(s.lock))
	}
	o.WriteString("]\n\n")
	sort.SliceStable(p.writes, func(i, j int) bool {
		a, b := p.writes[i], p.writes[j]
		if a.field != b.field {
			return a.field < b.field
		}
		if a.fn != b.fn {
			return a.fn < b.fn
		}
		return a.line < b.line
	})
	o.WriteString("/-- (field, function, line) for every write to a Session field outside composite literals -/\n")
	o.WriteString("def fieldWrites : List (String × String × Nat) := [")
	for i, a := range p.writes {
		if i > 0 {
			o.WriteString(",")
		}
		fmt.Fprintf(o, "\n  (%s, %s, %d)", leanString(a.field), leanString(a.fn), a.line)
	}
	o.WriteString("]\n\n")
	o.WriteString("/-- calls of the decoders from package code -/\n")
	o.WriteString("def decoderCalls : List (String × Nat) := [")
	for i, s := range p.decoders {
		if i > 0 {
			o.WriteString(", ")
		}
		fmt.Fprintf(o, "(%s, %d)", leanString(s.fn), s.line)
	}
	o.WriteString("]\n\n")
	o.WriteString("def lockUnrecognised : List String := [")
	for i, u := range p.unrec {
		if i > 0 {
			o.WriteString(", ")
		}
		o.WriteString(leanString(u))
	}
	o.WriteString("]\n")
	c.Unrecognised = append(c.Unrecognised, p.unrec...)
}
