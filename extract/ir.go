package main

import (
	"bytes"
	"fmt"
	"go/ast"
	"go/printer"
	"go/token"
	"strconv"
	"strings"
)

// A translator for the straight-line part of the code: the bodies of the functions listed in irFuncs, statement by statement
// and expression by expression, as values of the Lean datatypes of lean/Sessions/Ir/Syntax.lean (`Facts.ir_<Name> : Ir.Fn`).
// Nothing here looks at WHICH function is being translated; the only abstractions are
//   - fmt.Errorf(...) / errors.New(...) whose arguments are identifiers or literals become `.mkErr` (the model distinguishes
//     error / no error only),
//   - locals are resolved to their declarations (go/parser's object resolution) and a declaration that shadows or follows
//     another one of the same name is renamed apart (err, err'1, ...), so that the Lean environment can be flat,
//   - x.Lock()/x.RLock()/x.Unlock()/x.RUnlock() statements and `defer x.Unlock()` become .lock/.unlock/.deferUnlock,
//   - `go func() { ... }()` becomes `.go [...]` provided the variables the closure captures are not assigned afterwards.
//
// Fails closed: any statement or expression outside the subset becomes `.unk "<source text>"`, on which the Lean interpreter
// (Sessions/Ir/Sem.lean) is stuck, so that the equivalence theorems of Sessions/FactsIr*.lean cannot be proved.

func init() { register("translated functions (Ir)", emitIr) }

// Go name -> suffix of the Lean definition
var irFuncs = [][2]string{
	{"Session.RegenerateID", "RegenerateID"},
	{"Session.Destroy", "Destroy"},
	{"cache.Set", "cacheSet"},
	{"cache.Delete", "cacheDelete"},
	{"cache.Get", "cacheGet"},
	{"Session.Set", "Set"},
	{"Session.Delete", "Delete"},
	{"Session.LogOut", "LogOut"},
	{"Session.GetAndDelete", "GetAndDelete"},
	{"Session.LogIn", "LogIn"},
	{"Session.Get", "Get"},
	{"Start", "Start"},
}

// functions whose body is also emitted block by block
var irBlockFuncs = map[string]bool{"Start": true}

// emitBlocks writes `def <prefix>_<i> : Ir.Stmt` for every statement of the list (an `if` at nesting depth < 3 refers to lists
// `<prefix>_<i>_t` / `<prefix>_<i>_e` emitted the same way) and `def <prefix> : List Ir.Stmt := [<prefix>_0, ...]`.
func (t *irTr) emitBlocks(o *strings.Builder, prefix string, ss []ast.Stmt, depth int) {
	var names []string
	for _, s := range ss {
		if is, ok := s.(*ast.IfStmt); ok && depth < 3 {
			name := fmt.Sprintf("%s_%d", prefix, len(names))
			initS := "[]"
			if is.Init != nil {
				initS = "[" + strings.Join(t.stmt(is.Init, 2), ", ") + "]"
			}
			cond := t.sub(is.Cond)
			t.emitBlocks(o, name+"_t", is.Body.List, depth+1)
			elseS := "[]"
			switch e := is.Else.(type) {
			case nil:
			case *ast.BlockStmt:
				t.emitBlocks(o, name+"_e", e.List, depth+1)
				elseS = name + "_e"
			default:
				t.emitBlocks(o, name+"_e", []ast.Stmt{e}, depth+1)
				elseS = name + "_e"
			}
			fmt.Fprintf(o, "def %s : Ir.Stmt :=\n  .ite %s %s %s_t %s\n", name, initS, cond, name, elseS)
			names = append(names, name)
			continue
		}
		for _, part := range t.stmt(s, 2) {
			name := fmt.Sprintf("%s_%d", prefix, len(names))
			fmt.Fprintf(o, "def %s : Ir.Stmt :=\n  %s\n", name, part)
			names = append(names, name)
		}
	}
	fmt.Fprintf(o, "def %s : List Ir.Stmt := [%s]\n", prefix, strings.Join(names, ", "))
}

func emitIr(c *Ctx) {
	fns := c.FuncDecls()
	o := c.Out
	var names []string
	for _, p := range irFuncs {
		fd := fns[p[0]]
		names = append(names, "ir_"+p[1])
		if fd == nil || fd.Body == nil {
			fmt.Fprintf(o, "def ir_%s : Ir.Fn :=\n  { name := %s, body := [.unk \"function not found\"] }\n\n", p[1], leanString(p[0]))
			continue
		}
		t := &irTr{c: c, fd: fd, names: map[*ast.Object]string{}, used: map[string]int{}, imports: irImports(c, fd)}
		recv := "none"
		if fd.Recv != nil && len(fd.Recv.List) == 1 {
			r := "_"
			if len(fd.Recv.List[0].Names) == 1 {
				r = t.declName(fd.Recv.List[0].Names[0])
			}
			recv = "some " + leanString(r)
		}
		var params, results []string
		for _, f := range fd.Type.Params.List {
			if len(f.Names) == 0 {
				params = append(params, leanString("_"))
			}
			for _, n := range f.Names {
				params = append(params, leanString(t.declName(n)))
			}
		}
		if fd.Type.Results != nil {
			for _, f := range fd.Type.Results.List {
				n := len(f.Names)
				if n == 0 {
					n = 1
				}
				for i := 0; i < n; i++ {
					results = append(results, leanString(t.text(f.Type)))
				}
				if len(f.Names) > 0 {
					// named results can be assigned and returned implicitly: outside the subset
					results = append(results, leanString("named result"))
				}
			}
		}
		body := t.block(fd.Body.List, 3)
		fmt.Fprintf(o, "def ir_%s : Ir.Fn :=\n  { name := %s, recv := %s, params := [%s], results := [%s],\n    body := %s }\n\n",
			p[1], leanString(p[0]), recv, strings.Join(params, ", "), strings.Join(results, ", "), body)
		if irBlockFuncs[p[0]] {
			// the same body once more, statement by statement as definitions of their own (`ir_<Name>_b_<i>`, nested for `if`s), so that
			// symbolic evaluation on the Lean side can leave the statements not yet executed folded; `ir_<Name>_b` is proved equal to
			// `ir_<Name>.body` by `rfl` (Sessions/FactsIrStartBlocks.lean). A fresh translator is used so that the renaming of locals and the
			// numbering of loops come out as above.
			t2 := &irTr{c: c, fd: fd, names: map[*ast.Object]string{}, used: map[string]int{}, imports: irImports(c, fd)}
			if fd.Recv != nil && len(fd.Recv.List) == 1 && len(fd.Recv.List[0].Names) == 1 {
				t2.declName(fd.Recv.List[0].Names[0])
			}
			for _, f := range fd.Type.Params.List {
				for _, n := range f.Names {
					t2.declName(n)
				}
			}
			t2.emitBlocks(o, "ir_"+p[1]+"_b", fd.Body.List, 0)
			o.WriteString("\n")
		}
	}
	fmt.Fprintf(o, "def irFns : List Ir.Fn := [%s]\n", strings.Join(names, ", "))
}

// the names under which the file declaring fd imports packages
func irImports(c *Ctx, fd *ast.FuncDecl) map[string]bool {
	m := map[string]bool{}
	for _, f := range c.Files {
		if f.Pos() <= fd.Pos() && fd.End() <= f.End() {
			for _, im := range f.Imports {
				p, err := strconv.Unquote(im.Path.Value)
				if err != nil {
					continue
				}
				name := p[strings.LastIndex(p, "/")+1:]
				if im.Name != nil {
					name = im.Name.Name
				}
				m[name] = true
			}
		}
	}
	return m
}

type irTr struct {
	c       *Ctx
	fd      *ast.FuncDecl
	names   map[*ast.Object]string // local object -> unique name
	used    map[string]int         // source name -> number of objects seen with it
	imports map[string]bool
	loops   int // number of loops translated so far: a loop is identified by its ordinal in the function
}

func (t *irTr) text(n ast.Node) string {
	var b bytes.Buffer
	if err := printer.Fprint(&b, t.c.Fset, n); err != nil {
		return "?"
	}
	s := strings.Join(strings.Fields(b.String()), " ")
	return s
}

func (t *irTr) short(n ast.Node) string {
	s := t.text(n)
	if len(s) > 100 {
		s = s[:100] + "..."
	}
	return s
}

// is the object a variable declared inside the function (parameter, receiver, := or var)?
func (t *irTr) isLocal(o *ast.Object) bool {
	return o != nil && o.Kind == ast.Var && o.Pos() >= t.fd.Pos() && o.Pos() < t.fd.End()
}

func (t *irTr) objName(o *ast.Object) string {
	if n, ok := t.names[o]; ok {
		return n
	}
	k := t.used[o.Name]
	t.used[o.Name] = k + 1
	n := o.Name
	if k > 0 {
		n = fmt.Sprintf("%s'%d", o.Name, k)
	}
	t.names[o] = n
	return n
}

// the name of a declared identifier (blank stays blank)
func (t *irTr) declName(id *ast.Ident) string {
	if id.Name == "_" {
		return "_"
	}
	if t.isLocal(id.Obj) {
		return t.objName(id.Obj)
	}
	return "?" + id.Name // cannot happen for a declaration; the interpreter has no such variable
}

func (t *irTr) unkE(n ast.Node) string { return ".unk " + leanString(t.short(n)) }

func (t *irTr) exprs(es []ast.Expr) string {
	var parts []string
	for _, e := range es {
		parts = append(parts, t.expr(e))
	}
	return "[" + strings.Join(parts, ", ") + "]"
}

// a parenthesised Lean term
func (t *irTr) sub(e ast.Expr) string {
	s := t.expr(e)
	if strings.HasPrefix(s, ".") && !strings.Contains(s, " ") {
		return s
	}
	return "(" + s + ")"
}

func isSimpleArg(e ast.Expr) bool {
	switch e.(type) {
	case *ast.Ident, *ast.BasicLit:
		return true
	}
	return false
}

func (t *irTr) expr(e ast.Expr) string {
	switch x := e.(type) {
	case *ast.ParenExpr:
		return t.expr(x.X)
	case *ast.Ident:
		switch {
		case t.isLocal(x.Obj):
			return ".ident " + leanString(t.objName(x.Obj))
		case x.Name == "_":
			return t.unkE(e)
		case x.Obj == nil && x.Name == "nil":
			return ".nil"
		case x.Obj == nil && x.Name == "true":
			return ".bool true"
		case x.Obj == nil && x.Name == "false":
			return ".bool false"
		case x.Obj == nil && t.imports[x.Name]:
			return t.unkE(e) // a bare package name
		case x.Obj != nil && !(x.Obj.Kind == ast.Var || x.Obj.Kind == ast.Fun || x.Obj.Kind == ast.Con):
			return t.unkE(e)
		default:
			return ".glob " + leanString(x.Name)
		}
	case *ast.BasicLit:
		switch x.Kind {
		case token.STRING:
			if s, err := strconv.Unquote(x.Value); err == nil {
				return ".str " + leanString(s)
			}
		case token.INT:
			if n, err := strconv.ParseInt(x.Value, 0, 64); err == nil && n >= 0 {
				return fmt.Sprintf(".int %d", n)
			}
		}
		return t.unkE(e)
	case *ast.SelectorExpr:
		if id, ok := x.X.(*ast.Ident); ok && id.Obj == nil && t.imports[id.Name] {
			return ".pkg " + leanString(id.Name) + " " + leanString(x.Sel.Name)
		}
		return ".sel " + t.sub(x.X) + " " + leanString(x.Sel.Name)
	case *ast.IndexExpr:
		return ".index " + t.sub(x.X) + " " + t.sub(x.Index)
	case *ast.UnaryExpr:
		switch x.Op {
		case token.NOT, token.SUB:
			return ".un " + leanString(x.Op.String()) + " " + t.sub(x.X)
		case token.AND:
			if cl, ok := x.X.(*ast.CompositeLit); ok {
				if id, ok := cl.Type.(*ast.Ident); ok && id.Name == "Session" && !t.isLocal(id.Obj) {
					var fs []string
					for _, el := range cl.Elts {
						kv, ok := el.(*ast.KeyValueExpr)
						if !ok {
							return t.unkE(e)
						}
						k, ok := kv.Key.(*ast.Ident)
						if !ok {
							return t.unkE(e)
						}
						fs = append(fs, "("+leanString(k.Name)+", "+t.expr(kv.Value)+")")
					}
					return ".newSession [" + strings.Join(fs, ", ") + "]"
				}
			}
		}
		return t.unkE(e)
	case *ast.BinaryExpr:
		switch x.Op {
		case token.EQL, token.NEQ, token.LSS, token.LEQ, token.GTR, token.GEQ, token.ADD, token.SUB, token.LAND, token.LOR:
			return ".bin " + leanString(x.Op.String()) + " " + t.sub(x.X) + " " + t.sub(x.Y)
		}
		return t.unkE(e)
	case *ast.MapType, *ast.ArrayType, *ast.InterfaceType, *ast.StarExpr:
		return ".typ " + leanString(t.text(e))
	case *ast.CallExpr:
		if x.Ellipsis != token.NoPos {
			return t.unkE(e)
		}
		if sel, ok := x.Fun.(*ast.SelectorExpr); ok {
			if id, ok := sel.X.(*ast.Ident); ok && id.Obj == nil && t.imports[id.Name] &&
				((id.Name == "fmt" && sel.Sel.Name == "Errorf") || (id.Name == "errors" && sel.Sel.Name == "New")) {
				for _, a := range x.Args {
					if !isSimpleArg(a) {
						return t.unkE(e)
					}
				}
				if len(x.Args) == 0 {
					return t.unkE(e)
				}
				return ".mkErr"
			}
		}
		switch x.Fun.(type) {
		case *ast.Ident, *ast.SelectorExpr:
			return ".call " + t.sub(x.Fun) + " " + t.exprs(x.Args)
		}
		return t.unkE(e)
	}
	return t.unkE(e)
}

func ind(n int) string { return strings.Repeat("  ", n) }

// a list of statements as a Lean list literal, the elements on lines of their own at depth d
func (t *irTr) block(ss []ast.Stmt, d int) string {
	var parts []string
	for _, s := range ss {
		parts = append(parts, t.stmt(s, d)...)
	}
	if len(parts) == 0 {
		return "[]"
	}
	var b strings.Builder
	b.WriteString("[\n")
	for i, p := range parts {
		b.WriteString(ind(d) + p)
		if i < len(parts)-1 {
			b.WriteString(",")
		}
		b.WriteString("\n")
	}
	b.WriteString(ind(d-1) + "]")
	return b.String()
}

func (t *irTr) unkS(n ast.Node) []string { return []string{".unk " + leanString(t.short(n))} }

var lockOps = map[string]string{"Lock": ".lock", "RLock": ".lock", "Unlock": ".unlock", "RUnlock": ".unlock"}

// the local variables an expression or statement mentions
func (t *irTr) localsIn(n ast.Node) map[*ast.Object]bool {
	m := map[*ast.Object]bool{}
	ast.Inspect(n, func(n ast.Node) bool {
		if id, ok := n.(*ast.Ident); ok && t.isLocal(id.Obj) {
			m[id.Obj] = true
		}
		return true
	})
	return m
}

// is one of the objects assigned (or its address taken) at a position after `after` in the function?
func (t *irTr) assignedAfter(objs map[*ast.Object]bool, after token.Pos) bool {
	found := false
	hit := func(e ast.Expr) {
		if id, ok := e.(*ast.Ident); ok && objs[id.Obj] {
			found = true
		}
	}
	ast.Inspect(t.fd.Body, func(n ast.Node) bool {
		if n == nil || n.End() <= after {
			return n != nil && n.End() > after
		}
		switch s := n.(type) {
		case *ast.AssignStmt:
			if s.Pos() > after {
				for _, l := range s.Lhs {
					hit(l)
				}
			}
		case *ast.IncDecStmt:
			if s.Pos() > after {
				hit(s.X)
			}
		case *ast.UnaryExpr:
			if s.Op == token.AND && s.Pos() > after {
				hit(s.X)
			}
		case *ast.RangeStmt:
			if s.Pos() > after {
				if s.Key != nil {
					hit(s.Key)
				}
				if s.Value != nil {
					hit(s.Value)
				}
			}
		}
		return true
	})
	return found
}

func (t *irTr) stmt(s ast.Stmt, d int) []string {
	switch x := s.(type) {
	case *ast.EmptyStmt:
		return nil
	case *ast.BlockStmt:
		// a nested block only matters for scoping, which object resolution has already taken care of
		var parts []string
		for _, y := range x.List {
			parts = append(parts, t.stmt(y, d)...)
		}
		return parts
	case *ast.AssignStmt:
		switch x.Tok {
		case token.DEFINE:
			// right-hand sides first: they are evaluated in the scope before the declaration
			rhs := t.rhs(x)
			var names []string
			for _, l := range x.Lhs {
				id, ok := l.(*ast.Ident)
				if !ok {
					return t.unkS(s)
				}
				names = append(names, leanString(t.declName(id)))
			}
			return []string{".define [" + strings.Join(names, ", ") + "] " + rhs}
		case token.ASSIGN:
			rhs := t.rhs(x)
			var ls []string
			for _, l := range x.Lhs {
				if id, ok := l.(*ast.Ident); ok && id.Name == "_" {
					ls = append(ls, ".ident \"_\"")
					continue
				}
				ls = append(ls, t.expr(l))
			}
			return []string{".assign [" + strings.Join(ls, ", ") + "] " + rhs}
		}
		return t.unkS(s)
	case *ast.DeclStmt:
		gd, ok := x.Decl.(*ast.GenDecl)
		if !ok || gd.Tok != token.VAR {
			return t.unkS(s)
		}
		var parts []string
		for _, sp := range gd.Specs {
			vs, ok := sp.(*ast.ValueSpec)
			if !ok {
				return t.unkS(s)
			}
			if len(vs.Values) == 0 && vs.Type != nil {
				for _, n := range vs.Names {
					parts = append(parts, ".varDecl "+leanString(t.declName(n))+" "+leanString(t.text(vs.Type)))
				}
				continue
			}
			if len(vs.Values) == len(vs.Names) && vs.Type == nil {
				rhs := t.exprs(vs.Values)
				var names []string
				for _, n := range vs.Names {
					names = append(names, leanString(t.declName(n)))
				}
				parts = append(parts, ".define ["+strings.Join(names, ", ")+"] "+rhs)
				continue
			}
			return t.unkS(s)
		}
		return parts
	case *ast.ExprStmt:
		call, ok := x.X.(*ast.CallExpr)
		if !ok {
			return t.unkS(s)
		}
		if sel, ok := call.Fun.(*ast.SelectorExpr); ok && len(call.Args) == 0 {
			if op, ok := lockOps[sel.Sel.Name]; ok {
				return []string{op + " " + t.sub(sel.X) + " " + leanString(sel.Sel.Name)}
			}
		}
		return []string{".expr " + t.sub(call)}
	case *ast.DeferStmt:
		if sel, ok := x.Call.Fun.(*ast.SelectorExpr); ok && (sel.Sel.Name == "Unlock" || sel.Sel.Name == "RUnlock") {
			for _, a := range x.Call.Args {
				if !isSimpleArg(a) {
					return t.unkS(s)
				}
			}
			return []string{".deferUnlock " + t.sub(sel.X) + " " + leanString(sel.Sel.Name)}
		}
		return t.unkS(s)
	case *ast.IfStmt:
		initS := "[]"
		if x.Init != nil {
			initS = "[" + strings.Join(t.stmt(x.Init, d+1), ", ") + "]"
		}
		cond := t.sub(x.Cond)
		thenS := t.block(x.Body.List, d+1)
		elseS := "[]"
		switch e := x.Else.(type) {
		case nil:
		case *ast.BlockStmt:
			elseS = t.block(e.List, d+1)
		default:
			elseS = t.block([]ast.Stmt{e}, d+1)
		}
		return []string{".ite " + initS + " " + cond + " " + thenS + " " + elseS}
	case *ast.ReturnStmt:
		return []string{".ret " + t.exprs(x.Results)}
	case *ast.ForStmt:
		// `for init; cond; post { ... }` and `for cond { ... }`; a loop without a condition is outside the subset
		if x.Cond == nil {
			return t.unkS(s)
		}
		id := t.loops
		t.loops++
		initS, postS := "[]", "[]"
		if x.Init != nil {
			initS = "[" + strings.Join(t.stmt(x.Init, d+1), ", ") + "]"
		}
		cond := t.sub(x.Cond)
		if x.Post != nil {
			postS = "[" + strings.Join(t.stmt(x.Post, d+1), ", ") + "]"
		}
		return []string{fmt.Sprintf(".forCond %d %s %s %s %s", id, initS, cond, postS, t.block(x.Body.List, d+1))}
	case *ast.BranchStmt:
		if x.Tok == token.BREAK && x.Label == nil {
			return []string{".brk"}
		}
		return t.unkS(s)
	case *ast.IncDecStmt:
		return []string{".incDec " + t.sub(x.X) + " " + leanString(x.Tok.String())}
	case *ast.GoStmt:
		fl, ok := x.Call.Fun.(*ast.FuncLit)
		if !ok || len(x.Call.Args) != 0 || len(fl.Type.Params.List) != 0 || (fl.Type.Results != nil && len(fl.Type.Results.List) != 0) {
			return t.unkS(s)
		}
		// the closure sees the variables themselves: refuse if one of them changes after the goroutine was started
		if t.assignedAfter(t.localsIn(fl.Body), x.Pos()) {
			return t.unkS(s)
		}
		return []string{".go " + t.block(fl.Body.List, d+1)}
	}
	return t.unkS(s)
}

// the right-hand sides of an assignment; `v, ok := m[k]` takes two values of one index expression
func (t *irTr) rhs(x *ast.AssignStmt) string {
	if len(x.Lhs) == 2 && len(x.Rhs) == 1 {
		if ix, ok := x.Rhs[0].(*ast.IndexExpr); ok {
			return "[.commaOk " + t.sub(ix.X) + " " + t.sub(ix.Index) + "]"
		}
	}
	return t.exprs(x.Rhs)
}
