"""The regenerated tie: run the go/ast extractor on /repo's current tree, rebuild the Lean theorems about the facts."""
import os
import subprocess

from . import env, leanaudit
from .check import write_replay

FACTS = os.path.join(env.LEAN_DIR, "Sessions", "Generated", "Facts.lean")


def build_extractor():
    srcs = sorted(os.path.join(env.EXTRACT_DIR, f) for f in os.listdir(env.EXTRACT_DIR) if f.endswith(".go") or f == "go.mod")
    key = env._hash_files(srcs)
    os.makedirs(env.CACHE, exist_ok=True)
    binp = os.path.join(env.CACHE, "extract-" + key)
    with env.flock("extract"):
        if os.path.exists(binp):
            return binp
        for f in os.listdir(env.CACHE):
            if f.startswith("extract-") and not f.endswith(".lock"):
                try:
                    os.remove(os.path.join(env.CACHE, f))
                except OSError:
                    pass
        p = subprocess.run(["go", "build", "-o", binp, "."], cwd=env.EXTRACT_DIR, env=env.GOENV, stdout=subprocess.PIPE, stderr=subprocess.STDOUT, text=True)
        if p.returncode != 0:
            raise env.BuildError("the fact extractor does not build", p.stdout)
        return binp


def facts_part(rep, prop, module, theorems):
    """Regenerate Facts.lean from the current tree, build `module`, audit `theorems`.
    Returns (ok, message). Adds to the obligations/discharged counts of the report; does NOT raise the violation
    itself: the caller first searches for a failing input."""
    try:
        ex = build_extractor()
    except env.BuildError as e:
        return False, "extractor build failed: " + e.output[-500:]
    with env.flock("lake"):
        p = subprocess.run([ex, "-repo", env.REPO, "-out", FACTS], stdout=subprocess.PIPE, stderr=subprocess.STDOUT, text=True)
        if p.returncode != 0:
            rep.cov["obligations"] = rep.cov.get("obligations", 0) + len(theorems)
            return False, "the extractor could not read the sources: " + p.stdout[-500:]
        b = subprocess.run(["lake", "build", module], cwd=env.LEAN_DIR, stdout=subprocess.PIPE, stderr=subprocess.STDOUT, text=True)
        with open(FACTS) as f:
            facts_text = f.read()
    rep.cov["obligations"] = rep.cov.get("obligations", 0) + len(theorems)
    if b.returncode != 0:
        errs = [l for l in b.stdout.split("\n") if "error" in l][:6]
        return False, "theorems about the regenerated facts no longer check (%s): %s" % (module, " | ".join(errs)) + "\n--- regenerated facts ---\n" + facts_text[:3000]
    res = leanaudit.audit(theorems, imports=(module,))
    bad = [(n, r) for n, r in res.items() if not r["ok"]]
    rep.cov["discharged"] = rep.cov.get("discharged", 0) + len(theorems) - len(bad)
    rep.cov.setdefault("theorems", []).extend({"name": n, "axioms": res[n]["axioms"], "about": "facts regenerated from the source"} for n in theorems)
    if bad:
        return False, "fact theorems with unexpected axioms or missing: " + ", ".join(n for n, _ in bad)
    return True, ""


def facts_for(rep, prop):
    """all regenerated-fact obligations of a property; returns the list of failure messages"""
    from .obligations import FACT_OBLIGATIONS
    msgs = []
    for module, thms in FACT_OBLIGATIONS.get(prop, []):
        ok, msg = facts_part(rep, prop, module, thms)
        if not ok:
            msgs.append(msg)
    return msgs


def report_fact_failures(rep, prop, msgs, n=30):
    """to be called after the search for a failing input: if none was found the violation is reported without one"""
    if not msgs:
        return
    if any(not no_input for _, _, no_input in rep.violations):
        return  # a concrete failing input is already reported
    p = write_replay(prop, n, ["theorems about facts regenerated from the source no longer check; no failing input was found"],
                     "\n\n".join(msgs) + "\n", ext="txt")
    rep.violation(p, msgs[0].split("\n")[0][:300], no_input=True)
