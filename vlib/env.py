"""Paths, environment, build cache and scratch handling for the /verif checks."""
import fcntl
import hashlib
import os
import shutil
import subprocess
import tempfile
import time
from contextlib import contextmanager

VERIF = os.path.dirname(os.path.dirname(os.path.abspath(__file__)))
REPO = os.environ.get("VERIF_REPO", "/repo")
CACHE = os.path.join(VERIF, ".cache")
LEAN_DIR = os.path.join(VERIF, "lean")
HARNESS_DIR = os.path.join(VERIF, "harness")
EXTRACT_DIR = os.path.join(VERIF, "extract")
EVIDENCE = os.environ.get("VERIF_EVIDENCE", os.path.join(VERIF, "evidence"))
REPLAYS = os.path.join(EVIDENCE, "replays")
SCRATCH_ROOT = os.environ.get("VERIF_SCRATCH", "/var/tmp")
NCPU = os.cpu_count() or 4

GOENV = dict(os.environ)
GOENV.update({
    "GOFLAGS": "-mod=mod", "GOPROXY": "off", "GOSUMDB": "off", "GOTOOLCHAIN": "local",
    "GONOSUMDB": "*", "GONOSUMCHECK": "1",
})


def seed() -> int:
    try:
        return int(os.environ.get("VERIF_SEED", "1"))
    except ValueError:
        return 1


def tier(default="quick") -> str:
    t = os.environ.get("VERIF_TIER", default)
    return t if t in ("quick", "thorough") else default


@contextmanager
def flock(name):
    os.makedirs(CACHE, exist_ok=True)
    path = os.path.join(CACHE, name + ".lock")
    with open(path, "w") as f:
        fcntl.flock(f, fcntl.LOCK_EX)
        try:
            yield
        finally:
            fcntl.flock(f, fcntl.LOCK_UN)


@contextmanager
def scratch(prefix="verif-"):
    d = tempfile.mkdtemp(prefix=prefix, dir=SCRATCH_ROOT)
    try:
        yield d
    finally:
        shutil.rmtree(d, ignore_errors=True)


def _hash_files(paths):
    h = hashlib.sha256()
    for p in sorted(paths):
        h.update(p.encode())
        try:
            with open(p, "rb") as f:
                h.update(f.read())
        except OSError:
            h.update(b"<missing>")
    return h.hexdigest()[:16]


def repo_go_files():
    out = []
    for name in sorted(os.listdir(REPO)):
        if name.endswith(".go") or name in ("go.mod", "go.sum"):
            out.append(os.path.join(REPO, name))
    return out


def tree_hash():
    """Hash of /repo's current working tree (Go sources) and of the harness sources."""
    files = repo_go_files()
    for d in (HARNESS_DIR, EXTRACT_DIR):
        if os.path.isdir(d):
            for name in sorted(os.listdir(d)):
                if name.endswith(".go") or name == "go.mod":
                    files.append(os.path.join(d, name))
    return _hash_files(files)


def prune_cache(keep):
    if not os.path.isdir(CACHE):
        return
    dirs = [d for d in os.listdir(CACHE) if os.path.isdir(os.path.join(CACHE, d)) and len(d) == 16 and d != keep]
    dirs.sort(key=lambda d: os.path.getmtime(os.path.join(CACHE, d)))
    for d in dirs[:-3]:  # keep the most recent other ones (checks against scratch copies may run concurrently)
        shutil.rmtree(os.path.join(CACHE, d), ignore_errors=True)


class BuildError(Exception):
    def __init__(self, what, output):
        super().__init__(what)
        self.what = what
        self.output = output


def build_harness(kind="ft"):
    """Build the harness against /repo's current tree. kind: ft (virtual clock) | race | plain.
    Returns the path of the binary; raises BuildError with the compiler output."""
    key = tree_hash()
    d = os.path.join(CACHE, key)
    binp = os.path.join(d, "h_" + kind)
    with flock("build-" + kind):
        if os.path.exists(binp):
            os.utime(d)
            return binp
        os.makedirs(d, exist_ok=True)
        prune_cache(key)
        env = dict(GOENV)
        if kind == "ft":
            env["CGO_ENABLED"] = "0"
            cmd = ["go", "build", "-tags", "verif faketime timetzdata", "-o", binp + ".tmp", "."]
        elif kind == "race":
            env["CGO_ENABLED"] = "1"
            cmd = ["go", "build", "-race", "-tags", "verif timetzdata", "-o", binp + ".tmp", "."]
        else:
            env["CGO_ENABLED"] = "0"
            cmd = ["go", "build", "-tags", "verif timetzdata", "-o", binp + ".tmp", "."]
        if REPO == "/repo":
            p = subprocess.run(cmd, cwd=HARNESS_DIR, env=env, stdout=subprocess.PIPE, stderr=subprocess.STDOUT, text=True)
        else:
            # development: build against another copy of the repository (scratch worktree with a candidate change)
            with scratch("verif-hb-") as d2:
                hd = os.path.join(d2, "harness")
                shutil.copytree(HARNESS_DIR, hd)
                with open(os.path.join(hd, "go.mod")) as f:
                    gm = f.read().replace("=> /repo", "=> " + REPO)
                with open(os.path.join(hd, "go.mod"), "w") as f:
                    f.write(gm)
                p = subprocess.run(cmd, cwd=hd, env=env, stdout=subprocess.PIPE, stderr=subprocess.STDOUT, text=True)
        if p.returncode != 0:
            raise BuildError("harness does not build against the current tree (" + kind + ")", p.stdout)
        os.replace(binp + ".tmp", binp)
        return binp


def driver_path():
    return os.path.join(LEAN_DIR, ".lake", "build", "bin", "driver")


def lake_build(targets=()):
    """(Re)build the Lean library and the driver. Returns (ok, output)."""
    with flock("lake"):
        t0 = time.time()
        p = subprocess.run(["lake", "build"] + (list(targets) or ["Sessions", "driver"]), cwd=LEAN_DIR, stdout=subprocess.PIPE,
                           stderr=subprocess.STDOUT, text=True)
        return p.returncode == 0, p.stdout, time.time() - t0
