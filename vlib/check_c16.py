from .check_codec import run_codec_check


def main(tier, seed, replay=None):
    return run_codec_check("C16", "gob", tier, seed, replay)
