"""C13 — per-key locks are mutually exclusive.

Theorems (Lean, any number of goroutines and keys, any table limit): Mx.mutex_exclusion, Mx.PReach.exclusion,
Mx.purge_only_free, Mx.purge_forgets_no_waiter, Mx.held_entry_not_stale, and the completeness of the executable
checkers for the transition system (Mx.reach_conforms, Mx.reach_exclusion_log). Tie: the real mutexes.go runs seeded
and directed schedules under the virtual clock; `driver mx` checks that every logged manager event is a transition of
the model with the same locks value (checkTrace), that no entry with locks > 0 is purged (checkProviso) and that no
Lock returns while another holder has not called Unlock (checkExclusion); K concurrent sessions.Start calls on one due
id must pass through the lookup-validate-rotate step one at a time and mint exactly one new id.

Verdict: two holders / a held entry purged / interleaved Starts = VIOLATION with script and log; a manager trace that
is no behaviour of the model without any of those = VIOLATION ... no-failing-input-found (the model no longer matches
the code, the theorems say nothing about it)."""
from . import mxlib


def main(tier, seed, replay=None):
    return mxlib.check("C13", tier, seed, replay)
