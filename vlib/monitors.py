"""Property monitors evaluated on transcripts of the real package (and of the model).

Each monitor reads the annotated blocks of one history and returns a list of Violation(idx, what).
They judge the property text against what was observed: inputs, return values, cookies,
persistence calls, and the cache/store dumps before and after every call. They never consult
the model. The exact instant of equality with a non-zero threshold is left unspecified.
"""
import re

MAXI = 9223372036854775807
SEC = 1_000_000_000


class Violation:
    def __init__(self, idx, what):
        self.idx = idx
        self.what = what

    def __repr__(self):
        return "op %d: %s" % (self.idx, self.what)


# ---------------------------------------------------------------------------
# Annotation: configuration and pre-state for every block

CFG_KEYS = ("sessionExpiry", "idExpiry", "grace", "cacheExpiry", "acceptIP", "acceptUA", "maxCache")
PKG_DEFAULTS = dict(sessionExpiry=MAXI, idExpiry=3600 * SEC, grace=300 * SEC, cacheExpiry=3600 * SEC, acceptIP=1, acceptUA=0,
                    maxCache=1048576)
CK_DEFAULT = dict(name="id", domain="", path="", secure=0, httponly=1, samesite=0, maxage=315360000, expoff=315360000)


def _unq(s):
    if s.startswith("~"):
        return bytes.fromhex(s[1:]).decode("utf-8", errors="surrogateescape")
    return s


class Ann:
    """Per-block annotation."""
    __slots__ = ("cfg", "ck", "codec", "pre_cache", "pre_store", "post_cache", "post_store", "epoch", "req", "client",
                 "cache_lost", "minN", "guessed")


def annotate(blocks):
    cfg = dict(PKG_DEFAULTS)
    ck = dict(CK_DEFAULT)
    codec = "gob"
    cache, store = {}, {}
    epoch = 0
    cur_req = None
    client = None
    seen = set()
    for b in blocks:
        a = Ann()
        # a presented value that is an id the server mints only later: excluded by the unguessability assumption
        a.guessed = bool(b.inp and b.inp != "-" and b.inp not in seen and looks_generated(b.inp))
        for e in b.evs:
            if len(e) > 1 and e[0] == "save":
                seen.add(_unq(e[1]))
        if b.ss:
            seen.add(_unq(b.ss["id"]))
        b_ann = a
        a.cfg, a.ck, a.codec = dict(cfg), dict(ck), codec
        a.pre_cache, a.pre_store = cache, store
        a.epoch = epoch
        k = b.tok[0]
        if k == "cfg":
            v = b.tok[2]
            cfg[b.tok[1]] = MAXI if v == "max" else int(v)
        elif k == "codec":
            codec = b.tok[1]
        elif k == "cookiecfg":
            for kv in b.tok[1:]:
                key, v = kv.split("=", 1)
                if key in ("name", "domain", "path"):
                    ck[key] = "" if v == "-" and key != "name" else _unq(v)
                else:
                    ck[key] = int(v)
        if k == "req":
            cur_req = b
            client = b.tok[1]
        a.req = cur_req if k in ("h", "end") or k == "req" else None
        a.client = client if a.req is not None else None
        has_dump = k in ("req", "h", "wait", "logoutuser", "refresh", "purge", "dropcache") and b.ret != "nosession"
        if has_dump:
            cache, store = b.cache, b.store
        a.post_cache, a.post_store = cache, store
        if k == "end":
            cur_req = None
        if b.restart:
            epoch += 1
            cache = {}
        b.ann = a
    return blocks


def looks_generated(v):
    import base64
    import struct
    if len(v) != 24:
        return False
    try:
        raw = base64.b64decode(v, validate=True)
    except Exception:
        return False
    if len(raw) != 16:
        return False
    hi, lo = struct.unpack(">QQ", raw)
    return lo >= 1 and hi == (lo * 0x9E3779B97F4A7C15) % (1 << 64)


# ---------------------------------------------------------------------------
# helpers

def la(f):
    return int(f["la"])


def cr(f):
    return int(f["cr"])


def gran(codec):
    return SEC if codec == "json" else 0


def conv_data(da, codec):
    """what a data rendering becomes after a store round trip"""
    if da is None or da == "nil":
        return da
    if codec != "json":
        return da
    return re.sub(r"=i(-?\d+)", r"=f\1", da)


def norm_da(da, codec):
    """normalise an object's data rendering for comparison with a stored record"""
    if da == "nil":
        return "nil" if codec == "json" else "{}"
    return conv_data(da, codec)


def same_da(a, b):
    """equality up to the documented JSON number conversion"""
    return re.sub(r"=i(-?\d+)", r"=f\1", a) == re.sub(r"=i(-?\d+)", r"=f\1", b)


def user_id(us):
    return us.split("@")[0]


IPV4 = re.compile(r"^(\d{1,3})\.(\d{1,3})\.(\d{1,3})\.(\d{1,3}):(\d+)$")


def canon_ip(addr):
    m = IPV4.match(addr)
    return m.groups()[:4] if m else None


def ip_anomaly(n, prev, cur):
    """True/False per the property text for canonical addresses, None when it says nothing."""
    if n <= 1:
        return False
    p, c = canon_ip(prev), canon_ip(cur)
    looks_v6 = lambda a: a.startswith("[")
    if p is None or c is None:
        if (p is not None or looks_v6(prev)) and (c is not None or looks_v6(cur)):
            return False  # an IPv6 side never costs the session
        return None
    if n > 4:
        return None
    return any(p[i] != c[i] for i in range(n - 1))


def fnv1a64(s):
    h = 14695981039346656037
    for b in s.encode("utf-8", errors="surrogateescape"):
        h = ((h ^ b) * 1099511628211) % (1 << 64)
    return h


def agent_hash(ua):
    return 0 if ua == "" else fnv1a64(ua)


def req_fields(b):
    """(client, spec, ip, ua, create) of a req block"""
    t = b.tok
    ua = "" if t[4] == "-" else _unq(t[4])
    return t[1], t[2], _unq(t[3]), ua, t[5] == "1"


def found_pre(b, v):
    """the object/record the package holds for id v before block b: (fields, where)"""
    a = b.ann
    if v in a.pre_cache:
        return a.pre_cache[v], "cache"
    if v in a.pre_store and a.pre_store[v] != "undecodable":
        return a.pre_store[v], "store"
    return None, None


def live_cookies(b):
    return [c for c in b.cks if c["value"] != "deleted"]


def verdict(b):
    """What the property text demands of a request presenting a known id, judged on the pre-state:
    returns (decision, reason) with decision in serve | refuse | unspecified | unknown-id."""
    a = b.ann
    cfg = a.cfg
    v = b.inp
    if v is None or v == "-":
        return "unknown-id", "no cookie"
    f, where = found_pre(b, v)
    if f is None:
        return "unknown-id", "not held"
    if len(v.encode("utf-8", errors="surrogateescape")) != 24:
        return "unknown-id", "length"
    _, _, ip, ua, _ = req_fields(b)
    idle = b.t - la(f)
    se = cfg["sessionExpiry"]
    # "at least SessionExpiry has passed": equality counts. An instant read back from a JSON record lost its sub-second part, so
    # there equality of the RECORDED idle time does not tell whether the true one reached the limit.
    exact = where == "cache" or a.codec != "json"
    if se == 0 or idle > se or (idle == se and exact):
        return "refuse", "stale"
    if idle == se:
        return "unspecified", "idle == SessionExpiry up to the codec's granularity"
    an = ip_anomaly(cfg["acceptIP"], _unq(f["ip"]), ip)
    if an is None:
        return "unspecified", "address not canonical"
    if an:
        return "refuse", "ip"
    if not cfg["acceptUA"]:
        rec = int(f["ua"])
        if rec != 0 and rec != agent_hash(ua):
            return "refuse", "ua"
    if f["rf"] != "-":
        age = b.t - cr(f)
        lim = cfg["idExpiry"] + cfg["grace"]
        if age > lim:
            return "refuse", "backstop"
        if age == lim:
            return "unspecified", "age == backstop"
        return "serve-ref", "reference"
    return "serve", "valid"


# ---------------------------------------------------------------------------
# Ghost: session identity, expected content and life status, folded from observations only

class Ghost:
    def __init__(self):
        self.sid_of = {}       # id -> sid
        self.ids = {}          # sid -> [ids]
        self.cur = {}          # sid -> current id
        self.alive = {}        # sid -> bool
        self.replaced = {}     # id -> (t, epoch, new id)
        self.data = {}         # sid -> {key: rendered value | None (uncertain)}
        self.user = {}         # sid -> uid | None | "?" (uncertain)
        self.owner = {}        # sid -> client
        self.last_ok = {}      # sid -> (t, epoch) of the last request that got the session
        self.lost_since = {}   # sid -> True when a cache loss / N=0 / N=1 happened since last_ok
        self.n = 0

    def new_sid(self, id_, client, t, epoch):
        self.n += 1
        sid = self.n
        self.sid_of[id_] = sid
        self.ids[sid] = [id_]
        self.cur[sid] = id_
        self.alive[sid] = True
        self.data[sid] = {}
        self.user[sid] = None
        self.owner[sid] = client
        self.last_ok[sid] = (t, epoch)
        self.lost_since[sid] = False
        return sid

    def absorb_events(self, b):
        """identity links from reference saves: `save K rf=N` makes N an id of K's session"""
        for e in b.evs:
            if e[0] == "save" and len(e) > 3:
                f = dict(kv.split("=", 1) for kv in e[2:] if "=" in kv)
                k = _unq(e[1])
                if f.get("rf", "-") != "-":
                    n = _unq(f["rf"])
                    if k in self.sid_of and n not in self.sid_of:
                        sid = self.sid_of[k]
                        self.sid_of[n] = sid
                        self.ids[sid].append(n)
                        if self.cur.get(sid) == k:
                            self.cur[sid] = n
                    if k not in self.replaced:
                        self.replaced[k] = (b.t, b.ann.epoch, n)

    def end(self, sid):
        self.alive[sid] = False


def fold(blocks, visit):
    """Run the ghost over a history, calling visit(b, ghost, ctx) BEFORE the ghost absorbs block b's effects
    (ctx carries the sid the request works on)."""
    g = Ghost()
    ctx = {"sid": None, "pre_id": None}
    for b in blocks:
        k = b.tok[0]
        a = b.ann
        visit(b, g, ctx)
        # ---- absorb
        g.absorb_events(b)
        if k in ("dropcache",) or b.restart or a.cfg["maxCache"] in (0, 1):
            for sid in g.lost_since:
                g.lost_since[sid] = True
        if k == "req":
            ctx["sid"] = None
            if b.ret == "sess" and b.ss:
                rid = _unq(b.ss["id"])
                if rid in g.sid_of:
                    sid = g.sid_of[rid]
                else:
                    sid = g.new_sid(rid, b.tok[1], b.t, a.epoch)
                ctx["sid"] = sid
                g.last_ok[sid] = (b.t, a.epoch)
                g.lost_since[sid] = a.cfg["maxCache"] in (0, 1)
            # a refusal of the session's current id ends it
            v = b.inp
            if v and v != "-" and v in g.sid_of:
                sid = g.sid_of[v]
                deleted = any(e[0] == "del" and _unq(e[1]) == v and len(e) == 2 for e in b.evs)
                if deleted and g.cur.get(sid) == v and not (b.ret == "sess" and ctx["sid"] == sid):
                    g.end(sid)
        elif k == "h" and ctx["sid"] is not None:
            sid = ctx["sid"]
            op = b.tok[1]
            ok = b.ret == "ok"
            if op == "set":
                g.data[sid][_unq(b.tok[2])] = b.tok[3] if ok else None
            elif op == "del":
                if ok:
                    g.data[sid].pop(_unq(b.tok[2]), None)
                else:
                    g.data[sid][_unq(b.tok[2])] = None
            elif op == "getdel":
                if b.ret and b.ret.startswith("val:"):
                    g.data[sid].pop(_unq(b.tok[2]), None)
            elif op == "login":
                uid = _unq(b.tok[2])
                if ok:
                    if b.tok[3] == "1":
                        for s2 in g.user:
                            if s2 != sid and g.user[s2] == uid:
                                g.user[s2] = None
                    g.user[sid] = uid
                else:
                    g.user[sid] = "?"
                    if b.tok[3] == "1":
                        for s2 in g.user:
                            if g.user[s2] == uid:
                                g.user[s2] = "?"
            elif op == "logout":
                g.user[sid] = None if ok else "?"
            elif op == "destroy":
                # the session is over when Destroy says so (ok), or when its record was in fact deleted
                if ok or any(e[0] == "del" and len(e) == 2 for e in b.evs):
                    g.end(sid)
        elif k == "logoutuser":
            uid = _unq(b.tok[1])
            for s2 in g.user:
                if g.user[s2] == uid:
                    g.user[s2] = None if b.ret == "ok" else "?"
        elif k == "end":
            ctx["sid"] = None
    return g


def norm_val(v):
    return "f" + v[1:] if v and v[0] == "i" else v


def data_matches(da, expected):
    """da: rendering {k=v,...} or nil; expected: {key: value|None}"""
    if da == "nil":
        return False
    got = _run_parse_data(da)
    for k, v in expected.items():
        if v is None:
            got.pop(k, None)
            continue
        if k not in got or norm_val(got[k]) != norm_val(v):
            return False
        got.pop(k)
    return not got


def _run_parse_data(s):
    inner = s[1:-1]
    d = {}
    if inner:
        for kv in inner.split(","):
            k, v = kv.split("=", 1)
            d[_unq(k)] = v
    return d


# ---------------------------------------------------------------------------
# C01

def mon_C01(blocks):
    out = []

    def visit(b, g, ctx):
        if b.tok[0] == "h" and b.ret == "panic" and not b.faulted:
            out.append(Violation(b.idx, "%s on the client's session panicked (%s): the write is lost" % (b.line, b.msg)))
            return
        if b.tok[0] != "req":
            return
        client, spec, ip, ua, create = req_fields(b)
        v = b.inp
        sid = g.sid_of.get(v) if v and v != "-" else None
        if b.ret == "panic":
            out.append(Violation(b.idx, "Start panicked"))
            return
        if spec == "jar" and sid is not None and g.alive.get(sid):
            d, why = verdict(b)
            if d == "serve" and g.cur.get(sid) == v and b.faulted == 0:
                got = _unq(b.ss["id"]) if (b.ret == "sess" and b.ss) else None
                # the returned session must be the client's own: its id is the presented one or was linked to it by this call
                linked = got == v or any(e[0] == "save" and len(e) > 3 and _unq(e[1]) == v and ("rf=" + (b.ss["id"] if b.ss else "?")) in e for e in b.evs)
                if got is None or not linked:
                    out.append(Violation(b.idx, "client %s presented the valid current id of its session but got %s" % (client, b.ret if got is None else "another session")))
        if b.ret == "sess" and b.ss:
            rid = _unq(b.ss["id"])
            # an existing session (known before this call, or linked to a known id by this call)
            s2 = g.sid_of.get(rid)
            if s2 is None and sid is not None:
                for e in b.evs:
                    if e[0] == "save" and len(e) > 3 and _unq(e[1]) in g.sid_of and ("rf=" + b.ss["id"]) in e:
                        s2 = g.sid_of[_unq(e[1])]
            if s2 is not None:
                if not g.alive.get(s2):
                    return  # C07's business
                if not data_matches(b.ss["da"], dict(g.data[s2])):
                    out.append(Violation(b.idx, "returned session data %s differs from what was last written %s" % (b.ss["da"], g.data[s2])))
                exp_u = g.user[s2]
                if exp_u != "?":
                    got_u = None if b.ss["us"] == "-" else user_id(b.ss["us"])
                    if got_u != exp_u:
                        out.append(Violation(b.idx, "returned session user %s, last written %s" % (got_u, exp_u)))
            else:
                # a new session is empty and user-less
                if b.ss["da"] != "{}" or b.ss["us"] != "-":
                    out.append(Violation(b.idx, "new session is not empty: %s %s" % (b.ss["da"], b.ss["us"])))

    fold(blocks, visit)
    return out


# ---------------------------------------------------------------------------
# C02: unknown or forged cookie values

def rec_essence(f):
    if f == "undecodable":
        return f
    return (f["rf"], f["us"], f["cr"], f["da"])


def mon_C02(blocks):
    out = []
    for b in blocks:
        if b.tok[0] != "req" or b.faulted:
            continue
        a = b.ann
        v = b.inp
        if v is None or a.guessed:
            continue
        known = v != "-" and (v in a.pre_cache or v in a.pre_store)
        if known:
            continue
        vlen = len(v.encode("utf-8", errors="surrogateescape")) if v != "-" else 0
        if b.ret == "panic":
            out.append(Violation(b.idx, "Start panicked on a forged cookie"))
            continue
        loads = [e for e in b.evs if e[0] == "load"]
        if vlen != 24 and loads:
            out.append(Violation(b.idx, "a value of length %d was looked up" % vlen))
        if any(_unq(e[1]) != v for e in loads):
            out.append(Violation(b.idx, "a forged value made the package load another id"))
        fresh = None
        if b.ret == "sess" and b.ss:
            fresh = _unq(b.ss["id"])
            if fresh == v:
                out.append(Violation(b.idx, "the session lives under the value the client presented"))
            if fresh in a.pre_cache or fresh in a.pre_store:
                out.append(Violation(b.idx, "an unknown cookie value was given the existing session %s" % fresh))
            if b.ss["da"] != "{}" or b.ss["us"] != "-" or b.ss["rf"] != "-":
                out.append(Violation(b.idx, "session created for a forged cookie is not empty"))
            if b.rng != 16:
                out.append(Violation(b.idx, "the id of the created session consumed %s random bytes, not 16" % b.rng))
            if not req_fields(b)[4]:
                out.append(Violation(b.idx, "a session was created although createIfNew is false"))
        elif b.ret == "err":
            out.append(Violation(b.idx, "error for an unknown cookie value"))
        bg_deleted = set(i for _, i in b.bg)
        for k, f in a.pre_store.items():
            if k in bg_deleted:
                continue
            if k not in b.store:
                out.append(Violation(b.idx, "stored record %s was deleted by a request with a forged cookie" % k))
            elif rec_essence(b.store[k]) != rec_essence(f):
                out.append(Violation(b.idx, "stored record %s was altered by a request with a forged cookie" % k))
        for k in b.store:
            if k not in a.pre_store and k != fresh:
                out.append(Violation(b.idx, "a record appeared under %s" % k))
        if v != "-" and v in b.store:
            out.append(Violation(b.idx, "a record exists under the presented value"))
    return out


# ---------------------------------------------------------------------------
# C03: expiry

def mon_C03(blocks):
    out = []

    def visit(b, g, ctx):
        a = b.ann
        k = b.tok[0]
        if k == "req" and not b.faulted and b.ret != "panic":
            v = b.inp
            d, why = verdict(b)
            if d == "refuse" and why == "stale":
                if b.ret == "sess" and b.ss and (_unq(b.ss["id"]) == v or _unq(b.ss["id"]) in a.pre_store or _unq(b.ss["id"]) in a.pre_cache):
                    out.append(Violation(b.idx, "a session idle for %d >= SessionExpiry %d was served" % (b.t - la(found_pre(b, v)[0]), a.cfg["sessionExpiry"])))
                if v in b.cache or v in b.store:
                    out.append(Violation(b.idx, "the expired session %s is still held after the request" % v))
                if b.ret != "err":
                    dels = [c for c in b.cks if c["value"] == "deleted"]
                    if not dels:
                        out.append(Violation(b.idx, "the cookie of an expired session was not expired"))
            # active sessions are kept (cache enabled, no cache loss since the last access)
            sid = g.sid_of.get(v) if v and v != "-" else None
            if sid is not None and g.alive.get(sid) and g.cur.get(sid) == v and a.cfg["maxCache"] != 0 and not g.lost_since.get(sid):
                t0, ep = g.last_ok[sid]
                if ep == a.epoch and b.t - t0 < a.cfg["sessionExpiry"] - gran(a.codec) and d in ("refuse",) and why == "stale":
                    out.append(Violation(b.idx, "session accessed %d ago (< SessionExpiry %d) was expired" % (b.t - t0, a.cfg["sessionExpiry"])))
                # ... also when the state the package holds says "fresh" (the cached object) and the session is refused all the
                # same, as if judged by the older access time in the store
                fs = a.pre_store.get(v)
                if (ep == a.epoch and b.t - t0 < a.cfg["sessionExpiry"] - gran(a.codec) and d == "serve" and b.ret in ("nil", "sess")
                        and any(c["value"] == "deleted" for c in b.cks) and v in a.pre_cache
                        and fs and fs != "undecodable" and b.t - la(fs) >= a.cfg["sessionExpiry"] and v not in b.store):
                    out.append(Violation(b.idx, "session accessed %d ago (< SessionExpiry %d) was expired: judged by the access time in the store "
                                                "(%d ago) although a newer one was in memory" % (b.t - t0, a.cfg["sessionExpiry"], b.t - la(fs))))
        if k == "h" and b.tok[1] == "expired" and b.ret == "b1" and a.req is not None:
            # Expired() on the session a request was just given: true only if a request now would refuse it
            ss = b.ss
            if ss and ss["rf"] == "-":
                idle = b.t - la(ss)
                if idle < a.cfg["sessionExpiry"]:
                    out.append(Violation(b.idx, "Expired() is true for a session idle for %d < SessionExpiry %d" % (idle, a.cfg["sessionExpiry"])))
        if k == "expired" and b.ret == "b1":
            idv = resolve_spec(b.tok[1])
            f = a.pre_store.get(idv)
            if f and f != "undecodable" and f["rf"] == "-" and idv not in a.pre_cache:
                idle = b.t - la(f)
                if idle < a.cfg["sessionExpiry"]:
                    out.append(Violation(b.idx, "Expired() is true for a stored session idle for %d < SessionExpiry %d" % (idle, a.cfg["sessionExpiry"])))

    fold(blocks, visit)
    return out


def gen_id(n):
    import base64
    import struct
    hi = ((n + 1) * 0x9E3779B97F4A7C15) % (1 << 64)
    return base64.b64encode(struct.pack(">QQ", hi, (n + 1) % (1 << 64))).decode()


def resolve_spec(spec):
    if len(spec) > 1 and spec[0] == "g" and spec[1:].isdigit():
        return gen_id(int(spec[1:]))
    return _unq(spec)


# ---------------------------------------------------------------------------
# C04: rotation

def rotation_check(b, out, pre_obj, pre_id, what):
    """after a call that must have changed the id exactly once"""
    a = b.ann
    if not b.ss:
        out.append(Violation(b.idx, what + ": no session"))
        return
    nid = _unq(b.ss["id"])
    if nid == pre_id:
        out.append(Violation(b.idx, what + ": the id did not change"))
        return
    if nid in a.pre_cache or nid in a.pre_store:
        out.append(Violation(b.idx, what + ": the new id %s is not fresh" % nid))
    if b.rng != 16:
        out.append(Violation(b.idx, what + ": %s random bytes drawn, expected 16 (exactly one new id)" % b.rng))
    lc = live_cookies(b)
    if not b.cks or b.cks[-1]["value"] != nid:
        out.append(Violation(b.idx, what + ": the response does not end with a cookie for the new id"))
    if len(lc) > 1:
        out.append(Violation(b.idx, what + ": %d live cookies in one response" % len(lc)))
    rec = b.store.get(nid)
    if rec is None or rec == "undecodable" or rec["rf"] != "-":
        out.append(Violation(b.idx, what + ": no full record under the new id"))
    elif pre_obj is not None and not same_da(norm_da(rec["da"], a.codec), norm_da(b.ss["da"], a.codec)):
        out.append(Violation(b.idx, what + ": record under the new id has other data than the session"))
    old = b.store.get(pre_id)
    bg_deleted = set(i for _, i in b.bg)
    if pre_id not in bg_deleted:
        if old is None or old == "undecodable" or _unq(old["rf"]) != nid:
            out.append(Violation(b.idx, what + ": the old id does not refer to the new id"))
    if pre_obj is not None:
        if not same_da(b.ss["da"], pre_obj["da"]) and what.startswith("rotation"):
            out.append(Violation(b.idx, what + ": data changed across the id change"))


def mon_C04(blocks):
    out = []
    born = {}   # id -> instant of the call in which it was first seen (minted): the age of an ID is counted from there,
    #             whatever the record's creation field says

    def note_births(b):
        for src in (b.store, b.cache):
            for i in (src or {}):
                born.setdefault(i, b.t)

    for b in blocks:
        a = b.ann
        k = b.tok[0]
        if b.faulted or b.ret == "panic":
            note_births(b)
            continue
        if k == "req":
            d, why = verdict(b)
            if d != "serve":
                note_births(b)
                continue
            v = b.inp
            f, where = found_pre(b, v)
            exact = where == "cache" or a.codec != "json"
            age = b.t - cr(f)
            if v in born and born[v] >= cr(f) and b.t - born[v] < age - gran(a.codec):
                # the record claims an older creation than the id's first appearance: the id is as old as its appearance
                age = b.t - born[v]
                exact = True
            ide = a.cfg["idExpiry"]
            if b.ret != "sess" or not b.ss:
                if ide != 0 and age < ide:
                    out.append(Violation(b.idx, "an id younger than SessionIDExpiry stopped working: %s" % b.ret))
                note_births(b)
                continue  # otherwise continuity is C01's
            if ide == 0 or age > ide or (age == ide and exact):
                # "at least SessionIDExpiry old": equality counts where the recorded creation time is exact
                rotation_check(b, out, f, v, "rotation of a due id")
                if b.ss and (b.ss["us"] == "-") != (f["us"] == "-"):
                    out.append(Violation(b.idx, "rotation changed the user"))
            elif age < ide - (0 if exact else gran(a.codec)):
                if _unq(b.ss["id"]) != v or b.rng != 0 or b.cks:
                    out.append(Violation(b.idx, "an id younger than SessionIDExpiry was changed or a cookie was set"))
                if v not in b.store and v not in b.cache:
                    out.append(Violation(b.idx, "a young id stopped working"))
        elif k == "h" and b.tok[1] in ("regen", "login") and b.ret == "ok" and a.req is not None:
            # id before the call: the ss of the previous block of this request
            pre = prev_ss(blocks, b)
            if pre is None:
                continue
            rotation_check(b, out, pre if b.tok[1] == "regen" else None, _unq(pre["id"]), b.tok[1])
        note_births(b)
    return out


def prev_ss(blocks, b):
    i = blocks.index(b) - 1
    while i >= 0:
        p = blocks[i]
        if p.tok[0] in ("req", "h") and p.ss:
            return p.ss
        if p.tok[0] == "req":
            return None
        i -= 1
    return None


# ---------------------------------------------------------------------------
# C05: replaced ids

def chain_intact(b, v):
    """follow reference records from v in the pre-state; returns (final id or None, length)"""
    a = b.ann
    seen = 0
    cur = v
    while seen < 50:
        f = a.pre_cache.get(cur) or a.pre_store.get(cur)
        if f is None or f == "undecodable":
            return None, seen
        if f["rf"] == "-":
            return cur, seen
        cur = _unq(f["rf"])
        seen += 1
    return None, seen


def mon_C05(blocks):
    out = []
    replaced_at = {}   # replaced id -> (instant of the call that replaced it, grace period configured then, epoch)

    def visit(b, g, ctx):
        a = b.ann
        k = b.tok[0]
        cfg = a.cfg
        # the clean-up of a replaced id does not run before its grace period is over (the period configured when it was replaced)
        for e in b.evs:
            if e[0] == "save" and e[-1] != "fail" and any(t.startswith("rf=") and t != "rf=-" for t in e[2:]):
                replaced_at.setdefault(_unq(e[1]), (b.t, cfg["grace"], a.epoch))
        for tb, idv in b.bg:
            if idv in replaced_at:
                t0, gr, ep = replaced_at[idv]
                if ep == a.epoch and 0 <= gr < MAXI and int(tb) < t0 + gr:
                    out.append(Violation(b.idx, "the clean-up deleted replaced id %s %d after its replacement, before its grace period (%d) was over" % (
                        idv, int(tb) - t0, gr)))
        # clean-up in a running process: a replaced id is gone once its grace period has passed
        if k in ("req", "wait", "h", "purge", "logoutuser", "refresh") and cfg["grace"] != MAXI:
            for idv, (t0, ep, _) in g.replaced.items():
                if ep == a.epoch and a.pre_store is not None and b.t > t0 + cfg["grace"] + 1:
                    if idv in a.pre_cache or idv in a.pre_store:
                        f = a.pre_cache.get(idv) or a.pre_store.get(idv)
                        if f != "undecodable" and f["rf"] != "-":
                            out.append(Violation(b.idx, "replaced id %s still held %d after its replacement (grace %d)" % (idv, b.t - t0, cfg["grace"])))
                            return
        if k == "req" and not b.faulted and b.ret != "panic":
            v = b.inp
            if not v or v == "-":
                return
            f, where = found_pre(b, v)
            if f is None or f["rf"] == "-":
                return
            d, why = verdict(b)
            t0 = g.replaced.get(v, (cr(f), a.epoch, None))[0]
            since_repl = b.t - t0
            lim = min(cfg["grace"], cfg["sessionExpiry"])
            final, n = chain_intact(b, v)
            if d == "serve-ref" and since_repl < lim - gran(a.codec) and final is not None:
                ok = b.ret == "sess" and b.ss and b.ss["rf"] == "-" and b.ss["da"] != "nil"
                if not ok:
                    out.append(Violation(b.idx, "replaced id presented %d after replacement (grace %d, chain of %d) did not yield the live session: %s" % (since_repl, cfg["grace"], n, b.ret)))
                else:
                    rid = _unq(b.ss["id"])
                    sid = g.sid_of.get(v)
                    if sid is not None and g.sid_of.get(rid) != sid:
                        out.append(Violation(b.idx, "replaced id resolved to a different session"))
                    if not b.cks or b.cks[-1]["value"] != rid:
                        out.append(Violation(b.idx, "cookie not redirected to the session's current id %s" % rid))
            if ((d, why) == ("refuse", "backstop") and v in g.replaced and since_repl < lim - gran(a.codec) and final is not None and b.ret != "sess"
                    and cfg["idExpiry"] >= 0 and since_repl < cfg["idExpiry"] + cfg["grace"] - gran(a.codec)):
                # the record claims an age beyond SessionIDExpiry + grace although the id was replaced only a moment ago: the
                # age of a replaced id counts from its replacement, not from whatever its record carries
                out.append(Violation(b.idx, "replaced id presented %d after replacement (grace %d) was refused as long expired: its record is dated %d before the replacement" % (
                    since_repl, cfg["grace"], t0 - cr(f))))
            # never honoured later than SessionIDExpiry + grace after replacement, whatever happened to the clean-up
            if cfg["idExpiry"] != MAXI and cfg["grace"] != MAXI and since_repl > cfg["idExpiry"] + cfg["grace"] + gran(a.codec):
                if b.ret == "sess" and b.ss and g.sid_of.get(_unq(b.ss["id"])) == g.sid_of.get(v) and g.sid_of.get(v) is not None:
                    out.append(Violation(b.idx, "replaced id honoured %d after its replacement" % since_repl))
        if k == "expired":
            idv = resolve_spec(b.tok[1])
            f = a.pre_store.get(idv)
            if f and f != "undecodable" and f["rf"] != "-" and idv in g.replaced:
                t0 = g.replaced[idv][0]
                d = b.t - t0
                if d > cfg["grace"] + gran(a.codec) and b.ret == "b0":
                    out.append(Violation(b.idx, "Expired() false for a replaced-id record %d after replacement (grace %d)" % (d, cfg["grace"])))
                if d < cfg["grace"] - gran(a.codec) and b.ret == "b1":  # a JSON record's instants lost their sub-second part
                    out.append(Violation(b.idx, "Expired() true for a replaced-id record only %d after replacement (grace %d)" % (d, cfg["grace"])))

    fold(blocks, visit)
    return out


# ---------------------------------------------------------------------------
# C06: anomalies

def mon_C06(blocks):
    out = []

    # ghost: the address/user agent of the last accepted request of every session, and the comparison point each
    # replaced id inherited when it was replaced
    last_req = {}     # sid -> (ip, ua)
    repl_point = {}   # replaced id -> (ip, ua)

    def visit(b, g, ctx):
        a = b.ann
        k = b.tok[0]
        # comparison points of ids replaced by this call: the session's last accepted request so far (a rotation inside
        # Start happens before the request's own address is recorded; a handler call happens after)
        for e in b.evs:
            if e[0] == "save" and len(e) > 3 and any(t.startswith("rf=") and t != "rf=-" for t in e[2:]):
                old = _unq(e[1])
                sid = g.sid_of.get(old)
                if sid is not None and old not in repl_point and sid in last_req:
                    repl_point[old] = last_req[sid]
        if k != "req" or b.faulted or b.ret == "panic":
            return
        v = b.inp
        d, why = verdict(b)
        _, _, ip, ua, _ = req_fields(b)
        if d == "refuse" and why in ("ip", "ua") and a.cfg["maxCache"] not in (0, 1):
            # the record says "anomaly"; what did the client's previous accepted request really look like?
            sid0 = g.sid_of.get(v)
            point = last_req.get(sid0) if (sid0 is not None and g.cur.get(sid0) == v) else repl_point.get(v)
            if point is not None:
                pip, pua = point
                if why == "ua" and pua == ua:
                    out.append(Violation(b.idx, "an unchanged User-Agent (%r) cost the session: the recorded fingerprint is %s, the header hashes to %d"
                                         % (ua, (found_pre(b, v)[0] or {}).get("ua"), agent_hash(ua))))
                    return
                if why == "ip" and pip == ip:
                    out.append(Violation(b.idx, "an unchanged peer address (%s) cost the session: recorded %s" % (ip, (found_pre(b, v)[0] or {}).get("ip"))))
                    return
        if d == "refuse" and why in ("ip", "ua"):
            served = b.ret == "sess" and b.ss and (_unq(b.ss["id"]) == v or _unq(b.ss["id"]) in a.pre_store or _unq(b.ss["id"]) in a.pre_cache)
            if served:
                out.append(Violation(b.idx, "request with anomalous %s was served the session" % why))
            if v in b.cache or v in b.store:
                out.append(Violation(b.idx, "record %s not destroyed after %s anomaly" % (v, why)))
            if b.ret != "err" and not any(c["value"] == "deleted" for c in b.cks):
                out.append(Violation(b.idx, "cookie not expired after %s anomaly" % why))
        elif d in ("serve",):
            if b.ret != "sess" or not b.ss:
                out.append(Violation(b.idx, "a request without anomaly (%s) lost the session: %s" % (why, b.ret)))
            elif v not in b.store and _unq(b.ss["id"]) == v:
                out.append(Violation(b.idx, "session record gone after a request without anomaly"))
            else:
                # the comparison point moves with the accepted request
                if _unq(b.ss["ip"]) != ip or int(b.ss["ua"]) != agent_hash(ua):
                    out.append(Violation(b.idx, "accepted request's address/user agent not recorded"))
        if v in repl_point and a.cfg["maxCache"] not in (0, 1) and d not in ("refuse", "unknown-id") and (found_pre(b, v)[0] or {}).get("rf", "-") != "-":
            # through a replaced id the comparison point is the session's last accepted request at the time of replacement
            pip, pua = repl_point[v]
            an = ip_anomaly(a.cfg["acceptIP"], pip, ip)
            ua_bad = (not a.cfg["acceptUA"]) and agent_hash(pua) != 0 and agent_hash(pua) != agent_hash(ua)
            same = b.ret == "sess" and b.ss and g.sid_of.get(v) is not None and g.sid_of.get(_unq(b.ss["id"])) == g.sid_of.get(v)
            if (an is True or ua_bad) and same:
                out.append(Violation(b.idx, "a request presenting a replaced id from %s (%s) was served although the session's last accepted request "
                                            "before the replacement came from %s (%s)" % (ip, ua, pip, pua)))

    def visit_after(b, g, ctx):
        pass

    # fold calls visit BEFORE absorbing; the last accepted request must be recorded AFTER the checks of the same block
    def visit2(b, g, ctx):
        visit(b, g, ctx)
        if b.tok[0] == "req" and b.ret == "sess" and b.ss:
            rid = _unq(b.ss["id"])
            sid = g.sid_of.get(rid) or g.sid_of.get(b.inp)
            _, _, ip, ua, _ = req_fields(b)
            pending.append((rid, b.inp, (ip, ua)))

    pending = []

    def visit3(b, g, ctx):
        # settle the previous request's address now that the ghost knows its session id
        while pending:
            rid, inp, addr = pending.pop()
            sid = g.sid_of.get(rid) or g.sid_of.get(inp)
            if sid is not None:
                last_req[sid] = addr
        visit2(b, g, ctx)

    fold(blocks, visit3)
    return out


# ---------------------------------------------------------------------------
# C07: no resurrection

def mon_C07(blocks):
    out = []
    dead_ids = {}

    def visit(b, g, ctx):
        a = b.ann
        k = b.tok[0]
        # refresh dead ids
        for sid, alive in g.alive.items():
            if not alive:
                for i in g.ids[sid]:
                    dead_ids.setdefault(i, sid)
        if k == "req" and b.ret == "sess" and b.ss:
            rid = _unq(b.ss["id"])
            if rid in dead_ids:
                out.append(Violation(b.idx, "a destroyed session came back under id %s" % rid))
            v = b.inp
            if v in dead_ids and g.sid_of.get(rid) == dead_ids[v]:
                out.append(Violation(b.idx, "a former id of a destroyed session obtained it"))
        if k in ("req", "wait", "purge") and dead_ids:
            for i in dead_ids:
                f = a.post_store.get(i) if k != "req" else b.store.get(i)
                if f and f != "undecodable" and f["rf"] == "-":
                    out.append(Violation(b.idx, "a full record of a destroyed session exists under %s" % i))
                    break
        # the ending response
        ending = False
        if k == "req" and not b.faulted:
            d, why = verdict(b)
            v = b.inp
            sid = g.sid_of.get(v) if v else None
            if d == "refuse" and sid is not None and g.cur.get(sid) == v and b.ret != "err":
                ending = True
        if k == "h" and b.tok[1] == "destroy" and b.ret == "ok":
            ending = True
        if ending:
            if not b.cks:
                out.append(Violation(b.idx, "the response ending a session sets no cookie"))
            else:
                last = b.cks[-1]
                sid = ctx.get("sid") if k == "h" else g.sid_of.get(b.inp)
                if last["value"] != "deleted":
                    if g.sid_of.get(last["value"]) == sid and sid is not None:
                        out.append(Violation(b.idx, "the response ending a session leaves the client an id of it"))
                    if last["value"] in a.pre_store or last["value"] in a.pre_cache:
                        out.append(Violation(b.idx, "the response ending a session hands out an existing id"))

    fold(blocks, visit)
    return out


# ---------------------------------------------------------------------------
# C08: login / logout

def mon_C08(blocks):
    out = []
    for b in blocks:
        a = b.ann
        k = b.tok[0]
        if b.ret == "panic":
            if k in ("logoutuser", "refresh") or (k == "h" and b.tok[1] in ("login", "logout")):
                out.append(Violation(b.idx, "%s panicked" % b.line))
            continue
        if b.faulted:
            continue
        if k == "h" and b.tok[1] == "login" and b.ret == "ok" and b.ss:
            uid = _unq(b.tok[2])
            nid = _unq(b.ss["id"])
            pre = prev_ss(blocks, b)
            if b.ss["us"] == "-" or user_id(b.ss["us"]) != uid:
                out.append(Violation(b.idx, "after LogIn the session carries %s" % b.ss["us"]))
            if pre is not None and _unq(pre["id"]) == nid:
                out.append(Violation(b.idx, "LogIn did not change the session id"))
            elif not b.cks or b.cks[-1]["value"] != nid:
                # "its ID has changed" for the client too: the response has to END with the cookie of the new id, whatever
                # session cookies (a deletion, an earlier id) it already carried
                out.append(Violation(b.idx, "after LogIn the response does not end with a cookie for the session's new id %s but with %s" % (
                    nid, b.cks[-1]["value"] if b.cks else "no cookie")))
            rec = b.store.get(nid)
            if rec is None or rec == "undecodable" or rec["us"] != uid:
                out.append(Violation(b.idx, "stored record under the new id does not carry the user"))
            if b.tok[3] == "1":
                for key, f in b.store.items():
                    if key != nid and f != "undecodable" and f["us"] == uid and f["rf"] == "-":
                        out.append(Violation(b.idx, "exclusive login left user %s in stored session %s" % (uid, key)))
                for key, f in b.cache.items():
                    if _unq(f["id"]) != nid and f["us"] != "-" and user_id(f["us"]) == uid:
                        out.append(Violation(b.idx, "exclusive login left user %s in cached session %s" % (uid, key)))
        elif k == "h" and b.tok[1] == "logout" and b.ret == "ok" and b.ss:
            if b.ss["us"] != "-":
                out.append(Violation(b.idx, "session still carries a user after LogOut"))
            rec = b.store.get(_unq(b.ss["id"]))
            pre = prev_ss(blocks, b)
            # "If no user is logged into this session, nothing happens": a LogOut() on a session that is user-less IN MEMORY
            # writes nothing. The stored record can then still carry a user only if an earlier save of this session failed
            # (and was reported: C11) - the retry corner of DESIGN 13.8, outside C08's histories.
            did_something = pre is None or pre["us"] != "-"
            if rec and rec != "undecodable" and rec["us"] != "-" and did_something:
                out.append(Violation(b.idx, "stored record still carries the user after LogOut"))
        elif k == "logoutuser" and b.ret == "ok":
            uid = _unq(b.tok[1])
            for key, f in b.store.items():
                if f != "undecodable" and f["us"] == uid:
                    out.append(Violation(b.idx, "LogOut(%s) left the user in stored session %s" % (uid, key)))
            for key, f in b.cache.items():
                if f["us"] != "-" and user_id(f["us"]) == uid:
                    out.append(Violation(b.idx, "LogOut(%s) left the user in cached session %s" % (uid, key)))
        elif k == "refresh" and b.ret == "ok":
            uid = _unq(b.tok[1])
            vers = [int(f["us"].split("@")[1]) for f in b.cache.values() if f["us"] != "-" and user_id(f["us"]) == uid]
            if vers and len(set(vers)) > 1:
                out.append(Violation(b.idx, "RefreshUser left different user objects in the cache: %s" % vers))
            pre_vers = [int(f["us"].split("@")[1]) for f in a.pre_cache.values() if f["us"] != "-" and user_id(f["us"]) == uid]
            if vers and pre_vers and max(vers) <= max(pre_vers) and set(a.pre_cache) == set(b.cache):
                out.append(Violation(b.idx, "RefreshUser did not replace the user object"))
    return out


# ---------------------------------------------------------------------------
# C09: write-through

MUTATORS = ("set", "del", "getdel", "login", "logout", "regen")


def coherent(obj, rec, codec):
    if rec is None or rec == "undecodable":
        return "no decodable stored record"
    if obj["rf"] != rec["rf"]:
        return "reference differs"
    ou = "-" if obj["us"] == "-" else user_id(obj["us"])
    if ou != rec["us"]:
        return "user differs (memory %s, store %s)" % (ou, rec["us"])
    if not same_da(norm_da(obj["da"], codec), rec["da"]):
        return "data differs (memory %s, store %s)" % (obj["da"], rec["da"])
    oc = cr(obj)
    if codec == "json":
        oc -= oc % SEC
    if oc != cr(rec):
        return "creation time differs"
    return None


def mon_C09(blocks):
    out = []
    faulty = False
    for b in blocks:
        a = b.ann
        k = b.tok[0]
        if b.faulted or b.frozen is not None:
            faulty = True
        if b.restart:
            faulty = False
            continue
        if b.ret == "panic" and k == "h" and b.tok[1] in MUTATORS and not b.faulted:
            out.append(Violation(b.idx, "%s panicked instead of returning (%s)" % (b.line, b.msg)))
            continue
        if b.ret == "panic" or b.frozen is not None:
            continue
        acked = (k == "req" and b.ret == "sess") or (k == "h" and b.tok[1] in MUTATORS and (b.ret == "ok" or (b.ret or "").startswith("val:")))
        if b.faulted or (faulty and not (k == "h" and b.tok[1] in ("set", "del"))):
            # in a history with store failures only calls that always save the whole session are judged: their success
            # means the record now equals the session, whatever failed before
            acked = False
        if acked and b.ss:
            sid_ = _unq(b.ss["id"])
            bg_deleted = set(i for _, i in b.bg)
            if sid_ not in bg_deleted:
                why = coherent(b.ss, b.store.get(sid_), a.codec)
                if why:
                    out.append(Violation(b.idx, "after %s returned, the stored record of the session does not contain the change: %s" % (b.line, why)))
                    continue
        if not faulty and k in ("req", "h", "logoutuser", "refresh", "purge", "wait") and b.ret != "nosession":
            for key, obj in b.cache.items():
                why = coherent(obj, b.store.get(key), a.codec)
                if why:
                    out.append(Violation(b.idx, "cached session %s and its stored record disagree: %s" % (key, why)))
                    break
    return out


# ---------------------------------------------------------------------------
# C10: crash safety of id changes (store-level part; the behavioural part is C01 on crash histories)

def dangling(store):
    d = set()
    for k, f in store.items():
        if f != "undecodable" and f["rf"] != "-" and _unq(f["rf"]) not in store:
            d.add(k)
    return d


def mon_C10(blocks):
    out = []
    for i, b in enumerate(blocks):
        a = b.ann
        if isinstance(b.frozen, int):
            new = dangling(b.store) - dangling(a.pre_store)
            if new:
                out.append(Violation(b.idx, "crash after %d store mutations of %s leaves replaced-id record(s) %s pointing nowhere" % (b.frozen, b.line, sorted(new))))
            for k, f in b.store.items():
                if f == "undecodable":
                    out.append(Violation(b.idx, "undecodable record %s at a crash point" % k))
    return out


def mon_C10_behaviour(blocks):
    """after a crash inside an id change the id the client presented still reaches the session with its data"""
    out = []
    pending = {}

    def visit(b, g, ctx):
        a = b.ann
        if isinstance(b.frozen, int) and a.req is not None:
            r = a.req
            v = r.inp
            sid = g.sid_of.get(v) if v and v != "-" else None
            # the obligation concerns an id that was still known when the interrupted call began (with a grace period of 0 the
            # regular clean-up removes a replaced id at once, response or no response)
            if sid is not None and g.alive.get(sid) and v in a.pre_store:
                pending[r.tok[1]] = (v, sid, dict(g.data[sid]), g.user[sid], b.idx)
        if b.tok[0] == "req" and b.tok[1] in pending and not b.faulted:
            a = b.ann
            v, sid, data, user, at = pending.pop(b.tok[1])
            if b.inp != v:
                return
            d, why = verdict(b)
            if d == "refuse" and why == "stale" and v in g.replaced and b.t - g.replaced[v][0] < a.cfg["sessionExpiry"] - gran(a.codec) - 1:
                # a replaced-id record is as old as its replacement, whatever access time the record claims
                d = "serve-ref"
            if d in ("serve", "serve-ref"):
                if b.ret != "sess" or not b.ss:
                    out.append(Violation(b.idx, "after the crash at op %d the presented id no longer reaches the session: %s" % (at, b.ret)))
                elif not data_matches(b.ss["da"], data):
                    out.append(Violation(b.idx, "after the crash at op %d the session lost acknowledged data: %s vs %s" % (at, b.ss["da"], data)))
            elif d == "unknown-id" and g.alive.get(sid):
                out.append(Violation(b.idx, "after the crash at op %d the id the client holds is unknown to the store" % at))
        # an id change that met a store failure and reported it, then a restart: the response WAS sent, so the client holds
        # whatever id that response left it with - and that id must still reach the session with everything acknowledged before
        if b.faulted and a.req is not None and b.tok[0] in ("req", "h") and (b.tok[0] == "req" or b.tok[1] in ("login", "regen")):
            r = a.req
            v = r.inp
            sid = g.sid_of.get(v) if v and v != "-" else None
            if sid is not None and g.alive.get(sid) and b.ret == "err":
                failed_change[r.tok[1]] = [sid, dict(g.data[sid]), b.idx, False]
        if b.restart:
            for ob in failed_change.values():
                ob[3] = True
        if b.tok[0] == "req" and b.tok[1] in failed_change and not b.faulted:
            sid, data, at, armed = failed_change.pop(b.tok[1])
            if armed and g.alive.get(sid):
                d, why = verdict(b)
                if d == "unknown-id":
                    out.append(Violation(b.idx, "after the failed id change at op %d and a restart the id the client holds (%s) is unknown to the store" % (at, b.inp)))
                elif d in ("serve", "serve-ref"):
                    if b.ret != "sess" or not b.ss:
                        out.append(Violation(b.idx, "after the failed id change at op %d and a restart the id the client holds no longer reaches the session: %s" % (at, b.ret)))
                    elif not data_matches(b.ss["da"], data):
                        out.append(Violation(b.idx, "after the failed id change at op %d and a restart the session lost acknowledged data: %s vs %s" % (at, b.ss["da"], data)))

    failed_change = {}
    fold(blocks, visit)
    return out


# ---------------------------------------------------------------------------
# C11: store failures

def mon_C11(blocks):
    """Under injected store failures: a call that reports success has really stored what it acknowledges
    (a failed flush of a session that stays cached loses nothing and may be ignored); any failed load, user
    lookup, delete or listing makes the call fail; a failed load changes nothing."""
    out = []
    last_failed = None
    limbo = False   # an earlier call reported a failure: what memory and store hold from then on was never acknowledged
    for b in blocks:
        a = b.ann
        k = b.tok[0]
        if b.restart:
            limbo = False
            last_failed = None
        if not b.faulted:
            # the application retries the call that failed: if the retry reports success, the change must be stored now
            if last_failed is not None and k == "h" and b.line == last_failed and b.ret == "ok" and b.ss and b.tok[1] in ("set", "del"):
                why = coherent(b.ss, b.store.get(_unq(b.ss["id"])), a.codec)
                if why:
                    out.append(Violation(b.idx, "the retry of %s after a failed save reported success but the store still lacks the change: %s" % (b.line, why)))
                else:
                    limbo = False
            if k in ("h", "req", "end"):
                last_failed = last_failed if k == "h" and b.line == last_failed else None
            continue
        if b.ret == "panic":
            out.append(Violation(b.idx, "%s panicked under a store failure" % b.line))
            continue
        failed = [e for e in b.evs if e[-1] == "fail"]
        success = b.ret in ("ok", "sess", "nil") or (b.ret or "").startswith("val:")
        hard = [e for e in failed if e[0] != "save"]
        if k == "purge":
            continue
        if hard and success:
            out.append(Violation(b.idx, "%s reported success although %s failed" % (b.line, " ".join(hard[0]))))
            continue
        if not success:
            limbo = True
            last_failed = b.line if k == "h" else None
        if k == "req" and b.ret == "nil" and not limbo and failed:
            # a store failure must surface as an error, not as a quiet "no session": (a) the presented id names a session the
            # request should have been given, (b) the request asked for a new session if need be (createIfNew), so that it
            # ends with a session or an error. (Failed flushes of other cached sessions on the way are ignored by design, but
            # then the request still gets its session.)
            d, why = verdict(b)
            if d in ("serve", "serve-ref"):
                out.append(Violation(b.idx, "%s got no session and no error although %s failed (the presented id is valid: %s)" %
                                     (b.line, " ".join(failed[0][:2]), why)))
                continue
            if b.tok[-1] == "1":
                out.append(Violation(b.idx, "%s (createIfNew) got neither a session nor an error although %s failed" %
                                     (b.line, " ".join(failed[0][:2]))))
                continue
        if success and not limbo and any(e[0] == "save" for e in failed):
            getdel = k == "h" and b.tok[1] == "getdel"
            if b.ss and not getdel and (k == "req" or (k == "h" and b.tok[1] in MUTATORS)):
                sid_ = _unq(b.ss["id"])
                why = coherent(b.ss, b.store.get(sid_), a.codec)
                if why:
                    out.append(Violation(b.idx, "%s reported success although a save failed and the store lacks the change: %s" % (b.line, why)))
                    continue
            if k == "h" and b.tok[1] in ("regen", "login") and b.ss:
                pre = prev_ss(blocks, b)
                if pre is not None and _unq(pre["id"]) not in set(i for _, i in b.bg):
                    old = b.store.get(_unq(pre["id"]))
                    if old is None or old == "undecodable" or old["rf"] != b.ss["id"]:
                        out.append(Violation(b.idx, "%s reported success although the save of the replaced id failed" % b.line))
                        continue
            if k in ("logoutuser",) or (k == "h" and b.tok[1] == "login" and b.tok[3] == "1"):
                uid = _unq(b.tok[1] if k == "logoutuser" else b.tok[2])
                own = _unq(b.ss["id"]) if b.ss else None
                for key, f in b.store.items():
                    if key != own and f != "undecodable" and f["us"] == uid and f["rf"] == "-":
                        out.append(Violation(b.idx, "%s reported success although the save logging %s out of %s failed" % (b.line, uid, key)))
                        break
        # a failed load is not "no such session"
        if k == "req" and any(e[0] in ("load", "user") for e in failed):
            if b.cks:
                out.append(Violation(b.idx, "cookie changed although the load failed"))
            for e in b.evs:
                if e[0] == "del" and e[-1] != "fail":
                    out.append(Violation(b.idx, "a record was deleted although the load failed"))
                if e[0] == "save" and e[-1] != "fail" and _unq(e[1]) not in a.pre_store and _unq(e[1]) not in a.pre_cache and not limbo:
                    # (a flush of a cached session whose own save failed earlier writes under an id the store does not know yet)
                    out.append(Violation(b.idx, "a session was created although the load failed"))
            if b.rng:
                out.append(Violation(b.idx, "an id was generated although the load failed"))
    return out


# ---------------------------------------------------------------------------
# C12: the cache

def mon_C12(blocks):
    out = []
    faulty = False
    for b in blocks:
        a = b.ann
        k = b.tok[0]
        if b.faulted or b.frozen is not None:
            faulty = True
        if b.restart:
            faulty = False
        if faulty or k not in ("req", "h", "logoutuser", "refresh", "purge") or b.ret in ("nosession", "panic"):
            continue
        N = a.cfg["maxCache"]
        pre, post = a.pre_cache, b.cache
        inserted = [x for x in post if x not in pre]
        # a cache write: an insert, or cache.Set of a session that is already cached (it stamps the access time and saves)
        updated = [x for x in post if x in pre and la(post[x]) == b.t and any(e[0] == "save" and _unq(e[1]) == x for e in b.evs)]
        cache_write = bool(inserted) or (bool(updated) and k in ("logoutuser", "refresh", "h") and (k != "h" or b.tok[1] in ("login", "regen")))
        if N == 0 and inserted:
            out.append(Violation(b.idx, "MaxSessionCacheSize is 0 but %d session(s) were cached" % len(inserted)))
        if N > 0 and cache_write and len(post) > N:
            out.append(Violation(b.idx, "%d sessions cached with MaxSessionCacheSize %d" % (len(post), N)))
        if len(post) > len(pre) and not inserted:
            out.append(Violation(b.idx, "cache grew without an insert"))
        if k == "purge":
            if post:
                out.append(Violation(b.idx, "PurgeSessions left %d sessions cached" % len(post)))
        deleted = set(_unq(e[1]) for e in b.evs if e[0] == "del") | set(i for _, i in b.bg)
        saved = {}
        for e in b.evs:
            if e[0] == "save" and e[-1] != "fail" and len(e) > 3:
                saved[_unq(e[1])] = dict(kv.split("=", 1) for kv in e[2:] if "=" in kv)
        left = [x for x in pre if x not in post and x not in deleted]
        wrote = bool(inserted) or any(e[0] == "save" for e in b.evs)
        for x in left:
            # flush first, with the access time the object had
            if x not in saved:
                out.append(Violation(b.idx, "session %s left the cache without being handed to the store" % x))
                continue
            rec = b.store.get(x)
            want = la(pre[x])
            if a.codec == "json":
                want -= want % SEC
            if rec is None or rec == "undecodable" or la(rec) < want:
                out.append(Violation(b.idx, "session %s left the cache but the store has an older access time (%s < %d)" % (x, rec and rec != "undecodable" and rec["la"], want)))
        # least recently used: a size victim is not younger than a survivor that was not touched by this call
        if N > 0 and left and k != "purge":
            ce = a.cfg["cacheExpiry"]
            for x in left:
                idle_x = b.t - la(pre[x])
                if idle_x > ce:
                    continue  # idle purge
                for y in post:
                    if y in pre and la(post[y]) == la(pre[y]) and la(pre[y]) < la(pre[x]):
                        out.append(Violation(b.idx, "session %s (last access %s) was evicted although %s (last access %s) is older" % (x, pre[x]["la"], y, pre[y]["la"])))
                        break
        # room is made only when it is needed: after a size eviction the cache is full
        if N > 0 and left and k != "purge" and not deleted and len(post) < N:
            ce = a.cfg["cacheExpiry"]
            for x in left:
                if b.t - la(pre[x]) <= ce:
                    out.append(Violation(b.idx, "session %s was evicted although only %d of %d places are taken" % (x, len(post), N)))
                    break
        # idle sessions are dropped at the next cache write
        if cache_write:
            ce = a.cfg["cacheExpiry"]
            for y in post:
                if b.t - la(post[y]) > ce and y in pre and la(post[y]) == la(pre[y]):
                    out.append(Violation(b.idx, "session %s unused for %d > SessionCacheExpiry %d survived a cache write" % (y, b.t - la(post[y]), ce)))
        # N < 0 never evicts for size
        if N < 0 and left and k != "purge":
            ce = a.cfg["cacheExpiry"]
            for x in left:
                if b.t - la(pre[x]) <= ce:
                    out.append(Violation(b.idx, "session %s evicted although the cache is unbounded" % x))
    return out


# ---------------------------------------------------------------------------
# C18: cookies

def mon_C18(blocks):
    out = []
    for b in blocks:
        a = b.ann
        k = b.tok[0]
        if k not in ("req", "h") or b.ret == "panic":
            continue
        ck = a.ck
        for c in b.cks:
            if c["name"] != ck["name"]:
                out.append(Violation(b.idx, "cookie named %r, SessionCookie is %r" % (c["name"], ck["name"])))
            if c["value"] == "deleted":
                if c["maxage"] != "-1" or c["exp"] == "-" or int(c["exp"]) * SEC > b.t:
                    out.append(Violation(b.idx, "deletion cookie is not expired"))
                continue
            want_ma = ck["maxage"] if ck["maxage"] > 0 else (0 if ck["maxage"] == 0 else -1)
            want_ss = ck["samesite"] if ck["samesite"] in (2, 3, 4) else 0
            want_exp = "-" if ck["expoff"] == 0 else str(b.t // SEC + ck["expoff"])
            got = (c["path"], c["dom"], c["sec"], c["http"], c["ss"], c["maxage"], c["exp"])
            want = (qopt(ck["path"]), qopt(ck["domain"]), str(ck["secure"]), str(ck["httponly"]), str(want_ss), str(want_ma), want_exp)
            if got != want:
                out.append(Violation(b.idx, "live cookie attributes %s differ from the template %s" % (got, want)))
        if k == "req" and not b.faulted and not a.guessed:
            v = b.inp
            if b.ret == "sess" and b.ss:
                rid = _unq(b.ss["id"])
                if b.cks and b.cks[-1]["value"] == "deleted":
                    out.append(Violation(b.idx, "a response that returns a session ends with the cookie expired"))
                if rid == v and live_cookies(b):
                    out.append(Violation(b.idx, "a cookie was set although the client's id is unchanged"))
                if rid != v and (not b.cks or b.cks[-1]["value"] != rid):
                    out.append(Violation(b.idx, "the client's id should become %s but the response ends with %s" % (rid, b.cks[-1]["value"] if b.cks else "no cookie")))
                for c in live_cookies(b):
                    if c["value"] != rid and c["value"] not in b.store:
                        out.append(Violation(b.idx, "live cookie carries %s which is not a live id" % c["value"]))
                    rec = b.store.get(c["value"])
                    if rec and rec != "undecodable" and rec["rf"] != "-" and not isinstance(b.frozen, int):
                        # the id of a session is its CURRENT id: a replaced id (a record that refers on) is on its way out
                        out.append(Violation(b.idx, "live cookie carries the replaced id %s (its record refers on to %s), not the session's current id" % (c["value"], rec["rf"])))
            dels = [c for c in b.cks if c["value"] == "deleted"]
            if dels:
                d, why = verdict(b)
                vlen = len(v.encode("utf-8", errors="surrogateescape")) if v and v != "-" else 0
                if vlen != 24:
                    out.append(Violation(b.idx, "deletion cookie although no 24-byte id was presented"))
                elif d in ("serve",) and v in b.store:
                    out.append(Violation(b.idx, "deletion cookie although the presented id is alive"))
        if k == "h" and b.tok[1] in ("regen", "login") and b.ret == "ok" and b.ss:
            rid = _unq(b.ss["id"])
            if not b.cks or b.cks[-1]["value"] != rid:
                out.append(Violation(b.idx, "%s did not set the cookie to the new id" % b.tok[1]))
        if k == "h" and b.tok[1] not in ("regen", "login", "destroy") and b.cks:
            out.append(Violation(b.idx, "%s set a cookie" % b.tok[1]))
    return out


def qopt(s):
    from .gen import qs
    return "-" if s == "" else qs(s)


MONITORS = {"C01": [mon_C01], "C02": [mon_C02], "C03": [mon_C03], "C04": [mon_C04], "C05": [mon_C05], "C06": [mon_C06],
            "C07": [mon_C07], "C08": [mon_C08], "C09": [mon_C09], "C10": [mon_C10, mon_C10_behaviour], "C11": [mon_C11],
            "C12": [mon_C12], "C18": [mon_C18]}


def run_monitors(blocks, props=None):
    annotate(blocks)
    res = {}
    for p, fs in MONITORS.items():
        if props and p not in props:
            continue
        v = []
        for f in fs:
            v.extend(f(blocks))
        if v:
            res[p] = v
    return res
