"""Shared by the C16 (gob) and C17 (JSON) checks: case generation, expected decoding, harness I/O."""
import math
import os
import struct
import subprocess

from . import env
from .gen import qs

# typed values: ('s', str) ('i', int) ('I', int) ('F', float) ('b', bool) ('n',) ('L', [v]) ('M', {k: v})


def render(v):
    t = v[0]
    if t == "s":
        return "s" + v[1].encode("utf-8", errors="surrogateescape").hex()
    if t in ("i", "I"):
        return t + str(v[1])
    if t == "F":
        return "F%x" % struct.unpack(">Q", struct.pack(">d", v[1]))[0]
    if t == "b":
        return "b1" if v[1] else "b0"
    if t == "n":
        return "n"
    if t == "L":
        return "L(" + ";".join(render(x) for x in v[1]) + ")"
    if t == "M":
        enc = lambda s: s.encode("utf-8", errors="surrogateescape")
        return "M(" + ";".join("~" + enc(k).hex() + "=" + render(v[1][k]) for k in sorted(v[1], key=enc)) + ")"
    raise ValueError(v)


def conv_json(v):
    t = v[0]
    if t in ("i", "I"):
        return ("F", float(v[1]))
    if t == "L":
        return ("L", [conv_json(x) for x in v[1]])
    if t == "M":
        return ("M", {k: conv_json(x) for k, x in v[1].items()})
    return v


def rand_string(r, ascii_only=False, valid_utf8=True):
    n = r.choice([0, 1, 1, 3, 8, 20, 200])
    if ascii_only:
        return "".join(chr(r.randint(32, 126)) for _ in range(n))
    alph = ["a", "Z", "0", " ", "\"", "\\", "<", ">", "&", "\n", "\t", "\x00", "\x7f", "é", "ü", "€", "😀", " ", "/", "=", ";", ","]
    s = "".join(r.choice(alph) for _ in range(n))
    if not valid_utf8 and r.random() < 0.3:
        s += bytes([r.choice([0xff, 0x80, 0xc3, 0xed])]).decode("utf-8", errors="surrogateescape")
    return s


def rand_value(r, depth, codec):
    x = r.random()
    if depth > 0 and x < 0.15:
        return ("L", [rand_value(r, depth - 1, codec) for _ in range(r.choice([0, 1, 2, 4]))])
    if depth > 0 and x < 0.3:
        return ("M", {rand_string(r, valid_utf8=True)[:10] or "k": rand_value(r, depth - 1, codec) for _ in range(r.choice([0, 1, 3]))})
    if x < 0.5:
        return ("s", rand_string(r, valid_utf8=(codec == "json")))
    if x < 0.65:
        return ("i", r.choice([0, 1, -1, 42, 2 ** 31, -2 ** 31, 2 ** 53, 2 ** 53 + 1, 2 ** 63 - 1, -2 ** 63, r.randint(-10 ** 6, 10 ** 6)]))
    if x < 0.72:
        return ("I", r.choice([0, -1, 2 ** 62, r.randint(-10 ** 12, 10 ** 12)]))
    if x < 0.85:
        return ("F", r.choice([0.0, -0.0, 1.5, 1e300, 5e-324, 1 / 3, -2.75e-7, float(r.randint(-1000, 1000)), r.random() * 1e10]))
    if x < 0.95:
        return ("b", r.random() < 0.5)
    if codec == "json":
        return ("n",)
    return ("b", True)


def rand_time(r, codec):
    x = r.random()
    if x < 0.05:
        return None  # zero time
    if codec == "json":
        sec = r.choice([0, 1, 1257894000, 1500000000, 4102444800, 253402300799 - 86400, -62135596800 + 86400 * 2, r.randint(-2 ** 31, 2 ** 33)])
    else:
        sec = r.choice([0, 1, 1257894000, 1500000000, 253402300799, -62135596800, r.randint(-2 ** 35, 2 ** 37), r.randint(-2 ** 31, 2 ** 33)])
    ns = r.choice([0, 0, 1, 999999999, 500000000, r.randint(0, 999999999)])
    off = r.choice([0, 0, 0, 3600, -3600, 19800, 45900, -43200, 50400, 900 * r.randint(-48, 56)])
    return (sec, ns, off)


def render_time(t):
    return "zero" if t is None else "%d.%d@%d" % t


def gen_case(r, codec):
    c = {}
    x = r.random()
    c["us"] = None if x < 0.4 else (("s", rand_string(r, valid_utf8=True) or "u") if x < 0.75 else
                                    ("i", r.choice([0, 7, -3, 2 ** 40, 123456789])) if x < 0.88 else
                                    ("I", r.choice([0, 7, -3, 2 ** 40, 2 ** 62 + 1, 4711])))   # a sized integer key (int64) stays an int64
    # the application's user type may be a plain value instead of a pointer
    c["usv"] = c["us"] is not None and r.random() < 0.25
    c["cr"] = rand_time(r, codec)
    c["la"] = rand_time(r, codec)
    c["ip"] = r.choice(["", "10.0.0.1:80", "[2001:db8::1]:443", rand_string(r, valid_utf8=(codec == "json"))])
    c["ua"] = r.choice([0, 1, 2 ** 64 - 1, 2 ** 63, 14695981039346656037, r.getrandbits(64)])
    c["rf"] = r.choice(["", "", "PG7zcv6U+CoAAAAAAAAAAg==", rand_string(r, valid_utf8=(codec == "json"))])
    y = r.random()
    if y < 0.12:
        c["da"] = None
    elif y < 0.25:
        c["da"] = ("M", {})
    else:
        n = r.choice([1, 2, 3, 8, 60 if r.random() < 0.1 else 5])
        c["da"] = ("M", {(rand_string(r, valid_utf8=True)[:12] or "k%d" % i): rand_value(r, r.choice([0, 0, 1, 2, 3]), codec) for i in range(n)})
    return c


def package_shapes(codec):
    """the three shapes the package itself creates: fresh, logged-in, replaced-id record"""
    t = (1257894000, 123456789, 0)
    return [
        dict(us=None, cr=t, la=t, ip="10.0.0.1:4000", ua=2326090104516867415, rf="", da=("M", {})),
        dict(us=("s", "alice"), cr=t, la=(1257894100, 5, 0), ip="10.0.0.1:4000", ua=1, rf="", da=("M", {"k": ("s", "v"), "n": ("i", 3)})),
        dict(us=None, cr=t, la=t, ip="10.0.0.1:4000", ua=2326090104516867415, rf="PG7zcv6U+CoAAAAAAAAAAg==", da=None),
    ]


def spec_line(codec, c):
    return "rt %s us=%s cr=%s la=%s ip=%s ua=%d rf=%s da=%s" % (
        codec, "-" if c["us"] is None else ("V" if c.get("usv") else "") + render(c["us"]), render_time(c["cr"]), render_time(c["la"]), qs(c["ip"]), c["ua"],
        qs(c["rf"]) if c["rf"] else "-", "nil" if c["da"] is None else render(c["da"]))


ZERO = (-62135596800, 0)


def expected(codec, c):
    """what the property text demands of decode(encode(c)); times as instants"""
    e = {}
    if codec == "gob":
        e["us"] = "-" if c["us"] is None else render(c["us"])
        e["da"] = "M()" if c["da"] is None else render(c["da"])       # a nil data map comes back empty (equal as a map)
        e["da_alt"] = "nil" if c["da"] is None else e["da"]
        e["cr"] = ZERO if c["cr"] is None else (c["cr"][0], c["cr"][1])
        e["la"] = ZERO if c["la"] is None else (c["la"][0], c["la"][1])
    else:
        e["us"] = "-" if c["us"] is None else render(conv_json(c["us"]))
        e["da"] = "nil" if c["da"] is None else render(conv_json(c["da"]))
        e["da_alt"] = "M()" if c["da"] is None else e["da"]
        e["cr"] = ZERO if c["cr"] is None else (c["cr"][0], 0)
        e["la"] = ZERO if c["la"] is None else (c["la"][0], 0)
    e["lu"] = e["us"]
    e["ip"] = qs(c["ip"])
    e["ua"] = str(c["ua"])
    e["rf"] = qs(c["rf"]) if c["rf"] else "-"
    return e


def parse_time(s):
    if s == "zero":
        return ZERO
    a, off = s.split("@")
    sec, ns = a.split(".")
    return (int(sec), int(ns))


def judge(codec, c, out_line):
    """None if the round trip satisfies the property, else a description"""
    t = out_line.split(" ")
    if len(t) < 3:
        return "no result"
    if t[2] == "panic":
        return "the codec panicked"
    if t[2] == "alias":
        return "the bytes GobEncode returned for one session changed when another session was encoded"
    if t[2] in ("encerr", "decerr"):
        return "round trip failed: " + t[2]
    f = dict(kv.split("=", 1) for kv in t[3:] if "=" in kv)
    e = expected(codec, c)
    for k in ("us", "ip", "ua", "rf"):
        if f.get(k) != e[k]:
            return "%s: decoded %s, encoded %s" % (k, f.get(k), e[k])
    if c["us"] is not None and f.get("lu") != e["lu"]:
        return "LoadUser was called with %s, the user id is %s" % (f.get("lu"), e["lu"])
    if f.get("da") not in (e["da"], e["da_alt"]):
        return "data: decoded %s, expected %s" % (f.get("da", "")[:200], e["da"][:200])
    for k in ("cr", "la"):
        got = parse_time(f.get(k, "zero"))
        if got != e[k]:
            if codec == "json" and got is not None and e[k] is not None and got[0] == e[k][0]:
                continue
            return "%s: decoded instant %s, encoded %s" % (k, got, e[k])
    return None


def run_harness(hbin, lines, timeout=1800):
    with env.scratch("verif-codec-") as d:
        sp, op = os.path.join(d, "s.txt"), os.path.join(d, "o.txt")
        with open(sp, "w") as f:
            f.write("\n".join(lines) + "\n")
        p = subprocess.run([hbin, "-mode", "codec", "-script", sp, "-out", op], stdout=subprocess.DEVNULL, stderr=subprocess.PIPE, timeout=timeout)
        if p.returncode != 0:
            raise RuntimeError("harness exit %d: %s" % (p.returncode, p.stderr.decode(errors="replace")[-300:]))
        with open(op) as f:
            return [l for l in f.read().split("\n") if l]
