from .check_codec import run_codec_check


def main(tier, seed, replay=None):
    return run_codec_check("C17", "json", tier, seed, replay)
