"""The check pipeline shared by the life-cycle properties (C01–C12, C18)."""
import collections
import glob
import hashlib
import json
import os
import random
import sys
import time

from . import env, families, leanaudit, monitors, project, run
from .obligations import OBLIGATIONS, TRUSTED_BASE

SIZES = {
    # property: (directed quick, general quick, directed thorough, general thorough)
    "default": (1000, 300, 20000, 6000),
    "C01": (1200, 400, 30000, 10000),
    "C10": (160, 100, 2500, 1000),
    "C11": (60, 80, 1200, 600),
}


class Report:
    def __init__(self, prop, tier, seed):
        self.prop, self.tier, self.seed = prop, tier, seed
        self.t0 = time.time()
        self.violations = []      # (kind, replay_path, message, suffix)
        self.known = []
        self.cov = collections.OrderedDict()
        self.assumptions = []
        self.level = "proof"
        self.lines = []

    def say(self, s):
        print(s)
        sys.stdout.flush()

    def violation(self, replay, message, no_input=False):
        self.violations.append((replay, message, no_input))

    def finish(self):
        wall = time.time() - self.t0
        ob = self.cov.get("obligations", 0)
        di = self.cov.get("discharged", 0)
        level = self.level
        if level == "proof" and ob == 0:
            # no theorem is registered for this property yet: what this run gives is exploration, and it says so
            level = "exploration"
            for k in ("obligations", "discharged"):
                self.cov.pop(k, None)
        ev = {
            "property_id": self.prop, "tier": self.tier, "seed": self.seed, "level": level,
            "coverage": self.cov, "assumptions": self.assumptions, "wall_s": round(wall, 2), "violations": len(self.violations),
        }
        os.makedirs(env.EVIDENCE, exist_ok=True)
        path = os.path.join(env.EVIDENCE, self.prop + ".json")
        with open(path + ".tmp", "w") as f:
            json.dump(ev, f, indent=1, sort_keys=False)
            f.write("\n")
        os.replace(path + ".tmp", path)
        for k in self.known:
            self.say("KNOWN-FINDING: property=%s %s" % (self.prop, k))
        for replay, message, no_input in self.violations:
            self.say("VIOLATION property=%s replay=%s%s" % (self.prop, replay, " no-failing-input-found" if no_input else ""))
            self.say("  " + message)
        self.say("%s %s seed=%d wall=%.1fs obligations=%s/%s histories=%s violations=%d" % (
            self.prop, self.tier, self.seed, wall, di, ob, self.cov.get("evaluations"), len(self.violations)))
        return 1 if self.violations else 0


def replay_path(prop, n, ext="script"):
    os.makedirs(env.REPLAYS, exist_ok=True)
    return os.path.join(env.REPLAYS, "%s-%d.%s" % (prop, n, ext))


# directed concurrent families judged by a life-cycle property (vlib/concrace.py)
CONC_FAMILIES = {"C05": "cleanup-race", "C09": "load-race", "C12": "load-race", "C01": "load-race"}


def write_replay(prop, n, header_lines, body, ext="script"):
    p = replay_path(prop, n, ext)
    with open(p, "w") as f:
        for l in header_lines:
            f.write("// " + l + "\n")
        f.write(body)
    return p


def known_findings():
    try:
        with open(os.path.join(env.VERIF, "known_findings.json")) as f:
            return json.load(f)
    except (OSError, ValueError):
        return {"open": [], "fixed": []}


def match_known(prop, message):
    import re
    for e in known_findings().get("open", []):
        if isinstance(e, dict) and e.get("property") == prop and re.search(e.get("match", "$^"), message):
            return e
    return None


# ---------------------------------------------------------------------------
# Lean part

def lean_part(rep, prop):
    ok, out, dt = leanaudit.build()
    rep.cov["lean_build_s"] = round(dt, 1)
    names = OBLIGATIONS.get(prop, [])
    rep.cov["obligations"] = len(names)
    rep.cov["checker_cmd"] = "cd /verif/lean && lake build && lake env lean <#print axioms of every listed theorem> (thorough: lake env leanchecker)"
    rep.cov["trusted_base"] = list(TRUSTED_BASE)
    if not ok:
        tail = "\n".join(out.strip().split("\n")[-40:])
        p = write_replay(prop, 900, ["lake build failed: the Lean development no longer checks"], tail + "\n", ext="txt")
        rep.cov["discharged"] = 0
        rep.violation(p, "lake build failed; no theorem of this property is established", no_input=True)
        return False
    hyg = leanaudit.hygiene()
    rep.cov["hygiene_hits"] = len(hyg)
    res = leanaudit.audit(names) if names else {}
    bad = [(n, r) for n, r in res.items() if not r["ok"]]
    rep.cov["discharged"] = len(names) - len(bad)
    rep.cov["theorems"] = [{"name": n, "axioms": res[n]["axioms"]} for n in names]
    if rep.tier == "thorough":
        ok2, out2 = leanaudit.leanchecker()
        rep.cov["leanchecker"] = "ok (%d modules re-checked)" % len(leanaudit.proof_modules()) if ok2 else "FAILED"
        if not ok2:
            p = write_replay(prop, 908, ["leanchecker rejects the compiled proofs"], out2 + "\n", ext="txt")
            rep.violation(p, "leanchecker rejects the compiled library", no_input=True)
    if hyg:
        p = write_replay(prop, 901, ["forbidden constructs in the Lean sources"], "\n".join("%s: %s" % h for h in hyg) + "\n", ext="txt")
        rep.violation(p, "sorry/admit/axiom/native_decide found in the Lean sources", no_input=True)
    if bad:
        p = write_replay(prop, 902, ["theorems that are missing or depend on unexpected axioms"],
                         "\n".join("%s: %s %s" % (n, r["axioms"], r["error"] or "") for n, r in bad) + "\n", ext="txt")
        rep.violation(p, "undischarged proof obligations: " + ", ".join(n for n, _ in bad), no_input=True)
    return True


# ---------------------------------------------------------------------------
# Coverage statistics from transcripts

def stats(results):
    ops = collections.Counter()
    outcomes = collections.Counter()
    cfgs = set()
    nontrivial = set()
    for r in results:
        if not r.blocks:
            continue
        seen_existing = False
        cfg = []
        for b in r.blocks:
            ops[b.kind] += 1
            if b.tok[0] in ("cfg", "codec"):
                cfg.append(b.line)
            if b.tok[0] == "req":
                if b.ret == "sess" and b.ss and b.inp and b.inp != "-" and not b.cks:
                    outcomes["existing"] += 1
                    seen_existing = True
                elif b.ret == "sess" and b.cks and b.cks[0]["value"] == "deleted":
                    outcomes["refused+new"] += 1
                    seen_existing = True
                elif b.ret == "sess" and b.inp and b.inp != "-" and b.rng == 16 and any(e[0] == "save" and "rf=-" not in e for e in b.evs):
                    outcomes["rotated"] += 1
                    seen_existing = True
                elif b.ret == "sess" and b.cks and b.rng == 0:
                    outcomes["redirected"] += 1
                    seen_existing = True
                elif b.ret == "sess":
                    outcomes["created"] += 1
                elif b.ret == "nil":
                    outcomes["nil"] += 1
                else:
                    outcomes[b.ret or "?"] += 1
            if b.bg:
                outcomes["cleanup-deletes"] += len(b.bg)
            if b.restart:
                outcomes["restarts"] += 1
            if b.faulted:
                outcomes["faulted-calls"] += 1
        cfgs.add(tuple(cfg))
        if seen_existing:
            nontrivial.add(hashlib.sha1(r.script.encode()).hexdigest())
    return ops, outcomes, len(cfgs), len(nontrivial)


# ---------------------------------------------------------------------------
# Shrinking

def units_of(script):
    lines = script.rstrip("\n").split("\n")
    head, body = [], []
    i = 0
    while i < len(lines) and (lines[i].startswith(("codec", "cfg", "cookiecfg", "tz ", "//"))):
        head.append(lines[i])
        i += 1
    units = []
    while i < len(lines):
        if lines[i].startswith("req "):
            j = i
            while j < len(lines) and lines[j] != "end":
                j += 1
            units.append(lines[i:j + 1])
            i = j + 1
        elif lines[i].startswith(("fault", "crashinside")) and i + 1 < len(lines):
            # keep the directive with the line it applies to
            if lines[i + 1].startswith("req "):
                j = i + 1
                while j < len(lines) and lines[j] != "end":
                    j += 1
                units.append(lines[i:j + 1])
                i = j + 1
            else:
                units.append(lines[i:i + 2])
                i += 2
        else:
            units.append([lines[i]])
            i += 1
    return head, units


def shrink(hbin, script, still_fails, budget=40):
    head, units = units_of(script)
    runs = 0
    changed = True
    while changed and runs < budget:
        changed = False
        i = len(units) - 1
        while i >= 0 and runs < budget:
            cand = units[:i] + units[i + 1:]
            text = "\n".join(head + [l for u in cand for l in u]) + "\n"
            runs += 1
            if still_fails(text):
                units = cand
                changed = True
            i -= 1
        # try dropping handler lines inside requests
        for ui, u in enumerate(units):
            if len(u) > 2 and u[0].startswith("req "):
                for li in range(len(u) - 2, 0, -1):
                    if runs >= budget:
                        break
                    cu = u[:li] + u[li + 1:]
                    cand = units[:ui] + [cu] + units[ui + 1:]
                    text = "\n".join(head + [l for x in cand for l in x]) + "\n"
                    runs += 1
                    if still_fails(text):
                        units = cand
                        u = cu
                        changed = True
    return "\n".join(head + [l for u in units for l in u]) + "\n"


# ---------------------------------------------------------------------------
# The pipeline

def corpus_scripts(prop):
    out = []
    for p in sorted(glob.glob(os.path.join(env.VERIF, "corpus", "findings", "*.script"))) + \
            sorted(glob.glob(os.path.join(env.VERIF, "corpus", prop, "*.script"))):
        with open(p) as f:
            out.append(("corpus:" + os.path.basename(p), f.read()))
    return out


def evaluate(prop, results, rep, hbin, directed_names, counter, shrink_budget):
    """monitors on every history; divergences on the directed ones"""
    nviol = 0
    mon_fail = []
    div_fail = []
    infra = 0
    for r in results:
        if r.status == "infra":
            infra += 1
            continue
        if not r.blocks:
            continue
        try:
            v = monitors.run_monitors(r.blocks, props=(prop,))
        except Exception as e:  # a monitor that crashes on a transcript must not pass silently
            v = {prop: [monitors.Violation(-1, "monitor crashed: %r" % (e,))]}
        if prop in v:
            mon_fail.append((r, v[prop]))
        elif r.mblocks:
            monitors.annotate(r.mblocks)
            d = project.divergence(prop, r.blocks, r.mblocks)
            if d:
                r.pdiv = d
                div_fail.append(r)
    rep.cov["infrastructure_errors"] = infra
    hangs = [r for r in results if r.status == "infra" and (r.error or "").startswith("hang")]
    if len(hangs) >= 3:
        # the real package does not return on these histories (the virtual clock alone hangs far more rarely)
        hangs.sort(key=lambda r: len(r.script))
        counter[0] += 1
        p = write_replay(prop, counter[0], ["the real package did not return within the real-time limit on this history (%d histories hang)" % len(hangs),
                                            "an API call that never returns violates every property that promises an answer"], hangs[0].script)
        rep.violation(p, "the package hangs on %d histories (e.g. %s)" % (len(hangs), hangs[0].name))
    rep.cov["monitor_failures"] = len(mon_fail)
    rep.cov["correspondence_divergences_on_projection"] = len(div_fail)
    rep.cov["correspondence_divergences_all"] = sum(1 for r in results if r.div)

    # report at most 3 monitor failures (shrunk), shortest first
    mon_fail.sort(key=lambda x: len(x[0].script))
    seen_msgs = set()
    for r, vs in mon_fail:
        msg = vs[0].what
        key = msg.split(":")[0][:60]
        if key in seen_msgs or len(seen_msgs) >= 3:
            continue
        seen_msgs.add(key)

        def still(text, _prop=prop):
            rr = run.run_batch(hbin, [("shrink", text)], with_model=False, workers=1)[0]
            if not rr.blocks:
                return False
            try:
                vv = monitors.run_monitors(rr.blocks, props=(_prop,))
            except Exception:
                return False
            return _prop in vv

        script = shrink(hbin, r.script, still, budget=shrink_budget) if shrink_budget else r.script
        rr = run.run_batch(hbin, [("final", script)], with_model=False, workers=1)[0]
        try:
            vv = monitors.run_monitors(rr.blocks, props=(prop,)).get(prop, vs)
        except Exception:
            vv = vs
        k = match_known(prop, vv[0].what)
        if k:
            rep.known.append(k.get("what", vv[0].what))
            continue
        counter[0] += 1
        p = write_replay(prop, counter[0], ["property %s violated on the real package" % prop, "history: %s" % r.name] +
                         ["op %d: %s" % (x.idx, x.what) for x in vv[:5]], script)
        rep.violation(p, "%s (history %s)" % (vv[0], r.name))
    if not mon_fail and div_fail:
        # the correspondence broke on this property's directed family and no failing input was found
        div_fail.sort(key=lambda r: len(r.script))
        r = div_fail[0]
        counter[0] += 1
        d = r.pdiv
        hdr = ["correspondence between the Lean model and the implementation no longer checks on the projection of %s" % prop,
               "history %s, op %d: %s" % (r.name, d["idx"], d["op"]), "channels: %s" % ",".join(d["channels"])] + \
              ["impl : " + l for l in d["impl"][:5]] + ["model: " + l for l in d["model"][:5]] + \
              ["%d of %d histories diverge on this projection; the property's monitor found no failing history among them" % (len(div_fail), len(results))]
        p = write_replay(prop, counter[0], hdr, r.script)
        rep.violation(p, "model/implementation divergence at op %d (%s) on channels %s" % (d["idx"], d["op"], ",".join(d["channels"])), no_input=True)


def sizes(prop, tier):
    a = SIZES.get(prop, SIZES["default"])
    return (a[0], a[1]) if tier == "quick" else (a[2], a[3])


def check_lifecycle(prop, tier, seed, replay=None):
    rep = Report(prop, tier, seed)
    counter = [0]
    try:
        hbin = env.build_harness("ft")
    except env.BuildError as e:
        p = write_replay(prop, 903, [e.what], e.output, ext="txt")
        rep.cov.update({"obligations": len(OBLIGATIONS.get(prop, [])), "discharged": 0, "checker_cmd": "go build (failed)", "trusted_base": list(TRUSTED_BASE),
                        "evaluations": 0, "distinct_nontrivial": 0, "rule": "none: the harness does not build", "samples": [e.output[-300:]]})
        rep.violation(p, "the verification harness does not build against the current tree, no correspondence can be established", no_input=True)
        return rep.finish()
    lean_part(rep, prop)
    from . import facts
    fact_msgs = facts.facts_for(rep, prop)
    if replay and replay.endswith(".concscript"):
        # a scenario of one of the concurrent families (real goroutines): run it again on the current tree
        from . import concrace
        try:
            concrace.replay(rep, prop, replay)
        except env.BuildError:
            pass
        rep.cov.update({"evaluations": rep.cov.get("replay_runs", 0), "distinct_nontrivial": 1, "rule": "replay of a concurrent scenario", "samples": [],
                        "traces_validated_against_impl": 0})
        facts.report_fact_failures(rep, prop, fact_msgs)
        return rep.finish()
    if replay:
        with open(replay) as f:
            scripts = [("replay", f.read())]
        directed = set(["replay"])
        general = []
    else:
        nd, ng = sizes(prop, tier)
        corpus = corpus_scripts(prop)
        if prop == "C10":
            base = families.with_aligned(families.fam_C10_base(seed, nd), seed, 0.25)
            base_res = run.run_batch(hbin, base, with_model=False)
            scripts = list(corpus)
            for (name, text), r in zip(base, base_res):
                if r.blocks:
                    scripts.extend(families.crash_variants(name, text, r.blocks))
                    scripts.extend(families.fault_crash_variants(name, text, r.blocks))
            scripts += base
        elif prop == "C11":
            base = families.with_aligned(families.fam_C09(seed, nd) + families.fam_C05(seed + 7, max(5, nd // 3)) +
                                         families.fam_C08(seed + 11, max(5, nd // 3)) +
                                         # requests that find an expired or anomalous session (the delete of an invalidated session can fail)
                                         families.fam_C03(seed + 13, max(4, nd // 4)) + families.fam_C06(seed + 17, max(4, nd // 4)),
                                         seed, 0.25)
            base_res = run.run_batch(hbin, base, with_model=False)
            scripts = list(corpus)
            rnd = random.Random(seed)
            for (name, text), r in zip(base, base_res):
                if r.blocks:
                    scripts.extend(families.fault_variants(name, text, r.blocks))
                    if tier == "thorough":
                        scripts.extend(families.fault_variants(name, text, r.blocks, pairs=True, rnd=rnd, limit=40))
                    else:
                        scripts.extend(families.fault_variants(name, text, r.blocks, pairs=True, rnd=rnd, limit=3))
        else:
            scripts = corpus + families.with_aligned(families.FAMILIES[prop](seed, nd), seed)
        directed = set(n for n, _ in scripts)
        general = families.fam_general(seed, ng)
        scripts = scripts + general
    results = run.run_batch(hbin, scripts)
    ops, outcomes, ncfg, nontriv = stats(results)
    rep.cov["evaluations"] = len(results)
    rep.cov["distinct_nontrivial"] = nontriv
    rep.cov["rule"] = ("histories = corpus of past findings + directed family of %s + general histories, all seeded from VERIF_SEED; "
                       "each is executed on the real package (virtual clock, serialising store) and on the compiled Lean model and the "
                       "two transcripts are compared line by line; the property's monitor is evaluated on the implementation's transcript. "
                       "non-trivial = distinct script in which at least one request was answered from an existing session "
                       "(served, rotated, redirected or refused)" % prop)
    rep.cov["traces_validated_against_impl"] = sum(1 for r in results if r.blocks and r.mblocks and not r.div)
    rep.cov["operations_by_kind"] = dict(ops.most_common())
    rep.cov["request_outcomes"] = dict(outcomes.most_common())
    rep.cov["distinct_configurations"] = ncfg
    rep.cov["samples"] = [r.script.split("\n") for r in results[:1]] + [r.script.split("\n") for r in results[-1:]] + \
        [{"theorem": t} for t in OBLIGATIONS.get(prop, [])[:4]]
    rep.assumptions = [
        "request granularity: each API call runs to completion before the next starts (atomicity of same-id requests is C13 plus the lock bracket in Start)",
        "ids are unguessable: a client never presents an id the server has not minted yet",
        "the persistence layer is the harness's honest key/value store using the package's own codecs",
        "virtual clock of the Go runtime (faketime); about a third of the histories put every request on an exact multiple of the time "
        "unit, so that idle times and ages equal to a configured duration occur",
    ]
    evaluate(prop, results, rep, hbin, directed, counter, shrink_budget=(30 if tier == "quick" else 120))
    if prop in ("C07", "C02") and not replay:
        # an ended session under concurrency (C07); for C02 the same family reads "the ID of a destroyed session grants nothing"
        from . import conc07
        try:
            conc07.destroy_race(rep, tier, seed, counter, prop=prop)
        except env.BuildError:
            pass
    if prop in CONC_FAMILIES and not replay:
        from . import concrace
        try:
            concrace.run(rep, prop, CONC_FAMILIES[prop], tier, seed, counter)
        except env.BuildError:
            pass
    if prop == "C04" and not replay:
        from . import mxlib
        try:
            mxlib.concurrent_rotation(rep, tier, seed, counter)
        except env.BuildError:
            pass
    facts.report_fact_failures(rep, prop, fact_msgs)
    return rep.finish()
