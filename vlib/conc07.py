"""C07 under concurrency: an ended session does not come back when other requests present its IDs while it is being ended.

`destroy_race(rep, tier, seed, counter)` runs the directed family `destroy-race` of harness/conc.go (real goroutines, no
virtual clock, race build): per iteration a session with data, sometimes a user and up to two replaced IDs in their grace
period is ended by one goroutine (handler Destroy; Start with a changed User-Agent; Start after SessionExpiry) while
several goroutines present its current and replaced IDs to Start and, in half of the iterations, one goroutine calls
PurgeSessions twice. The store is slow (`storedelay`: LoadSession, SaveSession and DeleteSession wait a random few
hundred microseconds before they touch the records, LoadSession again before it returns) so that windows between the cache
and the store operation of one package call become wide enough to be hit. After the ending call and all concurrent
requests have returned, the harness checks sequentially that no ID that ever belonged to the session yields a session,
that the cache holds no full object and the store no full record of it; it logs `resurrect ...` otherwise.
"""
import concurrent.futures
import random

from . import env
from .check import write_replay
from .check_c15 import HOUR, run_scenario


def scripts(tier, seed):
    rnd = random.Random(seed * 104729 + 7)
    quick = tier == "quick"
    out = []
    for i in range(6 if quick else 60):
        delay = [(1000, 300), (700, 1000), (1000, 100), (1000, 300)][i % 4]
        out.append(("destroy-race:%d" % i,
                    "directed destroy-race\niters %d\ninflight %d\nhops %d\nseed %d\ncache %d\ncodec %s\nidexpiry %d\ngrace %d\nhist 0\n"
                    "storedelay %d %d\ndeadline %d\n" % (
                        60 if quick else 200, rnd.choice([2, 4, 6]), rnd.choice([4, 6, 8]), rnd.randrange(1, 1 << 30),
                        [64, 64, 2, 64, 1, 64][i % 6], ["gob", "json"][i % 2], HOUR, HOUR, delay[0], delay[1], 25_000 if quick else 60_000)))
    return out


def destroy_race(rep, tier, seed, counter, prop="C07"):
    """returns the number of violations reported"""
    hbin = env.build_harness("race")  # BuildError is the caller's business
    scen = scripts(tier, seed)
    results = []
    with env.scratch("verif-c07c-") as d:
        with concurrent.futures.ThreadPoolExecutor(max_workers=max(2, env.NCPU // 4)) as pool:
            futs = [pool.submit(run_scenario, hbin, n, s, d) for n, s in scen]
            results = [f.result() for f in futs]
    rep.cov["destroy_race_scenarios"] = len(results)
    rep.cov["destroy_race_iterations"] = sum(r.stats.get("destroy_iterations", 0) for r in results)
    rep.cov["destroy_race_by_ending"] = {k: sum(r.stats.get("destroy_" + k, 0) for r in results) for k in ("destroy", "agent", "expiry")}
    rep.cov["destroy_race_concurrent_requests"] = sum(r.stats.get("hammer_got_session", 0) + r.stats.get("hammer_got_nothing", 0) for r in results)
    rep.cov["destroy_race_concurrent_requests_served"] = sum(r.stats.get("hammer_got_session", 0) for r in results)
    rep.cov["destroy_race_resurrections"] = sum(len(r.resurrect) for r in results)
    other = sum(len(r.races) + len(r.panics) + (1 if r.stuck else 0) + (1 if r.crash else 0) for r in results)
    rep.cov["destroy_race_other_reports"] = other  # data races, panics, blocked goroutines: judged by C15, which runs the same family
    infra = [r for r in results if r.infra or (r.stats.get("destroy_iterations", 0) == 0 and not r.resurrect)]
    rep.cov["destroy_race_infrastructure_errors"] = len(infra)
    nviol = 0
    bad = sorted((r for r in results if r.resurrect), key=lambda r: len(r.resurrect))
    if bad:
        r = bad[0]
        first = r.resurrect[0].split(" ", 3)
        counter[0] += 1
        what = "an ended session was obtainable after the ending call had returned (%s; iteration %s of scenario %s, %d of %d scenarios affected): %s" % (
            first[2], first[1], r.name, len(bad), len(results), first[3])
        p = write_replay(prop, counter[0], [prop + " violated under concurrency: " + what,
                                             "harness -mode conc (race build): the script below, then the harness's resurrect lines",
                                             "replay: /verif/.cache/<tree>/h_race -mode conc -script <this file> -out <transcript>; grep ^resurrect <transcript>"],
                         r.script + "".join("# " + l + "\n" for l in r.resurrect[:40]), ext="concscript")
        rep.violation(p, what)
        nviol += 1
    return nviol
