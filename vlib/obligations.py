"""Which Lean theorems stand for which property (audited with #print axioms on every run).

Only theorems listed here count as obligations of a property; a name that does not exist in the
freshly built environment, or that depends on an axiom outside {propext, Classical.choice,
Quot.sound}, is an undischarged obligation and fails the check.
"""

OBLIGATIONS = {
    "C13": [
        "Mx.mutex_exclusion", "Mx.PReach.exclusion", "Mx.purge_only_free", "Mx.purge_forgets_no_waiter",
        "Mx.held_entry_not_stale", "Mx.reach_conforms", "Mx.reach_exclusion_log", "Mx.Exec.checkExclusion_none_iff",
        "Mx.Exec.checkTrace_none_iff", "Mx.Exec.checkTrace_some", "Mx.Exec.exclEvent_lockRet", "Mx.Exec.acqEvent_spec",
        "Mx.Exec.purgeEvent_spec",
    ],
    "C14": [
        "Mx.deadlock_free", "Mx.waiter_has_holder", "Mx.progress_measure", "Mx.env_measure", "Mx.stuck_done",
        "Mx.all_locks_return", "Mx.all_locks_return_env_free", "Mx.every_lock_returns", "Mx.no_infinite_run_finite_env",
        "Mx.release_admits_exactly_one", "Mx.release_without_waiters_admits_none", "Mx.lock_free_key", "Mx.sendTok_partner",
        "Mx.mgr_returns_idle", "Mx.spurious_unlock_noop", "Mx.spur_pending_step", "Mx.reach_conforms",
        "Mx.Exec.relEvent_spec", "Mx.Exec.relEvent_free_noop",
    ],
    "C15": ["Drf.conflict_separated"],
    "C16": [],
    "C17": [],
    "C19": [
        "Ids.sessionIDString_length", "Ids.sessionIDString_injective", "Ids.sessionIDString_cookieSafe",
        "Ids.sessionIDString_cookie_roundtrip", "Ids.randomIDString_eq_loop", "Ids.randomIDString_length",
        "Ids.randomIDString_alphabet", "Ids.randomIDString_onto", "Ids.cuidBitsGo_eq", "Ids.cuidRender_eq", "Ids.cuidRender_lt",
        "Ids.cuidRun_wellformed", "Ids.cuidRun_eq", "Ids.cuid_unique", "Ids.cuid_sorted", "Ids.decode_encode", "Ids.encode_injective",
    ],
    "C20": [
        "Pw.classify_first_rule", "Pw.classify_le", "Pw.classify_short_iff", "Pw.classify_ok_iff", "Pw.classify_list_rejected",
        "Pw.classify_names_monotone", "Pw.classify_eq_reasonable", "Pw.decodeAuxRT_eq", "Pw.repLoop_eq_repetitive",
        "Pw.repetitive_iff", "Pw.goSequences_eq", "Pw.contains_ofList", "Pw.first_rule", "Pw.list_rejected", "Pw.names_monotone",
    ],
}

OBLIGATIONS.update({
    "C09": ["Sx.coherence_all_histories", "Sx.coherence_every_boundary", "Sx.coherence_bracketed_histories", "Sx.c09_crash_equiv",
            "Sx.inv_reload", "Sx.inv_crash_equiv", "Sx.step_inv", "Sx.start_spec", "Sx.cacheSet_spec", "Sx.regenerate_spec",
            "Sx.hset_spec", "Sx.hdel_spec", "Sx.hgetdel_spec", "Sx.hlogout_spec", "Sx.hlogin_spec", "Sx.logoutUser_spec",
            "Sx.refreshUser_spec", "Sx.two_objects_break_coherence"],
    "C12": ["Sx.compact_spec", "Sx.evictLoop_spec", "Sx.sweep_spec", "Sx.purge_spec", "Sx.cacheGet_spec", "Sx.cacheSet_spec"],
    "C10": ["Sx.applyMut_sok", "Sx.apiCall_pre", "Sx.finW_inv", "Sx.regenerate_spec"],
    "C07": ["Sx.destroy_spec", "Sx.cacheDelete_spec", "Sx.hdestroy_spec"],
    "C08": ["Sx.hlogin_spec", "Sx.hlogout_spec", "Sx.logoutUser_spec", "Sx.refreshUser_spec", "Sx.setUserAll_spec", "Sx.two_objects_break_coherence"],
    "C01": ["Sx.coherence_all_histories", "Sx.c09_crash_equiv", "Sx.start_spec", "Sx.step_inv"],
})
OBLIGATIONS["C16"] = []
OBLIGATIONS["C17"] = []

for _p in ("C01", "C02", "C03", "C04", "C05", "C06", "C07", "C08", "C09", "C10", "C11", "C12", "C18"):
    OBLIGATIONS.setdefault(_p, [])

TRUSTED_BASE = [
    "Lean 4.33.0 kernel (re-checked by leanchecker in the thorough tier); axioms allowed: propext, Classical.choice, Quot.sound",
    "hand-written Lean model of rivo/sessions (/verif/lean/Sessions/Model) tied to /repo by differential execution of the compiled "
    "model against the real package under the Go runtime's virtual clock (harness /verif/harness, generators /verif/vlib)",
    "Go runtime and standard library (scheduler, channels, sync, net/http cookie handling, encoding/gob, encoding/json, time, regexp, "
    "hash/fnv, crypto/rand) are modelled or assumed, not verified",
    "freshness/unguessability of generated ids (ID.gen n is distinct from all earlier ids and from every presented value)",
]
