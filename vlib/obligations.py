"""Which Lean theorems stand for which property (audited with #print axioms on every run).

Only theorems listed here count as obligations of a property; a name that does not exist in the
freshly built environment, or that depends on an axiom outside {propext, Classical.choice,
Quot.sound}, is an undischarged obligation and fails the check.
"""

OBLIGATIONS = {
    "C13": [
        "Mx.mutex_exclusion", "Mx.PReach.exclusion", "Mx.purge_only_free", "Mx.purge_forgets_no_waiter",
        "Mx.held_entry_not_stale", "Mx.reach_conforms", "Mx.reach_exclusion_log", "Mx.Exec.checkExclusion_none_iff",
        "Mx.Exec.checkTrace_none_iff", "Mx.Exec.checkTrace_some", "Mx.Exec.exclEvent_lockRet", "Mx.Exec.acqEvent_spec",
        "Mx.Exec.purgeEvent_spec",
    ],
    "C14": [
        "Mx.deadlock_free", "Mx.waiter_has_holder", "Mx.progress_measure", "Mx.env_measure", "Mx.stuck_done",
        "Mx.all_locks_return", "Mx.all_locks_return_env_free", "Mx.every_lock_returns", "Mx.no_infinite_run_finite_env",
        "Mx.release_admits_exactly_one", "Mx.release_without_waiters_admits_none", "Mx.lock_free_key", "Mx.sendTok_partner",
        "Mx.mgr_returns_idle", "Mx.spurious_unlock_noop", "Mx.spur_pending_step", "Mx.reach_conforms",
        "Mx.Exec.relEvent_spec", "Mx.Exec.relEvent_free_noop",
    ],
    "C15": ["Drf.conflict_separated", "Drf.writer_blocks", "Drf.reader_blocks_writer", "Drf.acquire_needed", "Drf.wacquire_needed",
            "Drf.next_LI", "Drf.run_LI"],
    "C16": [],
    "C17": [],
    "C19": [
        "Ids.sessionIDString_length", "Ids.sessionIDString_injective", "Ids.sessionIDString_cookieSafe",
        "Ids.sessionIDString_cookie_roundtrip", "Ids.randomIDString_eq_loop", "Ids.randomIDString_length",
        "Ids.randomIDString_alphabet", "Ids.randomIDString_onto", "Ids.cuidBitsGo_eq", "Ids.cuidRender_eq", "Ids.cuidRender_lt",
        "Ids.cuidRun_wellformed", "Ids.cuidRun_eq", "Ids.cuid_unique", "Ids.cuid_sorted", "Ids.decode_encode", "Ids.encode_injective",
    ],
    "C20": [
        "Pw.classify_first_rule", "Pw.classify_le", "Pw.classify_short_iff", "Pw.classify_ok_iff", "Pw.classify_list_rejected",
        "Pw.classify_names_monotone", "Pw.classify_eq_reasonable", "Pw.decodeAuxRT_eq", "Pw.repLoop_eq_repetitive",
        "Pw.repetitive_iff", "Pw.goSequences_eq", "Pw.contains_ofList", "Pw.first_rule", "Pw.list_rejected", "Pw.names_monotone",
    ],
}

OBLIGATIONS.update({
    "C09": ["Sx.coherence_all_histories", "Sx.coherence_every_boundary", "Sx.coherence_bracketed_histories", "Sx.c09_crash_equiv",
            "Sx.inv_reload", "Sx.inv_crash_equiv", "Sx.step_inv", "Sx.start_spec", "Sx.cacheSet_spec", "Sx.regenerate_spec",
            "Sx.hset_spec", "Sx.hdel_spec", "Sx.hgetdel_spec", "Sx.hlogout_spec", "Sx.hlogin_spec", "Sx.logoutUser_spec",
            "Sx.refreshUser_spec", "Sx.two_objects_break_coherence"],
    "C12": ["Sx.compact_spec", "Sx.evictLoop_spec", "Sx.sweep_spec", "Sx.purge_spec", "Sx.cacheGet_spec", "Sx.cacheSet_spec"],
    "C10": ["Sx.applyMut_sok", "Sx.apiCall_pre", "Sx.finW_inv", "Sx.regenerate_spec"],
    "C07": ["Sx.destroy_spec", "Sx.cacheDelete_spec", "Sx.hdestroy_spec"],
    "C08": ["Sx.hlogin_spec", "Sx.hlogout_spec", "Sx.logoutUser_spec", "Sx.refreshUser_spec", "Sx.setUserAll_spec", "Sx.two_objects_break_coherence"],
    "C01": ["Sx.coherence_all_histories", "Sx.c09_crash_equiv", "Sx.start_spec", "Sx.step_inv"],
})
OBLIGATIONS["C16"] = ["Sx.ess_enc_dec", "Sx.enc_dec_enc", "Sx.ess_enc_congr", "Cd.gob_roundtrip", "Cd.mutant_breaks"]
OBLIGATIONS["C17"] = ["Sx.truncSec_idem", "Sx.convVal_idem", "Sx.convData_idem", "Sx.ess_enc_dec", "Sx.enc_dec_enc"]


def _loc(*names):
    return ["Sx.Loc." + n for n in names]


def _add(prop, names):
    for n in names:
        if n not in OBLIGATIONS.setdefault(prop, []):
            OBLIGATIONS[prop].append(n)


_add("C02", _loc("start_only_24", "c02_forged_step", "c02_store_untouched", "c02_store_untouched'"))
_add("C03", _loc("c03_stale_refused", "c03_zero_expiry_refused", "c03_stale_new", "c03_fresh_not_stale", "c03_never_stale_max",
                 "c03_expired_sound", "c03_expired_invalid", "expired_ref_iff") + ["Sx.compact_spec", "Sx.purge_spec"])
_add("C04", _loc("regenerate_spec", "regenerate_evs_ok", "regenerate_cookie_last", "c04_rotation_step", "c04_young_untouched",
                 "c04_reference_never_mints", "c04_reference_redirect") + ["Mx.mutex_exclusion"])
_add("C05", _loc("expired_ref_iff", "c04_reference_redirect", "follow_valid", "c04_reference_never_mints", "startValid_ref_expired") +
     ["Sx.follow_spec", "Sx.fireDue_inv", "Sx.advance_inv"])
_add("C06", _loc("matchIP_canonical", "matchIP_bracket", "c06_ip", "c06_ip_2", "c06_ip_3", "c06_ip_4", "c06_ua", "c06_destroy",
                 "c06_ip_destroy", "c06_ua_destroy", "validFor_false_iff", "c06_moves", "c06_moves_start"))
_add("C07", _loc("c06_destroy", "c03_stale_refused", "destroy_ok_iff", "c18_deletion_only_when_looked_up"))
_add("C08", _loc("hlogin_ok_saved", "hlogout_ok_user", "hlogout_ok_saved", "hlogin_err_iff", "hlogin_ok_iff"))
_add("C09", _loc("hset_ok_saved", "hset_ok_value", "hdel_ok_saved", "hlogout_ok_saved", "hgetdel_saved", "createNew_sess_saved",
                 "regenerate_ok_saved", "hlogin_ok_saved", "c09_cacheSet"))
_add("C10", _loc("regenerate_evs_ok", "regenerate_spec"))
_add("C11", _loc("start_failed_load", "start_failed_user", "start_ok_no_failed_call", "start_ok_saveFail_flush", "start_get_err_iff",
                 "cacheSet_false_iff", "hset_err_iff", "hdel_err_iff", "hlogout_err_iff", "regenerate_false_iff", "destroy_ok_iff",
                 "hlogin_err_iff", "logoutUser_usersFail", "refreshUser_usersFail", "setUserAll_true_clean", "hset_ok_saved",
                 "regenerate_ok_saved", "createNew_sess_saved"))
_add("C12", _loc("compact_flushed", "sweep_flushed", "evictLoop_flushed"))
_add("C18", _loc("start_cookie_shapes", "start_sess_last_cookie", "c18_same_id_no_cookie", "c18_same_id_cookie_cases",
                 "c18_changed_id_cookie", "c18_no_cookie_presented", "c18_deletion_only_when_looked_up", "start_jar_sess",
                 "applyCookies_last_set", "regenerate_cookie_last"))
_add("C01", _loc("start_jar_sess", "c04_rotation_step", "c04_young_untouched", "hset_ok_saved"))

for _p in ("C01", "C02", "C03", "C04", "C05", "C06", "C07", "C08", "C09", "C10", "C11", "C12", "C18"):
    OBLIGATIONS.setdefault(_p, [])

TRUSTED_BASE = [
    "Lean 4.33.0 kernel (re-checked by leanchecker in the thorough tier); axioms allowed: propext, Classical.choice, Quot.sound",
    "hand-written Lean model of rivo/sessions (/verif/lean/Sessions/Model) tied to /repo by differential execution of the compiled "
    "model against the real package under the Go runtime's virtual clock (harness /verif/harness, generators /verif/vlib)",
    "Go runtime and standard library (scheduler, channels, sync, net/http cookie handling, encoding/gob, encoding/json, time, regexp, "
    "hash/fnv, crypto/rand) are modelled or assumed, not verified",
    "freshness/unguessability of generated ids (ID.gen n is distinct from all earlier ids and from every presented value)",
]


def _more(*names):
    return ["Sx.More." + n for n in names]


_add("C12", _more("c12_size_set", "c12_size_get", "c12_size_get_zero", "c12_size_set_zero", "c12_neg_keeps", "c12_no_growth", "c12_lru",
                  "c12_lru_compact", "c12_removed_why", "c12_idle", "c12_idle_completed", "c12_flush_first", "c12_flush_lastAccess",
                  "c12_flush_only", "c12_purge_flush", "c12_failed_flush_aborts", "c12_sweep_failed_stays", "c12_evictLoop_failed_stays",
                  "step_bounded", "step_insert_bounded", "c12_bounded_all_histories", "c12_size_set_needs_case"))
_add("C03", _more("c12_flush_lastAccess", "c12_flush_first", "c12_purge_flush"))
_add("C10", _more("regenerate_prefix_safe", "regenerate_prefix_safe_nofail", "regenerate_prefix_safe_cached", "startValid_rotation_prefix_safe",
                  "start_rotation_prefix_safe", "start_rotation_prefix_safe_nofail", "hlogin_prefix_safe", "hlogin_prefix_safe_cached",
                  "swapped_saves_dangle", "real_saves_safe", "crashStore_apiMid"))
_add("C05", _more("c05_chain_resolves", "follow_fuel_enough", "c05_backstop", "c05_backstop_start", "c05_backstop_stored", "c05_backstop_invalid",
                  "c05_cleanup_fireDue", "c05_cleanup_advance", "c05_regenerate_timer", "c05_gone_after_grace", "c05_timers_all_histories",
                  "c05_no_overdue_reference", "c05_reference_age_lt", "i3_all_histories", "i3_acyclic", "step_inv3"))
_add("C01", _more("c05_chain_resolves", "i3_all_histories", "c12_flush_first"))
_add("C07", _more("c05_backstop_invalid", "c05_cleanup_advance"))
_add("C18", _more("c05_chain_resolves"))
_add("C18", ["Sx.Ck.live_cookie_is_template", "Sx.Ck.live_cookie_lifetime", "Sx.Ck.deletion_cookie_expired", "Sx.Ck.cookieOut_isCookie",
             "Sx.Ck.dead_iff_expired_attrs"])


def _glob(*names):
    return ["Sx.Glob." + n for n in names]


_add("C01", _glob("own1_all_histories", "own_all_histories", "own_every_boundary", "c01_exact", "c01_exact_spec", "c01_isolation",
                  "c01_continuity", "own_leads"))
_add("C07", _glob("dead_all_histories", "dead_every_boundary", "c07_no_dead_full", "c07_dead_chain", "c07_dead_no_chain", "c07_dead_not_minted",
                  "c07_served_not_dead", "c07_no_resurrection", "c07_never_comes_back", "c07_ending_cookie", "c07_destroy_marks"))
_add("C08", _glob("c08_logoutUser", "c08_refresh", "c08_refresh_users", "c08_missing_skipped", "c08_login", "c08_login_HL", "c08_logout",
                  "c08_after_logoutUser", "logoutUser_delta", "refreshUser_delta", "hlogin_delta", "hlogout_delta"))
_add("C02", _glob("c07_no_resurrection", "c01_isolation"))
# history-level statements for C04 (Proofs/Global/Rotate04*) and the second half of C03 (Proofs/Global/Active03*)
_add("C04", _glob("rot4_step", "rot4_all_histories", "c04_rotated_once", "c04_never_full_again", "c04_one_target", "c04_replaced_not_minted",
                  "c04_req_mints", "c04_one_mint_per_due_id", "c04_rotation_count", "c04_presented_mints_once", "c04_mints_count",
                  "c04_same_session", "c04_same_handle"))
_add("C03", _glob("knows_all_histories", "c03_active_not_stale", "c03_active_kept_id", "c03_expired_sound_global", "c03_expired_refused",
                  "linked_all_histories", "c03_active_kept", "c03_active_kept_client"))
# histories WITH store faults, every oracle (Proofs/Global/Faulty11*)
_add("C11", _glob("sinv_step", "sinv_all_histories", "sinv_every_boundary", "store_follows_events", "step_store_follows_events",
                  "hist_store_follows_events", "c11_failed_call_changes_nothing", "start_failed_load_quiet", "start_del_cases",
                  "c11_no_silent_loss", "c11_untouched", "c11_del_only_by_invalidation", "c11_failed_load_global", "step_eq_clear",
                  "step_inv_of_not_faulted", "cohf_all_histories_partial", "coh_lost_only_by_shown_fault", "wf_fails_under_faults"))
_add("C09", _glob("c09_ack_saved_global", "c09_created_saved_global", "hRun_ack_saved", "createNew_ack_saved", "sinv_all_histories",
                  "step_store_follows_events", "step_store_frozen", "cohf_all_histories_partial", "c09_untainted_crash_equiv"))
_add("C09", _glob("own_all_histories"))


# Theorems about facts REGENERATED from the source on every run (module to build, theorem names), per property.
FACT_OBLIGATIONS = {
    "C02": [("Sessions.FactsBracketStart", ["FactsBrackets.start_looks_up_only_24"])],
    "C03": [("Sessions.FactsCondsStale", ["FactsConds.start_stale"]),
            ("Sessions.FactsCondsExpired", ["FactsConds.expired_eq_model"])],
    "C04": [("Sessions.FactsBracketStart", ["FactsBrackets.start_is_critical_section"]),
            ("Sessions.FactsBracketLogin", ["FactsBrackets.login_is_critical_section"]),
            ("Sessions.FactsCondsRotate", ["FactsConds.start_rotate_backstop", "FactsConds.start_reference_tests"])],
    "C05": [("Sessions.FactsCondsRotate", ["FactsConds.start_rotate_backstop", "FactsConds.start_grace_only_backstop",
                                           "FactsConds.no_sum_of_durations", "FactsConds.start_reference_tests",
                                           "FactsConds.regenerate_durations"]),
            ("Sessions.FactsCondsExpired", ["FactsConds.expired_eq_model"])],
    "C06": [("Sessions.FactsCondsAnomaly", ["FactsConds.start_ua", "FactsConds.ua_block_eq_uaOK", "FactsConds.start_valid_only_cleared",
                                            "FactsConds.start_ip_guards", "FactsConds.start_ip_body", "FactsConds.goIP_eq_ipOK",
                                            "FactsConds.matchIP_length"])],
    "C07": [],   # cache.Delete: translated and proved equal to Sx.cacheDelete (FactsIrCache) + store call under the cache lock (FactsCacheAtomic)
    "C11": [("Sessions.FactsErrors", ["FactsErrors.errors_propagate", "FactsErrors.error_sites_cover"])],
    "C12": [("Sessions.FactsPinsCache", ["FactsPins.cache_source_matches_model"]),
            ("Sessions.FactsCondsCache", ["FactsConds.compact_idle", "FactsConds.compact_size_tests", "FactsConds.compact_victim",
                                          "FactsConds.get_set_cache_switch"])],
    "C13": [("Sessions.FactsPinsMutex", ["FactsPins.mutex_source_matches_model"]),
            ("Sessions.FactsBracketStart", ["FactsBrackets.start_is_critical_section"])],
    "C14": [("Sessions.FactsPinsMutex", ["FactsPins.mutex_source_matches_model"])],
    "C15": [("Sessions.FactsLocks", ["FactsLocks.lockDiscipline_ok", "FactsLocks.compact_called_locked", "FactsLocks.referenceID_write_once",
                                     "FactsLocks.nothing_unrecognised", "FactsLocks.access_table_covers", "FactsLocks.discipline_instantiates",
                                     "FactsLocks.rows_separated", "Kv.lin_sequential", "Kv.ret_in_lin", "Kv.realtime_order",
                                     "Kv.handed_nodup", "Kv.getAndDelete_at_most_one"]),
            ("Sessions.FactsBracketKv", ["FactsBrackets.kv_single_section"])],
    "C19": [("Sessions.FactsPinsIds", ["FactsPins.ids_source_matches_model"]),
            ("Sessions.FactsBracketCuid", ["FactsBrackets.cuid_is_critical_section"])],
    "C20": [("Sessions.FactsPinsPassword", ["FactsPins.password_source_matches_model"])],
}

# the cache operations are atomic (map update + store call under one lock): the basis of the request-granularity model
for _p in ("C01", "C02", "C03", "C05", "C07", "C09", "C12", "C15"):
    FACT_OBLIGATIONS.setdefault(_p, []).append(("Sessions.FactsCacheAtomic", ["FactsCacheAtomic.cache_store_calls_locked", "FactsCacheAtomic.cache_store_calls_cover", "FactsCacheAtomic.compact_callers_locked"]))

# functions TRANSLATED from the source on every run (extract/ir.go -> Facts.ir_*) and proved equal to the hand-written model
# for all configurations, states and arguments (Sessions/Ir/Sem.lean is the interpreter, Sessions/FactsIr*.lean the theorems)
_IR_REGEN = ("Sessions.FactsIrRegen", ["FactsIr.regenerateID_eq", "FactsIr.destroy_eq_model"])
_IR_CACHE = ("Sessions.FactsIrCache", ["FactsIr.cacheSet_eq_model", "FactsIr.cacheDelete_eq_model", "FactsIr.cacheGet_eq_model"])
_IR_HANDLERS = ("Sessions.FactsIrHandlers", ["FactsIr.set_eq_model", "FactsIr.delete_eq_model", "FactsIr.logOut_eq_model",
                                             "FactsIr.getAndDelete_eq_model", "FactsIr.getAndDelete_default", "FactsIr.get_eq_model"])
_IR_LOGIN = ("Sessions.FactsIrLogin", ["FactsIr.logIn_eq_model"])
for _p, _mods in {"C01": (_IR_CACHE, _IR_HANDLERS), "C04": (_IR_REGEN,), "C05": (_IR_REGEN,), "C07": (_IR_REGEN, _IR_CACHE), "C08": (_IR_LOGIN,),
                  "C09": (_IR_HANDLERS, _IR_CACHE, _IR_REGEN), "C10": (_IR_REGEN,), "C12": (_IR_CACHE,), "C18": (_IR_REGEN,)}.items():
    for _m in _mods:
        FACT_OBLIGATIONS.setdefault(_p, []).append(_m)

# Start is translated too (loops included); proved so far: its creation block equals Sx.createNew for all states
# (FactsIr.start_create_block_partial). FactsIrStartRun holds no theorem: it EXECUTES the regenerated tree of Start and Sx.start
# on 48 concrete states/requests covering every branch and compares state, result and events (#guard; a test, labelled so).
_IR_START = ("Sessions.FactsIrStart", ["FactsIr.start_create_block_partial", "FactsIr.start_shape", "FactsIr.runs_append"])
_IR_START_RUN = ("Sessions.FactsIrStartRun", [])
for _p in ("C01", "C02", "C18"):
    FACT_OBLIGATIONS.setdefault(_p, []).append(_IR_START)
for _p in ("C03", "C04", "C05", "C06"):
    FACT_OBLIGATIONS.setdefault(_p, []).append(_IR_START_RUN)

# whole-function theorems about the translated Start, one per path (same state, result and events as Sx.start), each under an
# explicit path hypothesis; unproved paths: a live reference chain, and the address test (the theorems about found sessions
# assume AcceptRemoteIP <= 1, the default)
_IR_START_ABC = [("Sessions.FactsIrStartBlocks", ["FactsIr.start_blocks", "FactsIr.execP_start"]),
                 ("Sessions.FactsIrStartA", ["FactsIr.start_nocookie_eq"]),
                 ("Sessions.FactsIrStartB", ["FactsIr.start_wronglen_eq"]),
                 ("Sessions.FactsIrStartC", ["FactsIr.start_geterr_eq", "FactsIr.start_unknown_eq"])]
for _p in ("C02", "C18"):
    FACT_OBLIGATIONS.setdefault(_p, []).extend(_IR_START_ABC)
FACT_OBLIGATIONS.setdefault("C11", []).append(("Sessions.FactsIrStartC", ["FactsIr.start_geterr_eq"]))
for _p in ("C03", "C07"):
    FACT_OBLIGATIONS.setdefault(_p, []).append(("Sessions.FactsIrStartD", ["FactsIr.start_invalid_eq"]))
for _p in ("C01", "C03"):
    FACT_OBLIGATIONS.setdefault(_p, []).append(("Sessions.FactsIrStartE", ["FactsIr.start_valid_plain_eq"]))
FACT_OBLIGATIONS.setdefault("C04", []).append(("Sessions.FactsIrStartF", ["FactsIr.start_rotate_eq"]))
FACT_OBLIGATIONS.setdefault("C05", []).append(("Sessions.FactsIrStartG", ["FactsIr.start_ref_expired_eq"]))
