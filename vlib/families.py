"""Directed script families, one per life-cycle property (DESIGN.md §6). Each family exercises the
mechanism its property is about and keeps the others switched off by configuration where possible,
so that a divergence between model and implementation on a family's scripts concerns that property."""
import random

from . import gen
from .gen import MAX, MS, SEC, Script, emit_cfg, hx, qs


def rnd_for(seed, fam, i):
    return random.Random("%d/%s/%d" % (seed, fam, i))


def base_cfg(**kw):
    c = dict(gen.CFG_DEFAULT)
    c.update(kw)
    return c


def unit(codec):
    return SEC if codec == "json" else MS


CLIENTS = [("c%d" % i, "10.%d.0.1:%d" % (i, 4000 + i), "Agent/%d.0" % i) for i in range(6)]


SALT = [""]


def req(sc, c, spec="jar", create=1, ip=None, ua=None):
    name, cip, cua = CLIENTS[c]
    u = (cua + SALT[0]) if ua is None else ua
    sc.add("req", name, spec, qs(ip or cip), qs(u) if u else "-", create)


def fam_C01(seed, n):
    out = []
    for i in range(n):
        r = rnd_for(seed, "C01", i)
        out.append(("C01-%d" % i, gen.general(r, nsteps=r.choice([20, 30, 40]), features=("cfgchange",))))
    return out


def fam_C02(seed, n):
    out = []
    for i in range(n):
        r = rnd_for(seed, "C02", i)
        codec = r.choice(["gob", "json"])
        U = unit(codec)
        sc = Script()
        cfg = base_cfg(maxCache=r.choice([-1, -1, 2, 0]), grace=r.choice([0, 2 * U]), idExpiry=r.choice([MAX, MAX, 3 * U]))
        emit_cfg(sc, codec, cfg, None, r)
        SALT[0] = ".%d" % r.randint(0, 9999)
        npop = r.randint(1, 4)
        minted = 0
        for c in range(npop):
            req(sc, c)
            sc.add("h set k0", "s" + hx("own%d" % c))
            if r.random() < 0.4:
                sc.add("h regen")
                minted += 1
            if r.random() < 0.2:
                sc.add("h destroy")
            sc.add("end")
            minted += 1
        if cfg["maxCache"] != 0 and r.random() < 0.3:
            # the cache is switched off at runtime while sessions are still cached; a session that is ended afterwards
            # must be gone from memory too, whatever id of it is presented later
            sc.add("cfg maxCache 0")
            victim = r.randrange(npop)
            req(sc, victim)
            sc.add("h destroy")
            sc.add("end")
            req(sc, r.randrange(npop, len(CLIENTS)), spec="val:g%d" % r.randrange(max(1, minted)), create=0)
            sc.add("end")
        for _ in range(r.randint(4, 14)):
            x = r.random()
            c = r.randrange(npop, len(CLIENTS))
            if x < 0.15:
                sc.add("wait", r.choice([1, 2, 4]) * U)
                continue
            if x < 0.25:
                req(sc, r.randrange(npop))
                sc.add("end")
                continue
            spec = forged(r, minted)
            req(sc, c, spec=spec, create=r.choice([0, 1]))
            if r.random() < 0.3:
                sc.add("h set k1", "s" + hx("forger"))
            sc.add("end")
            minted += 1
        out.append(("C02-%d" % i, sc.text()))
    return out


B64 = "ABCDEFGHIJKLMNOPQRSTUVWXYZabcdefghijklmnopqrstuvwxyz0123456789+/"


def forged(r, minted):
    x = r.random()
    if x < 0.2:
        n = r.choice([0, 1, 2, 8, 16, 22, 23, 24, 24, 24, 25, 26, 32, 48, 64])
        s = "".join(r.choice(B64) for _ in range(n))
        if n == 24 and r.random() < 0.6:
            s = s[:22] + "=="
        return "val:" + qs(s) if s else "none"
    if x < 0.3:
        return "val:deleted"
    if x < 0.5:
        # one-symbol mutation of a minted id
        import base64
        import struct
        k = r.randrange(max(1, minted))
        raw = struct.pack(">QQ", ((k + 1) * 0x9E3779B97F4A7C15) % (1 << 64), k + 1)
        s = list(base64.b64encode(raw).decode())
        p = r.randrange(22)
        s[p] = r.choice([ch for ch in B64 if ch != s[p]])
        return "val:" + "".join(s)
    if x < 0.58:
        # an equivalent SPELLING of a minted id: percent-encoding, URL-safe alphabet, dropped or extra padding, case change,
        # surrounding blanks. None of these is the id itself, so none may reach the session.
        from .monitors import gen_id
        live = gen_id(r.randrange(max(1, minted)))
        y = r.random()
        if y < 0.35:
            pos = sorted(r.sample(range(24), r.choice([1, 1, 2])))
            v = "".join("%%%02X" % ord(ch) if i in pos else ch for i, ch in enumerate(live))
        elif y < 0.5:
            v = live.replace("+", "-").replace("/", "_")
            if v == live:
                v = live[:-2]
        elif y < 0.6:
            v = live[:-2]
        elif y < 0.7:
            v = live + "="
        elif y < 0.8:
            v = live.swapcase()
        elif y < 0.9:
            v = live.replace("=", "%3D")
        else:
            v = live + "%20"
        return "val:" + qs(v)
    if x < 0.6:
        return "val:g%d" % (50_000 + r.randrange(1000))
    if x < 0.8:
        raw = r.choice(['id="%s"' % ("A" * 24), "id=" + "A" * 22 + "==; id=" + "B" * 24, "other=1; id=" + "C" * 24, "id=",
                        "id=a b c", "id=\xe4\xf6\xfc" + "A" * 21, "id=" + "A" * 23 + ";", "ID=" + "A" * 24, "id =" + "A" * 24,
                        "id=" + "A" * 24 + " ", 'id="' + "A" * 22 + '=="'])
        return "raw:" + qs(raw)
    if x < 0.9:
        return "none"
    n = r.choice([24, 24, 12])
    return "val:" + qs("".join(r.choice("abc/+=XYZ019") for _ in range(n)))


def fam_C03(seed, n):
    out = []
    for i in range(n):
        r = rnd_for(seed, "C03", i)
        codec = r.choice(["gob", "gob", "json"])
        U = unit(codec)
        se_units = r.choice([0, 1, 3, 5, 5, 8, MAX])
        se = MAX if se_units == MAX else se_units * U
        cfg = base_cfg(sessionExpiry=se, maxCache=r.choice([-1, 1, 1, 2, 0]), cacheExpiry=r.choice([MAX, 2 * U, 4 * U]),
                       idExpiry=r.choice([MAX, MAX, MAX, 0, 4 * U]), grace=r.choice([0, 2 * U, MAX]))
        sc = Script()
        emit_cfg(sc, codec, cfg, None, r)
        SALT[0] = ".%d" % r.randint(0, 9999)
        ns = r.randint(1, 3)
        for c in range(ns):
            req(sc, c)
            sc.add("h set k0", "s" + hx("v%d" % c))
            sc.add("end")
        seu = 5 if se_units in (MAX, 0) else se_units
        if se_units not in (MAX, 0, 1) and r.random() < 0.2:
            # quiet keep-alive: one or two clients come back at intervals just below SessionExpiry but ABOVE SessionCacheExpiry,
            # nothing else touches the cache in between (no purge, no other session, no write): their access times live in
            # memory only and must not get lost there
            sc.lines = [l for l in sc.lines if not l.startswith(("cfg cacheExpiry", "cfg maxCache"))]
            sc.add("cfg cacheExpiry", r.choice([1, max(1, seu - 2)]) * U)
            sc.add("cfg maxCache", r.choice([-1, 3, 8]))
            for _ in range(r.randint(3, 7)):
                sc.add("wait", (seu - 1) * U)
                for c in range(ns):
                    req(sc, c, create=0)
                    if r.random() < 0.2:
                        sc.add("h lastaccess")
                    sc.add("end")
            out.append(("C03-%d" % i, sc.text()))
            continue
        if se_units not in (MAX, 0, 1) and r.random() < 0.45:
            # keep-alive pattern: accesses at intervals just below SessionExpiry, far beyond SessionExpiry since creation,
            # with the session leaving the cache in between (purge, eviction by other sessions, idle sweep)
            for _ in range(r.randint(3, 8)):
                sc.add("wait", (seu - 1) * U)
                for c in range(ns):
                    req(sc, c, create=0)
                    if r.random() < 0.3:
                        sc.add("h lastaccess")
                    sc.add("end")
                y = r.random()
                if y < 0.4:
                    sc.add("purge")
                elif y < 0.6:
                    # other clients push the sessions out of a small cache; in half of the cases the flush of the evicted
                    # session fails: it must then stay cached (its latest access time is known nowhere else)
                    if r.random() < 0.5:
                        sc.add("fault save * 0")
                    req(sc, 4)
                    sc.add("end")
                    req(sc, 5)
                    sc.add("end")
            out.append(("C03-%d" % i, sc.text()))
            continue
        for _ in range(r.randint(4, 12)):
            x = r.random()
            if x < 0.4:
                w = r.choice([max(1, seu - 1), seu, seu + 1, 1, 1, 2, 2 * seu + 1])
                sc.add("wait", w * U)
            elif x < 0.8:
                c = r.randrange(ns)
                req(sc, c, create=r.choice([0, 1, 1]))
                y = r.random()
                if y < 0.2:
                    sc.add("h expired")
                elif y < 0.35:
                    sc.add("h lastaccess")
                elif y < 0.5:
                    sc.add("h set k1 i%d" % r.randint(0, 9))
                sc.add("end")
            elif x < 0.88:
                sc.add("purge")
            elif x < 0.94:
                sc.add("expired", "g%d" % r.randrange(ns + 2))
            else:
                sc.add("dropcache")
        out.append(("C03-%d" % i, sc.text()))
    return out


def fam_C04(seed, n):
    out = []
    for i in range(n):
        r = rnd_for(seed, "C04", i)
        codec = r.choice(["gob", "gob", "json"])
        U = unit(codec)
        ide_u = r.choice([0, 2, 2, 3, MAX])
        cfg = base_cfg(idExpiry=MAX if ide_u == MAX else ide_u * U, grace=r.choice([0, U, 5 * U, 50 * U, MAX]),
                       maxCache=r.choice([-1, -1, 0, 1, 2]), sessionExpiry=r.choice([MAX, MAX, 100 * U]))
        sc = Script()
        emit_cfg(sc, codec, cfg, None, r)
        SALT[0] = ".%d" % r.randint(0, 9999)
        req(sc, 0)
        sc.add("h set k0 s" + hx("keep"))
        if r.random() < 0.3:
            sc.add("h login u0 0")
        sc.add("end")
        iu = 2 if ide_u in (0, MAX) else ide_u
        for _ in range(r.randint(3, 10)):
            x = r.random()
            if x < 0.35:
                sc.add("wait", r.choice([1, max(1, iu - 1), iu, iu + 1, 2 * iu + 1]) * U)
            elif x < 0.85:
                follow = r.random() < 0.8
                req(sc, 0 if follow else 1, spec="jar" if follow else "val:g%d" % r.randrange(6), create=r.choice([0, 1]))
                y = r.random()
                if y < 0.2:
                    sc.add("h regen")
                elif y < 0.3:
                    sc.add("h login u1", r.choice([0, 1]))
                elif y < 0.45:
                    sc.add("h get k0")
                sc.add("end")
            elif x < 0.92:
                req(sc, 2)
                sc.add("end")
            else:
                sc.add("purge")
        out.append(("C04-%d" % i, sc.text()))
    return out


def fam_C05(seed, n):
    out = []
    for i in range(n):
        r = rnd_for(seed, "C05", i)
        codec = r.choice(["gob", "json"])
        U = unit(codec)
        gr_u = r.choice([0, 1, 3, 3, 10])
        ide_u = r.choice([0, 2, MAX, MAX])
        cfg = base_cfg(idExpiry=MAX if ide_u == MAX else ide_u * U, grace=gr_u * U, maxCache=r.choice([-1, -1, 0, 1, 2, 3]),
                       sessionExpiry=r.choice([MAX, MAX, 2 * U, 20 * U]))
        sc = Script()
        emit_cfg(sc, codec, cfg, None, r)
        SALT[0] = ".%d" % r.randint(0, 9999)
        req(sc, 0)
        sc.add("h set k0 s" + hx("live"))
        k = r.randint(1, 5) if r.random() < 0.85 else r.randint(6, 14)   # sometimes a long chain inside one grace period
        for _ in range(k):
            sc.add("h regen")
        sc.add("end")
        ids = k + 1
        if k > 5:
            # the oldest ids of a long chain still lead to the live session
            for j in sorted(r.sample(range(k), 3)):
                req(sc, r.choice([1, 2]), spec="val:g%d" % j, create=0)
                sc.add("h get k0")
                sc.add("end")
        if ide_u != MAX and gr_u >= 1 and r.random() < 0.4:
            # an ID that is long overdue (the client was away for more than SessionIDExpiry + grace) is replaced by the
            # request that comes back, and a parallel request still presents the old ID inside ITS grace period
            sc.add("wait", (ide_u + gr_u + r.choice([0, 1, 3])) * U)
            req(sc, 0)
            sc.add("end")
            old = ids - 1
            ids += 1
            if gr_u >= 2 and r.random() < 0.5:
                sc.add("wait", (gr_u - 1) * U)
            req(sc, 1, spec="val:g%d" % old, create=0)
            sc.add("h get k0")
            sc.add("end")
            if r.random() < 0.5:
                sc.add("expired", "g%d" % old)
        if k >= 2 and gr_u >= 3 and r.random() < 0.4:
            # the hygiene predicate on the record of an ID replaced several changes ago, after that ID was presented (and
            # redirected) inside its grace period and the process restarted (no clean-up goroutine left to delete it)
            sc.add("wait", U)
            for j in r.sample(range(k), r.randint(1, min(2, k))):
                req(sc, r.choice([1, 2]), spec="val:g%d" % j, create=0)
                sc.add("end")
            sc.add(r.choice(["crash", "crash", "dropcache"]))
            sc.add("wait", r.choice([gr_u - 2, gr_u - 1, gr_u, gr_u + 1]) * U)
            for j in range(k):
                sc.add("expired", "g%d" % j)
        for _ in range(r.randint(2, 9)):
            x = r.random()
            if x < 0.35:
                sc.add("wait", r.choice([1, max(1, gr_u - 1), gr_u, gr_u + 1, gr_u + 3, 1]) * U)
            elif x < 0.75:
                j = r.randrange(ids)
                req(sc, r.choice([1, 2]), spec="val:g%d" % j, create=r.choice([0, 0, 1]))
                if r.random() < 0.3:
                    sc.add("h get k0")
                sc.add("end")
            elif x < 0.85:
                sc.add("expired", "g%d" % r.randrange(ids))
            elif x < 0.92:
                sc.add("crash")
            elif x < 0.96:
                req(sc, 0)
                sc.add("h regen")
                sc.add("end")
                ids += 2
            else:
                sc.add("dropcache")
        out.append(("C05-%d" % i, sc.text()))
    return out


def fam_C06(seed, n):
    out = []
    for i in range(n):
        r = rnd_for(seed, "C06", i)
        codec = r.choice(["gob", "gob", "json"])
        U = unit(codec)
        nip = r.choice([1, 2, 2, 3, 3, 4, 4, 5])
        cfg = base_cfg(acceptIP=nip, acceptUA=r.choice([0, 0, 1]), maxCache=r.choice([-1, -1, 1, 0]),
                       idExpiry=r.choice([MAX, MAX, MAX, 3 * U]), grace=10 * U)
        sc = Script()
        emit_cfg(sc, codec, cfg, None, r)
        SALT[0] = ".%d" % r.randint(0, 9999)
        # small octets half of the time, so that "new octet = old octet followed by a digit" (1 -> 17, 10 -> 104) occurs
        octs = [r.randint(1, 250) for _ in range(4)] if r.random() < 0.5 else [r.randint(1, 25) for _ in range(4)]
        port = r.randint(1000, 60000)
        ua = r.choice(["Mozilla/5.0 (X11)", "curl/8", "", "Ünï"])

        def addr(o, p):
            return "%d.%d.%d.%d:%d" % (o[0], o[1], o[2], o[3], p)

        sc.add("req c0 jar", qs(addr(octs, port)), qs(ua) if ua else "-", 1)
        sc.add("h set k0 s" + hx("x"))
        regen = r.random() < 0.35
        if regen:
            sc.add("h regen")
        sc.add("end")
        for _ in range(r.randint(2, 8)):
            x = r.random()
            if x < 0.15:
                sc.add("wait", U)
                continue
            if x < 0.25:
                sc.add(r.choice(["purge", "dropcache"]))
                continue
            o2 = list(octs)
            p2 = port
            y = r.random()
            if y < 0.2:
                j = r.randrange(4)
                o2[j] = (o2[j] % 250) + 1
            elif y < 0.45:
                # a change that keeps the old octet as a textual prefix of the new one, or the reverse
                j = r.randrange(4)
                if o2[j] <= 25 and r.random() < 0.7:
                    o2[j] = o2[j] * 10 + r.randint(0, 5)
                elif o2[j] >= 10:
                    o2[j] = o2[j] // 10
                else:
                    o2[j] = o2[j] + 10
            elif y < 0.55:
                p2 = port + 1
            elif y < 0.65:
                # IPv6 peers, among them IPv4-mapped ones (what a dual-stack listener reports for an IPv4 client): never compared
                form = r.random()
                if form < 0.4:
                    a2 = "[2001:db8::%d]:%d" % (r.randint(1, 9), p2)
                elif form < 0.7:
                    a2 = "[::ffff:%d.%d.%d.%d]:%d" % (r.randint(1, 250), r.randint(1, 250), o2[2], o2[3], p2)
                elif form < 0.85:
                    a2 = "[::ffff:%d.%d.%d.%d]:%d" % (o2[0], o2[1], o2[2], o2[3], p2)
                else:
                    a2 = "[::ffff:%02x%02x:%02x%02x]:%d" % (o2[0], o2[1], o2[2], o2[3], p2)
            ua2 = ua
            z = r.random()
            if z < 0.2:
                ua2 = ua + "x"
            elif z < 0.3:
                ua2 = ""
            a2 = addr(o2, p2) if not (0.55 <= y < 0.65) else a2
            spec = "jar" if r.random() < (0.5 if regen else 0.9) else "val:g0"
            sc.add("req c0", spec, qs(a2), qs(ua2) if ua2 else "-", r.choice([0, 1]))
            sc.add("end")
            # the comparison point moves only if the request was accepted; the generator does not know, which is fine
            if r.random() < 0.5:
                octs, port, ua = o2 if not (0.55 <= y < 0.65) else octs, p2, ua2 if cfg["acceptUA"] else ua
        out.append(("C06-%d" % i, sc.text()))
    return out


def fam_C07(seed, n):
    out = []
    for i in range(n):
        r = rnd_for(seed, "C07", i)
        codec = r.choice(["gob", "gob", "json"])
        U = unit(codec)
        how = r.choice(["destroy", "destroy", "expiry", "ip", "ua"])
        cfg = base_cfg(grace=r.choice([5 * U, 50 * U]), maxCache=r.choice([-1, -1, 1, 0, 2]),
                       sessionExpiry=4 * U if how == "expiry" else MAX, acceptIP=3 if how == "ip" else 1,
                       acceptUA=0 if how == "ua" else 1, idExpiry=r.choice([MAX, MAX, 2 * U]))
        sc = Script()
        emit_cfg(sc, codec, cfg, None, r)
        SALT[0] = ".%d" % r.randint(0, 9999)
        req(sc, 0)
        sc.add("h set k0 s" + hx("secret"))
        if r.random() < 0.5:
            sc.add("h login u0 0")
        k = r.randint(0, 3)
        for _ in range(k):
            sc.add("h regen")
        sc.add("end")
        ids = k + 3
        if r.random() < 0.3:
            sc.add(r.choice(["purge", "dropcache", "crash"]))
        if r.random() < 0.3:
            req(sc, 1)
            sc.add("end")
        if how == "destroy":
            # sometimes the request that destroys the session still carries a replaced id (in grace)
            req(sc, 0, spec=("val:g%d" % r.randrange(k)) if (k > 0 and r.random() < 0.4) else "jar")
            if r.random() < 0.12:
                sc.add("fault del * 0")  # a Destroy whose delete fails must not claim the session is gone
            sc.add("h destroy")
            sc.add("end")
        elif how == "expiry":
            sc.add("wait", 5 * U)
            req(sc, 0, create=r.choice([0, 1]))
            sc.add("end")
        elif how == "ip":
            req(sc, 0, ip="99.9.0.1:1", create=r.choice([0, 1]))
            sc.add("end")
        else:
            req(sc, 0, ua="Evil/1", create=r.choice([0, 1]))
            sc.add("end")
        for _ in range(r.randint(2, 7)):
            x = r.random()
            if x < 0.15:
                sc.add(r.choice(["crash", "dropcache", "purge"]))
            elif x < 0.3:
                sc.add("wait", r.choice([1, 2]) * U)
            else:
                req(sc, r.choice([0, 1, 2]), spec=r.choice(["jar", "val:g%d" % r.randrange(ids)]), create=r.choice([0, 1]))
                if r.random() < 0.3:
                    sc.add("h get k0")
                sc.add("end")
        out.append(("C07-%d" % i, sc.text()))
    return out


def fam_C08(seed, n):
    out = []
    for i in range(n):
        r = rnd_for(seed, "C08", i)
        codec = r.choice(["gob", "json"])
        U = unit(codec)
        cfg = base_cfg(maxCache=r.choice([-1, -1, 0, 1, 2, 3]), grace=r.choice([0, 3 * U, 50 * U]))
        sc = Script()
        emit_cfg(sc, codec, cfg, None, r)
        SALT[0] = ".%d" % r.randint(0, 9999)
        ns = r.randint(2, 4)
        users = ["u0", "u1", "u2"]
        for c in range(ns):
            req(sc, c)
            if r.random() < 0.7:
                sc.add("h login", r.choice(users), r.choice([0, 0, 1]))
            sc.add("end")
        if r.random() < 0.15:
            # a client that still carries the cookie of a session that no longer exists logs in: the response then holds a
            # deletion cookie, the cookie of the new session and the cookie of the id the login switched to - in that order
            c = r.randrange(ns, len(CLIENTS))
            req(sc, c, spec="val:g%d" % r.choice([40, 41, 57]), create=1)
            sc.add("h login", r.choice(users), r.choice([0, 1]))
            sc.add("end")
            req(sc, c)
            sc.add("h user")
            sc.add("end")
        switched = False
        for _ in range(r.randint(3, 10)):
            x = r.random()
            if not switched and cfg["maxCache"] != 0 and r.random() < 0.12:
                # the cache is switched off (or made tiny) at runtime while logged-in sessions are cached
                sc.add("cfg maxCache", r.choice([0, 0, 1]))
                switched = True
            if x < 0.4:
                req(sc, r.randrange(ns))
                y = r.random()
                if y < 0.4:
                    sc.add("h login", r.choice(users), r.choice([0, 1]))
                elif y < 0.6:
                    if r.random() < 0.3:
                        # a logout whose save fails (the session is user-less in memory, the record still carries the user),
                        # then a global logout or an exclusive login elsewhere, which must still clear that record
                        sc.add("fault save * 0")
                        sc.add("h logout")
                        sc.add("end")
                        u = r.choice(users)
                        if r.random() < 0.6:
                            for uu in ([u] if r.random() < 0.5 else users):
                                sc.add("logoutuser", uu)
                        else:
                            req(sc, r.randrange(ns))
                            sc.add("h login", u, 1)
                            sc.add("end")
                        continue
                    sc.add("h logout")
                elif y < 0.75:
                    sc.add("h user")
                elif y < 0.85:
                    sc.add("h destroy")
                sc.add("end")
            elif x < 0.55:
                sc.add("logoutuser", r.choice(users))
            elif x < 0.7:
                sc.add("refresh", r.choice(users))
            elif x < 0.8:
                sc.add("stale", r.choice(users), "g%d" % r.choice([0, 1, 2, 3, 5, 8, 40]))
            elif x < 0.9:
                sc.add(r.choice(["purge", "dropcache", "crash"]))
            else:
                sc.add("wait", r.choice([1, 4]) * U)
        out.append(("C08-%d" % i, sc.text()))
    return out


def fam_C09(seed, n):
    out = []
    for i in range(n):
        r = rnd_for(seed, "C09", i)
        codec = r.choice(["gob", "json"])
        U = unit(codec)
        cfg = base_cfg(maxCache=r.choice([-1, 0, 0, 1, 1, 2]), cacheExpiry=r.choice([MAX, 2 * U]),
                       idExpiry=r.choice([MAX, 0, 3 * U]), grace=r.choice([0, 5 * U]))
        sc = Script()
        emit_cfg(sc, codec, cfg, None, r)
        SALT[0] = ".%d" % r.randint(0, 9999)
        ns = r.randint(1, 3)
        nv = 0
        for _ in range(r.randint(4, 12)):
            x = r.random()
            if x < 0.7:
                req(sc, r.randrange(ns))
                for _ in range(r.randint(1, 3)):
                    y = r.random()
                    nv += 1
                    if y < 0.3:
                        line = ("h set", r.choice(["k0", "k1"]), r.choice(["s" + hx("v%d" % nv), "i%d" % nv, "b1"]))
                        if r.random() < 0.08:
                            # the save fails, the application retries the same call
                            sc.add("fault save * 0")
                            sc.add(*line)
                        sc.add(*line)
                    elif y < 0.42:
                        sc.add("h del", r.choice(["k0", "k1"]))
                    elif y < 0.57:
                        sc.add("h getdel", r.choice(["k0", "k1"]))
                    elif y < 0.67:
                        sc.add("h login", r.choice(["u0", "u1"]), r.choice([0, 1]))
                    elif y < 0.75:
                        sc.add("h logout")
                    elif y < 0.85:
                        sc.add("h regen")
                    else:
                        sc.add("h get", r.choice(["k0", "k1"]))
                sc.add("end")
                if r.random() < 0.35:
                    sc.add(r.choice(["dropcache", "crash", "dropcache"]))
            elif x < 0.8:
                sc.add("refresh", r.choice(["u0", "u1"]))
            elif x < 0.88:
                sc.add("logoutuser", r.choice(["u0", "u1"]))
            else:
                sc.add("wait", r.choice([1, 3]) * U)
        out.append(("C09-%d" % i, sc.text()))
    return out


def fam_C10_base(seed, n):
    """base histories containing id changes; the crash variants are derived from their transcripts"""
    out = []
    for i in range(n):
        r = rnd_for(seed, "C10", i)
        codec = r.choice(["gob", "json"])
        U = unit(codec)
        cfg = base_cfg(maxCache=r.choice([-1, -1, 1, 2, 0]), idExpiry=r.choice([MAX, 2 * U, 0, 40 * U]), grace=r.choice([0, 5 * U, 50 * U]),
                       cacheExpiry=r.choice([MAX, 2 * U]), sessionExpiry=r.choice([MAX, MAX, 30 * U, 100 * U]))
        sc = Script()
        if r.random() < 0.25:
            # a slow parallel request of the same client: it still carries the session's FIRST id, several id changes back
            # (all inside one long grace period), changes the id once more - and the process stops inside that change
            cfg.update(idExpiry=MAX, grace=50 * U, sessionExpiry=MAX)
            emit_cfg(sc, codec, cfg, None, r)
            SALT[0] = ".%d" % r.randint(0, 9999)
            req(sc, 0)
            sc.add("h set k0 s" + hx("ack0"))
            for _ in range(r.randint(1, 4)):
                sc.add(r.choice(["h regen", "h regen", "h login u0 0"]))
            sc.add("end")
            req(sc, 1, spec="val:g0", create=0)
            sc.add(r.choice(["h regen", "h login u1 0", "h login u0 1"]))
            sc.add("end")
            sc.add("//FOLLOWUP")
            req(sc, 1, spec="val:g0", create=0)
            sc.add("h get k0")
            sc.add("end")
            out.append(("C10-%d" % i, sc.text()))
            continue
        emit_cfg(sc, codec, cfg, None, r)
        SALT[0] = ".%d" % r.randint(0, 9999)
        for c in range(r.randint(1, 2)):
            req(sc, c)
            sc.add("h set k0 s" + hx("ack%d" % c))
            if r.random() < 0.4:
                sc.add("h login u0 0")
            sc.add("end")
        if r.random() < 0.5:
            sc.add("wait", 3 * U)
        # the id-changing request
        req(sc, 0)
        y = r.random()
        if y < 0.35:
            sc.add("h regen")
        elif y < 0.7:
            sc.add("h login", r.choice(["u0", "u1"]), r.choice([0, 1]))
        sc.add("end")
        # follow-up: old and new id
        sc.add("//FOLLOWUP")
        req(sc, 0)
        sc.add("h get k0")
        sc.add("end")
        out.append(("C10-%d" % i, sc.text()))
    return out


def fam_C12(seed, n):
    out = []
    for i in range(n):
        r = rnd_for(seed, "C12", i)
        codec = r.choice(["gob", "gob", "json"])
        U = unit(codec)
        cfg = base_cfg(maxCache=r.choice([-1, 0, 1, 1, 2, 2, 3]), cacheExpiry=r.choice([MAX, 100 * U, 2 * U, U]),
                       idExpiry=r.choice([MAX, MAX, 3 * U]), grace=r.choice([0, 2 * U, 50 * U]))
        sc = Script()
        emit_cfg(sc, codec, cfg, None, r)
        SALT[0] = ".%d" % r.randint(0, 9999)
        ns = r.randint(2, 5)
        minted = 0
        for _ in range(r.randint(5, 16)):
            x = r.random()
            if x < 0.55:
                if minted > 1 and r.random() < 0.2:
                    # a request that still carries an older id (a replaced one inside its grace period reaches the live session,
                    # which is then the most recently used one)
                    req(sc, r.randrange(ns), spec="val:g%d" % r.randrange(minted), create=0)
                    sc.add("end")
                    continue
                req(sc, r.randrange(ns))
                minted += 1
                y = r.random()
                if y < 0.15:
                    sc.add("h regen")
                    minted += 1
                elif y < 0.22:
                    sc.add("h destroy")
                elif y < 0.4:
                    sc.add("h set k0 i%d" % r.randint(0, 99))
                elif y < 0.5:
                    sc.add("h login u0 0")
                sc.add("end")
            elif x < 0.78:
                sc.add("wait", r.choice([1, 1, 2, 3, 5]) * U)
            elif x < 0.84:
                sc.add("purge")
            elif x < 0.9:
                # a cache write that only UPDATES cached sessions (after a wait or a lowered limit)
                sc.add(r.choice(["refresh u0", "logoutuser u0"]))
            else:
                sc.add("cfg maxCache", r.choice([-1, 0, 1, 2, 3]))
        out.append(("C12-%d" % i, sc.text()))
    return out


def fam_C18(seed, n):
    out = []
    for i in range(n):
        r = rnd_for(seed, "C18", i)
        out.append(("C18-%d" % i, gen.general(r, nsteps=r.choice([15, 25]), features=("cookie", "forged"))))
    # redirect cookies along reference chains of every length (the C05 family has chains of up to 14 id changes in one grace period)
    for name, text in fam_C05(seed + 3, max(4, n // 4)):
        out.append((name.replace("C05-", "C18-chain-"), text))
    return out


def fam_general(seed, n, features=("forged", "cfgchange", "dropcache", "crash", "cookie"), steps=40):
    out = []
    for i in range(n):
        r = rnd_for(seed, "general", i)
        out.append(("gen-%d" % i, gen.general(r, nsteps=steps, features=features + (("aligned",) if i % 3 == 2 else ()))))
    return out


def align(script):
    """The same history with every request on an exact multiple of the time unit: `wait k*U` becomes `waitto` the k-th next grid
    instant and a request that does not follow a wait moves to the next one. Idle times, id ages and cache ages then EQUAL the
    configured durations whenever the waits add up to them (the boundaries of C03, C04, C05, C12)."""
    lines = script.rstrip("\n").split("\n")
    U = SEC if any(l.strip() == "codec json" for l in lines) else MS
    g = 0
    fresh = False
    out = []
    for l in lines:
        t = l.split()
        if t and t[0] == "wait" and t[1] != "max" and int(t[1]) > 0 and int(t[1]) % U == 0:
            g += int(t[1]) // U
            out.append("waitto %d" % (g * U))
            fresh = True
            continue
        if t and t[0] == "req":
            if not fresh:
                g += 1
                out.append("waitto %d" % (g * U))
            fresh = False
        elif t and t[0] not in ("cfg", "cookiecfg", "codec", "tz", "fault", "crashinside", "stale"):
            fresh = False
        out.append(l)
    return "\n".join(out) + "\n"


def with_aligned(scripts, seed, share=0.35):
    """a deterministic share of the histories in their grid-aligned form"""
    out = []
    for name, text in scripts:
        if random.Random("%d/align/%s" % (seed, name)).random() < share:
            out.append((name + "-al", align(text)))
        else:
            out.append((name, text))
    return out


FAMILIES = {"C01": fam_C01, "C02": fam_C02, "C03": fam_C03, "C04": fam_C04, "C05": fam_C05, "C06": fam_C06, "C07": fam_C07,
            "C08": fam_C08, "C09": fam_C09, "C12": fam_C12, "C18": fam_C18}


# ---------------------------------------------------------------------------
# two-pass families

def crash_variants(name, script, blocks):
    """C10: for every API call of the base history that changed an id (a reference save among its events), one
    variant per store-mutation boundary: crashinside k before that call, then restart and follow-up requests."""
    out = []
    lines = script.rstrip("\n").split("\n")
    for b in blocks:
        muts = [e for e in b.evs if (e[0] in ("save", "del")) and e[-1] != "fail"]
        # an id change: a save of a record that refers on - or of one the package's own decoder cannot read back (then nobody knows)
        changes = any(e[0] == "save" and (any(t.startswith("rf=") and t != "rf=-" for t in e[2:]) or "undecodable" in e[2:]) for e in b.evs)
        if not changes:
            continue
        for k in range(len(muts) + 1):
            v = list(lines)
            v.insert(b.idx, "crashinside %d" % k)
            out.append(("%s@%d/%d" % (name, b.idx, k), "\n".join(v) + "\n"))
    return out


def fault_crash_variants(name, script, blocks):
    """C10: for every API call of the base history that changed an id, one variant per save of that call: that save fails
    (the call reports it), the response goes out, the process restarts, the client comes back with whatever it holds."""
    out = []
    lines = script.rstrip("\n").split("\n")
    for b in blocks:
        saves = [e for e in b.evs if e[0] == "save"]
        # an id change: a save of a record that refers on - or of one the package's own decoder cannot read back (then nobody knows)
        changes = any(e[0] == "save" and (any(t.startswith("rf=") and t != "rf=-" for t in e[2:]) or "undecodable" in e[2:]) for e in b.evs)
        if not changes:
            continue
        # the request's `end` line
        end = b.idx
        while end < len(lines) and lines[end].strip() != "end":
            end += 1
        if end >= len(lines):
            continue
        for k in range(len(saves)):
            v = list(lines)
            v.insert(end + 1, "crash")
            v.insert(b.idx, "fault save * %d" % k)
            out.append(("%s!%d.save.%d+crash" % (name, b.idx, k), "\n".join(v) + "\n"))
    return out


def fault_variants(name, script, blocks, pairs=False, rnd=None, limit=None):
    """C11: one variant per persistence call of the base history (fault there); optionally pairs."""
    lines = script.rstrip("\n").split("\n")
    sites = []
    for b in blocks:
        counts = {}
        for e in b.evs:
            if e[0] in ("load", "save", "del", "users", "user"):
                key = (e[0], e[1])
                occ = counts.get(key, 0)
                counts[key] = occ + 1
                sites.append((b.idx, e[0], e[1], occ))
    out = []
    if not pairs:
        for (idx, kind, idv, occ) in sites:
            v = list(lines)
            # a failed key/value or logout call is retried by the application
            if kind == "save" and lines[idx].startswith(("h set", "h del", "h logout")):
                v.insert(idx + 1, lines[idx])
            v.insert(idx, "fault %s %s %d" % (kind, idv, occ))
            out.append(("%s!%d.%s.%d" % (name, idx, kind, occ), "\n".join(v) + "\n"))
    else:
        combos = [(a, b) for i, a in enumerate(sites) for b in sites[i + 1:]]
        if limit and len(combos) > limit:
            combos = rnd.sample(combos, limit)
        for a, b in combos:
            v = list(lines)
            # insert the later one first so indices stay valid
            for (idx, kind, idv, occ) in sorted([a, b], key=lambda s: -s[0]):
                v.insert(idx, "fault %s %s %d" % (kind, idv, occ))
            out.append(("%s!!%d.%d" % (name, a[0], b[0]), "\n".join(v) + "\n"))
    return out
