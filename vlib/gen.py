"""Seeded script generators for the session life-cycle checks (one PRNG per script)."""
import random

MS = 1_000_000
SEC = 1_000_000_000
MAX = "max"


def hx(s):
    return s.encode().hex()


def qs(s):
    """script rendering of a string (mirror of harness q())"""
    if s == "":
        return "~"
    ok = all(c.isalnum() and c.isascii() or c in "+/=._-:" for c in s)
    return s if ok else "~" + s.encode("utf-8", errors="surrogateescape").hex()


class Script:
    def __init__(self):
        self.lines = []

    def add(self, *toks):
        self.lines.append(" ".join(str(t) for t in toks))

    def text(self):
        return "\n".join(self.lines) + "\n"


CFG_DEFAULT = dict(sessionExpiry=MAX, idExpiry=MAX, grace=0, cacheExpiry=MAX, acceptIP=1, acceptUA=1, maxCache=-1)


ZONES = ["Asia/Kolkata", "America/St_Johns", "Pacific/Chatham", "America/Los_Angeles", "Europe/Berlin"]


def emit_cfg(sc, codec, cfg, cookie=None, rnd=None):
    if rnd is not None and rnd.random() < 0.3:
        sc.add("tz", rnd.choice(ZONES))
    sc.add("codec", codec)
    for k in ("sessionExpiry", "idExpiry", "grace", "cacheExpiry", "acceptIP", "acceptUA", "maxCache"):
        sc.add("cfg", k, cfg[k])
    if cookie:
        sc.add("cookiecfg", *["%s=%s" % (k, v) for k, v in cookie.items()])


def pick_cfg(rnd, U, profile="general"):
    def dur(choices):
        c = rnd.choice(choices)
        return c if c == MAX else c * U
    cfg = dict(
        sessionExpiry=dur([MAX, MAX, 20, 8, 6, 3] + ([0] if rnd.random() < 0.05 else []) + ([-1] if rnd.random() < 0.02 else [])),
        idExpiry=dur([MAX, 0, 2, 2, 5, 5, 9] + ([-3] if rnd.random() < 0.03 else [])),
        grace=dur([0, 1, 3, 3, 10, 10] + ([MAX] if rnd.random() < 0.1 else []) + ([-2] if rnd.random() < 0.03 else [])),
        cacheExpiry=dur([MAX, 100, 4, 4, 1] + ([0] if rnd.random() < 0.05 else []) + ([-1] if rnd.random() < 0.02 else [])),
        acceptIP=rnd.choice([1, 1, 1, 2, 3, 4, 5] + ([0, -1, 7] if rnd.random() < 0.05 else [])),
        acceptUA=rnd.choice([0, 1]),
        maxCache=rnd.choice([-1, 0, 1, 1, 2, 2, 3, 100] + ([-7] if rnd.random() < 0.03 else [])),
    )
    return cfg


class Client:
    def __init__(self, i, rnd=None):
        self.name = "c%d" % i
        self.ip = "10.%d.0.1:%d" % (i, 4000 + i)
        # the user-agent string varies per history so that its 64-bit fingerprint covers the whole range (incl. >= 2^63)
        self.ua = "Agent/%d.%d" % (i, rnd.randint(0, 9999) if rnd else 0)
        self.n = 0


def general(rnd, nsteps=30, codec=None, U=None, cfg=None, nclients=None, features=()):
    """A general history over the grammar of DESIGN.md §4. features: crash, faults, forged, cfgchange, cookie, dropcache."""
    codec = codec or rnd.choice(["gob", "gob", "json"])
    U = U or (SEC if codec == "json" else MS)
    cfg = cfg or pick_cfg(rnd, U)
    sc = Script()
    cookie = None
    if "cookie" in features:
        cookie = dict(name=rnd.choice(["id", "sid", "SESS-x"]), domain=rnd.choice(["-", "example.com", "a.b.example.org"]),
                      path=rnd.choice(["-", "/", "/app"]), secure=rnd.choice([0, 1]), httponly=rnd.choice([0, 1]),
                      samesite=rnd.choice([0, 1, 2, 3, 4]), maxage=rnd.choice([0, 3600, 315360000]),
                      expoff=rnd.choice([0, 3600, 315360000]))
        if rnd.random() < 0.3:
            # NewSessionCookie hands out one template object again and again (the package only sets name and value on it)
            cookie["shared"] = 1
    emit_cfg(sc, codec, cfg, cookie, rnd)
    clients = [Client(i, rnd) for i in range(nclients or rnd.randint(1, 4))]
    minted = 0  # upper bound on ids minted so far (for forged 'dead id' picks)
    users = ["u0", "u1"]
    keys = ["k0", "k1", "k2"]
    # "aligned": every request starts on an exact multiple of the time unit (`waitto`), so that idle times, id ages and cache
    # ages EQUAL to a configured duration occur (the boundaries "at least"/"younger than"/"longer than" of C03, C04, C05, C12)
    aligned = "aligned" in features
    grid = 0

    def slot(k):
        nonlocal grid
        grid += k
        sc.add("waitto", grid * U)
    for _ in range(nsteps):
        r = rnd.random()
        if r < 0.58:
            c = rnd.choice(clients)
            if aligned and rnd.random() < 0.85:
                slot(rnd.choice([1, 1, 1, 2, 2, 3, 4]))
            spec = "jar"
            if "forged" in features and rnd.random() < 0.25:
                spec = forged_spec(rnd, minted)
            ip, ua = c.ip, c.ua
            if cfg["acceptIP"] == 1 and rnd.random() < 0.2:
                ip = "10.%d.%d.%d:%d" % (rnd.randint(0, 9), rnd.randint(0, 3), rnd.randint(1, 9), rnd.randint(1000, 9999))
            elif rnd.random() < 0.1:
                # change only the last octet / port: always legitimate for acceptIP <= 4
                p = c.ip.split(":")[0].split(".")
                ip = "%s.%s.%s.%d:%d" % (p[0], p[1], p[2], rnd.randint(1, 250), rnd.randint(1000, 9999))
            if cfg["acceptUA"] == 1 and rnd.random() < 0.2:
                ua = rnd.choice(["", "Other/1", c.ua])
            create = 1 if rnd.random() < 0.85 else 0
            sc.add("req", c.name, spec, qs(ip), qs(ua) if ua else "-", create)
            minted += 3
            nh = rnd.choice([0, 0, 1, 1, 2, 3])
            for _ in range(nh):
                h = rnd.random()
                if h < 0.35:
                    c.n += 1
                    x = rnd.random()
                    if x < 0.6:
                        v = "s" + hx("%s_%d" % (c.name, c.n))
                    elif x < 0.7:
                        v = "l" + hx("%s_%d" % (c.name, c.n % 3))  # a slice value (not comparable with ==), sometimes set twice
                    else:
                        v = "i%d" % rnd.randint(-5, 1000)
                    sc.add("h set", rnd.choice(keys), v)
                elif h < 0.45:
                    sc.add("h del", rnd.choice(keys))
                elif h < 0.55:
                    sc.add("h get", rnd.choice(keys))
                elif h < 0.62:
                    sc.add("h getdel", rnd.choice(keys))
                elif h < 0.72:
                    sc.add("h login", rnd.choice(users), rnd.choice([0, 1]))
                    minted += 2
                elif h < 0.78:
                    sc.add("h logout")
                elif h < 0.86:
                    sc.add("h regen")
                    minted += 2
                elif h < 0.90:
                    sc.add("h expired")
                elif h < 0.94:
                    sc.add("h lastaccess")
                elif h < 0.97:
                    sc.add("h user")
                else:
                    sc.add("h destroy")
                    break
            sc.add("end")
        elif r < 0.80:
            if aligned:
                slot(rnd.choice([1, 1, 2, 3, 4, 5, 7, 9, 12, 25]))
            else:
                sc.add("wait", rnd.choice([1, 1, 2, 3, 4, 5, 7, 9, 12, 25]) * U)
        elif r < 0.84:
            sc.add("purge")
        elif r < 0.87:
            sc.add("logoutuser", rnd.choice(users))
        elif r < 0.90:
            sc.add("refresh", rnd.choice(users))
        elif r < 0.93 and "cfgchange" in features:
            sc.add("cfg maxCache", rnd.choice([-1, 0, 1, 2, 3]))
        elif r < 0.95 and "dropcache" in features:
            sc.add("dropcache")
        elif r < 0.97 and "crash" in features:
            sc.add("crash")
        elif r < 0.99 and minted > 0:
            sc.add("expired", "g%d" % rnd.randrange(minted))
        elif aligned:
            slot(1)
        else:
            sc.add("wait", U)
    return sc.text()


def forged_spec(rnd, minted):
    r = rnd.random()
    if r < 0.3 and minted > 0:
        return "val:g%d" % rnd.randrange(max(1, minted))
    if r < 0.4:
        return "val:deleted"
    if r < 0.55:
        n = rnd.choice([0, 1, 8, 23, 24, 24, 25, 32, 64])
        s = "".join(rnd.choice("ABCDEFGHIJKLMNOPQRSTUVWXYZabcdefghijklmnopqrstuvwxyz0123456789+/") for _ in range(n))
        if n == 24 and rnd.random() < 0.5:
            s = s[:22] + "=="
        return "val:" + qs(s) if s else "none"
    if r < 0.7:
        return "val:g%d" % (10_000 + rnd.randrange(1000))  # an id the server never minted in this run
    if r < 0.85:
        # a raw header with odd syntax
        raw = rnd.choice(['id="abc"', "id=a b", "id=x; id=y", "other=1", "id=", "id=\xe4\xf6", "id=aaaaaaaaaaaaaaaaaaaaaaaa; id=bbbbbbbbbbbbbbbbbbbbbbbb"])
        return "raw:" + qs(raw)
    return "none"
