"""Directed concurrent families that judge a life-cycle property on real goroutines (harness/conc.go, race build, real clock).

The request-granularity model treats `cache.Get`, `cache.Set`, `cache.Delete`, `PurgeSessions` as atomic steps; the
regenerated fact `FactsCacheAtomic.cache_store_calls_locked` says the source still makes them so. These families look for a
concrete schedule on which that atomicity (or the one-object-per-cached-session rule that follows from it) is violated
in a way the property itself forbids:

* `cleanup_race` (C05 "…and nothing afterwards"): replaced IDs with a grace period of a few milliseconds, a purged cache,
  requests presenting the replaced IDs and PurgeSessions calls while the package's clean-up goroutines delete them.
  Afterwards a replaced ID is neither cached nor stored and yields no session. Harness lines `graceover …`.
* `load_race` (C09/C12/C01): a purged session is reached at once through its current ID, through a replaced ID and by
  RefreshUser/LogOut(userID); the cache is large and nothing purges, so there is one object for it; afterwards the handles
  the requests got are the cached object and that object agrees with the stored record. Harness lines `incoherent …`.

Both use the slow store (`storedelay`): LoadSession, SaveSession and DeleteSession wait a random while before they touch
the records and LoadSession again before it returns.
"""
import concurrent.futures
import os
import random
import re

from . import env
from .check import write_replay
from .check_c15 import HOUR, run_scenario

FAMILIES = {
    "cleanup-race": ("graceover", "cleanup_iterations",
                     "a replaced ID was still cached, stored or served after its grace period and clean-up"),
    "load-race": ("incoherent", "load_iterations",
                  "concurrent requests for one cached session got different objects, or the cached object and the stored record disagree"),
}


def scripts(family, tier, seed):
    rnd = random.Random(seed * 7919 + len(family))
    quick = tier == "quick"
    out = []
    for i in range(4 if quick else 40):
        delay = [(1000, 400), (800, 1200), (1000, 150), (1000, 700)][i % 4]
        if family == "cleanup-race":
            body = "iters %d\ninflight %d\nhops 1\ncache %d\nidexpiry %d\ngrace %d\n" % (
                25 if quick else 80, rnd.choice([2, 3, 4]), [64, 64, 2, 64][i % 4], HOUR, 10_000_000)
        else:
            body = "iters %d\ninflight 2\nhops 1\ncache 1024\nidexpiry %d\ngrace %d\n" % (80 if quick else 300, HOUR, HOUR)
        out.append(("%s:%d" % (family, i),
                    "directed %s\nseed %d\ncodec %s\nhist 0\nstoredelay %d %d\ndeadline %d\n%s" % (
                        family, rnd.randrange(1, 1 << 30), ["gob", "json"][i % 2], delay[0], delay[1], 25_000 if quick else 90_000, body)))
    return out


def run(rep, prop, family, tier, seed, counter):
    """runs the family, reports at most one violation of `prop` (the shortest affected scenario as replay); returns the
    number of violations reported. env.BuildError is the caller's business."""
    tag, iters_stat, headline = FAMILIES[family]
    hbin = env.build_harness("race")
    scen = scripts(family, tier, seed)
    with env.scratch("verif-conc-") as d:
        with concurrent.futures.ThreadPoolExecutor(max_workers=max(2, env.NCPU // 4)) as pool:
            futs = [pool.submit(run_scenario, hbin, n, s, d) for n, s in scen]
            results = [f.result() for f in futs]
        lines = {}
        for r in results:
            path = os.path.join(d, re.sub(r"[^A-Za-z0-9]", "_", r.name) + ".out")
            got = []
            if os.path.exists(path):
                with open(path, errors="replace") as f:
                    got = [l.rstrip("\n") for l in f if l.startswith(tag + " ")]
            lines[r.name] = got
    key = family.replace("-", "_")
    rep.cov[key + "_scenarios"] = len(results)
    rep.cov[key + "_iterations"] = sum(r.stats.get(iters_stat, 0) for r in results)
    rep.cov[key + "_requests"] = sum(r.stats.get("requests", 0) for r in results)
    rep.cov[key + "_reports"] = sum(len(v) for v in lines.values())
    rep.cov[key + "_other_reports"] = sum(len(r.races) + len(r.panics) + (1 if r.stuck else 0) + (1 if r.crash else 0) for r in results)
    rep.cov[key + "_infrastructure_errors"] = sum(1 for r in results if r.infra or (r.stats.get(iters_stat, 0) == 0 and not lines[r.name]))
    bad = sorted((r for r in results if lines[r.name]), key=lambda r: len(lines[r.name]))
    if not bad:
        return 0
    r = bad[0]
    first = lines[r.name][0].split(" ", 3)
    counter[0] += 1
    what = "%s (%s; iteration %s of scenario %s, %d of %d scenarios affected): %s" % (
        headline, first[2], first[1], r.name, len(bad), len(results), first[3] if len(first) > 3 else "")
    p = write_replay(prop, counter[0], [prop + " violated under concurrency: " + what,
                                        "harness -mode conc (race build): the script below, then the harness's %s lines" % tag,
                                        "replay: /verif/.cache/<tree>/h_race -mode conc -script <this file> -out <transcript>; grep ^%s <transcript>" % tag],
                     r.script + "".join("# " + l + "\n" for l in lines[r.name][:40]), ext="concscript")
    rep.violation(p, what)
    return 1


TAGS = {"cleanup-race": "graceover", "load-race": "incoherent", "destroy-race": "resurrect"}


def replay(rep, prop, path, repeats=3):
    """`bin/check Cxx --replay <file>.concscript`: run the recorded scenario again (a few times: schedules vary) on the current tree"""
    with open(path) as f:
        script = "".join(l for l in f if l.strip() and not l.startswith(("//", "#")))
    m = re.search(r"^directed (\S+)", script, re.M)
    family = m.group(1) if m else "?"
    tag = TAGS.get(family)
    if tag is None:
        rep.say("not a scenario of a concurrent family: " + path)
        return 0
    hbin = env.build_harness("race")
    found = []
    with env.scratch("verif-concr-") as d:
        for i in range(repeats):
            name = "replay:%d" % i
            r = run_scenario(hbin, name, script, d)
            out = os.path.join(d, re.sub(r"[^A-Za-z0-9]", "_", name) + ".out")
            if os.path.exists(out):
                with open(out, errors="replace") as f:
                    found += [l.rstrip("\n") for l in f if l.startswith(tag + " ")]
            if found:
                break
    rep.cov["replayed_scenario"] = family
    rep.cov["replay_runs"] = i + 1
    rep.cov["replay_reports"] = len(found)
    if found:
        first = found[0].split(" ", 3)
        what = "%s (replayed scenario, %s; iteration %s): %s" % (FAMILIES.get(family, ("", "", "an ended session was obtainable after the ending call had returned"))[2],
                                                               first[2], first[1], first[3] if len(first) > 3 else "")
        rep.violation(path, what)
        return 1
    return 0
