"""C15 — concurrent use is data-race free, panic free, and key/value operations on one session are atomic.

Proof part. `Drf.conflict_separated` (generic: lock discipline => conflicting accesses of different threads are
separated by a release and a later acquire) plus the theorems of Sessions/FactsLocks.lean about the access table the
go/ast extractor regenerates from /repo's current tree on every run (`lockDiscipline_ok`, `compact_called_locked`,
`referenceID_write_once`, `nothing_unrecognised`, ...) and `kv_single_section` (each key/value method has one critical
section). A fact theorem that stops checking triggers the search below; if the search finds nothing the violation is
reported as `no-failing-input-found`, naming the theorem and the offending rows of the table.

Search part. The harness built with `go build -race` runs seeded concurrent scenarios (harness/conc.go): directed
schedules, one for each pair of accesses that was unguarded before fix 6e35682 (F8), and a random generator (several
clients x several in-flight requests sharing session objects through the cache, rotation on every request, caches of
size 0/1/2/64, gob and JSON, all Session methods, CUID, PurgeSessions, the serialising store). Judged per run:
  * reports of the race detector with a frame of github.com/rivo/sessions (non-test file) in one of the two stacks;
  * recovered panics, runtime fatal errors (e.g. "concurrent map writes"), goroutines still blocked at the deadline;
  * the recorded call/return history of Set/Get/Delete/GetAndDelete per session object against a sequential map
    (values are unique): a value read was written by a Set called before the read returned; GetAndDelete hands a
    value out at most once per object; no read of a value whose deletion/overwriting completed before the read was
    called (and that was written before that deletion was called); no "nothing stored" answer while a completed
    Set cannot have been undone.
"""
import concurrent.futures
import glob
import os
import random
import re
import subprocess
import time

from . import env, facts
from .check import Report, lean_part, write_replay
from .obligations import FACT_OBLIGATIONS, OBLIGATIONS, TRUSTED_BASE

PKG = "github.com/rivo/sessions."
HOUR = 3600 * 10**9

KV_MIX = "set=6,get=4,del=2,getdel=6,lastaccess=1,enc=1"
AUTH_MIX = "set=2,get=2,getdel=1,login=3,loginx=2,logout=3,regen=3,user=3,lastaccess=1,expired=1,enc=2,dec=1,destroy=1"
DESTROY_MIX = "set=3,get=2,getdel=1,login=1,logout=1,regen=1,user=2,lastaccess=1,expired=1,enc=1,destroy=5"
DIRECTED = ["start-ua", "compact", "id-set", "id-delete", "id-logout", "id-login", "id-destroy", "regen-fields", "login-leak", "destroy-race"]
PARAMS = ("clients", "inflight", "reqs", "hops", "seed", "cache", "codec", "idexpiry", "grace", "sessionexpiry", "cacheexpiry", "keys", "mix",
          "cuid", "purge", "hist", "deadline", "directed", "iters", "savefail")


# ---------------------------------------------------------------------------
# scenarios

def directed_script(name, iters, deadline_ms):
    cache = {"compact": 4, "login-leak": 4096}.get(name, 64)
    if name == "destroy-race":
        # sessions are ended while other requests present their IDs (C07 judges the outcome, see vlib/conc07.py; here: races, panics)
        return "directed destroy-race\niters %d\ninflight 4\nhops 6\ncache 64\nidexpiry %d\ngrace %d\nhist 0\nstoredelay 1000 200\ndeadline %d\n" % (
            max(20, iters // 2), HOUR, HOUR, deadline_ms)
    if name == "regen-fields":
        iters = max(20, iters // 3)  # the chain of replaced IDs makes each round longer
    return "directed %s\niters %d\ncache %d\nidexpiry %d\ngrace %d\nhist 0\ndeadline %d\n" % (name, iters, cache, HOUR, HOUR, deadline_ms)


def random_script(rnd, i, reqs, deadline_ms, boost=None):
    cache = [0, 1, 2, 64, 2, 1][i % 6]
    codec = ["gob", "json"][(i // 2) % 2]
    hist = 1 if i % 3 != 0 else 0  # a third of the runs keep the goroutines free of the history's atomic counter
    kind = boost or ["default", "kv", "auth"][i % 3]
    if not boost and i % 7 == 6:
        kind = "destroy"
    p = {"clients": rnd.choice([1, 2, 3, 4]), "inflight": rnd.choice([2, 3, 4, 6]), "reqs": reqs, "hops": rnd.choice([3, 4, 6]),
         "seed": rnd.randrange(1, 1 << 30), "cache": cache, "codec": codec,
         "idexpiry": rnd.choice([0, 0, 0, 2_000_000, HOUR]), "grace": rnd.choice([5_000_000, 20_000_000, 200_000_000]),
         "keys": rnd.choice([1, 2, 3]), "cuid": rnd.choice([1, 2]), "purge": rnd.choice([0, 1, 1]), "hist": hist, "deadline": deadline_ms}
    if kind == "kv":
        # many concurrent key/value operations on few objects and keys
        p.update({"mix": KV_MIX, "clients": rnd.choice([1, 2]), "inflight": rnd.choice([4, 6, 8]), "hops": rnd.choice([8, 12]), "keys": rnd.choice([1, 1, 2]),
                  "cache": rnd.choice([64, 64, 2]), "idexpiry": rnd.choice([0, HOUR, HOUR]), "hist": 1, "reqs": max(10, reqs // 2)})
        if rnd.random() < 0.4:
            # a store that fails one save in ten: a failed Set/Delete reports its error and stays ONE step (no second
            # critical section that puts an old value back over a write that completed in between)
            p["savefail"] = 100
    elif kind == "auth":
        p.update({"mix": AUTH_MIX, "cache": rnd.choice([64, 64, 2, 1])})
    elif kind == "destroy":
        # sessions end often while other in-flight requests of the same client still use them
        p.update({"mix": DESTROY_MIX, "cache": rnd.choice([64, 2, 1]), "clients": rnd.choice([1, 2]), "inflight": rnd.choice([4, 6])})
    return "".join("%s %s\n" % (k, p[k]) for k in PARAMS if k in p)


def kv_plain_script(rnd, reqs, deadline_ms):
    """many key/value operations by many requests on one object and one or two keys, for the plain (fast) build"""
    fail = "savefail 100\n" if rnd.random() < 0.35 else ""
    return ("clients 1\ninflight %d\nreqs %d\nhops %d\nseed %d\ncache %d\ncodec %s\nidexpiry %d\ngrace 20000000\nkeys %d\n"
            "mix set=4,get=2,del=1,getdel=8\ncuid 0\npurge 0\nhist 1\ndeadline %d\n%s" % (
                rnd.choice([4, 8, 12]), reqs, rnd.choice([10, 20]), rnd.randrange(1, 1 << 30), rnd.choice([64, 64, 2]), rnd.choice(["gob", "json"]),
                rnd.choice([HOUR, HOUR, 50_000_000]), rnd.choice([1, 1, 2]), deadline_ms, fail))


def scenarios(tier, seed, boost=False):
    """[(name, script, harness kind)]"""
    rnd = random.Random(seed * 7919 + 15)
    quick = tier == "quick"
    dl = 40_000 if quick else 90_000
    out = []
    for rep_i in range(1 if quick else 3):
        for d in DIRECTED:
            out.append(("directed:%s#%d" % (d, rep_i), directed_script(d, 100 if quick else 300, dl), "race"))
    if not quick:
        # the saved replays of F8 (fixed by 6e35682) must stay quiet
        for path in sorted(glob.glob(os.path.join(env.VERIF, "corpus", "findings", "F8_*.txt"))):
            with open(path) as f:
                out.append(("corpus:" + os.path.basename(path), script_of_replay(f.read()), "race"))
    n = 14 if quick else 240
    for i in range(n):
        out.append(("random:%d" % i, random_script(rnd, i, 50 if quick else 150, dl), "race"))
    for i in range(6 if quick else 60):
        out.append(("kvplain:%d" % i, kv_plain_script(rnd, 150 if quick else 400, dl), "plain"))
    if boost:
        for i in range(8 if quick else 40):
            out.append(("boost:%d" % i, random_script(rnd, i, 60 if quick else 150, dl, boost=["auth", "kv"][i % 2]), "race"))
        for i in range(6 if quick else 40):
            out.append(("boostplain:%d" % i, kv_plain_script(rnd, 300 if quick else 600, dl), "plain"))
    return out


def script_of_replay(text):
    """the scenario lines of a replay file (everything else is commentary)"""
    lines = []
    for l in text.split("\n"):
        t = l.strip().split()
        if (len(t) == 2 and t[0] in PARAMS) or (len(t) == 3 and t[0] == "storedelay"):
            lines.append(l.strip())
    return "\n".join(lines) + "\n"


# ---------------------------------------------------------------------------
# race reports

def parse_race_reports(text):
    """[(key, in_package, in_harness, report_text)] for every report of the race detector"""
    out = []
    for blk in text.split("=================="):
        if "WARNING: DATA RACE" not in blk:
            continue
        stacks = []
        for m in re.finditer(r"^(?:Previous )?(?:[Aa]tomic )?([Rr]ead|[Ww]rite) at 0x[0-9a-f]+ by [^\n]*:\n((?:  \S[^\n]*\n      [^\n]*\n)+)", blk, re.M):
            frames = re.findall(r"^  (\S+?)\(\)\n      (\S+?):(\d+)", m.group(2), re.M)
            stacks.append((m.group(1).lower(), frames))
        where = []
        in_pkg = in_harness = False
        for kind, frames in stacks:
            site = None
            for fn, path, line in frames:
                if fn.startswith(PKG) and not path.endswith("_test.go"):
                    site = "%s %s %s:%s" % (kind, fn[len(PKG):], os.path.basename(path), line)
                    in_pkg = True
                    break
                if fn.startswith("main."):
                    site = "%s harness %s %s:%s" % (kind, fn, os.path.basename(path), line)
                    in_harness = True
                    break
            where.append(site or "%s %s" % (kind, frames[0][0] if frames else "?"))
        out.append((" vs ".join(sorted(where)), in_pkg, in_harness and not in_pkg, blk.strip("\n")))
    return out


# ---------------------------------------------------------------------------
# the key/value history against a sequential map

class Op:
    __slots__ = ("g", "op", "obj", "key", "val", "call", "ret", "res")

    def __init__(self, g, op, obj, key, val, call):
        self.g, self.op, self.obj, self.key, self.val, self.call, self.ret, self.res = g, op, obj, key, val, call, None, None

    def __repr__(self):
        return "g%s %s(%s%s)@%s -> %s@%s" % (self.g, self.op, self.key, "," + self.val if self.val else "", self.call, self.res, self.ret)


INF = float("inf")


def parse_history(lines):
    ops, pending, bad = [], {}, []
    for l in lines:
        t = l.split()
        if not t:
            continue
        if t[0] == "call" and len(t) >= 6:
            o = Op(t[2], t[3], t[4], t[5], t[6] if len(t) > 6 else None, int(t[1]))
            if t[2] in pending:
                pending[t[2]].ret = INF  # never returned (panic)
            pending[t[2]] = o
            ops.append(o)
        elif t[0] == "ret" and len(t) >= 5:
            o = pending.pop(t[2], None)
            if o is None or o.op != t[3]:
                bad.append("return without call: " + l)
                continue
            o.ret, o.res = int(t[1]), t[4]
    for o in pending.values():
        o.ret = INF
    return ops, bad


def check_history(ops):
    """violations of atomicity found in one run: list of (message, [ops involved]); also (#ops, #overlapping pairs).
    `ops` is sorted by call time; every goroutine has at most one operation outstanding. O(n log n)."""
    import bisect
    viol = []
    sets = {}
    for o in ops:
        if o.op == "set":
            if o.val in sets:
                viol.append(("harness error: value %s written twice" % o.val, [o]))
            sets[o.val] = o
    by = {}
    for o in ops:
        by.setdefault((o.obj, o.key), []).append(o)
    overlapping = 0
    names = {"del": "Delete", "getdel": "GetAndDelete", "set": "Set"}
    for (obj, key), lst in by.items():
        calls = [o.call for o in lst]
        for i, a in enumerate(lst):
            # operations of other goroutines called while `a` was running
            overlapping += bisect.bisect_right(calls, a.ret) - i - 1
        handed = {}
        # killers: operations after which an earlier value cannot be in the map any more (any Set writes another value)
        killers = [o for o in lst if o.op in ("set", "del", "getdel")]
        kcalls = [k.call for k in killers]
        sufmin = [None] * (len(killers) + 1)  # killer with the least return time among killers[i:]
        for i in range(len(killers) - 1, -1, -1):
            best = sufmin[i + 1]
            sufmin[i] = killers[i] if best is None or killers[i].ret < best.ret else best
        # for "nothing stored": completed Sets by return time with the latest call so far; removers by call time with the latest return so far
        wr = sorted((o for o in lst if o.op == "set" and o.ret != INF), key=lambda o: o.ret)
        wrets = [w.ret for w in wr]
        wbest = []
        for w in wr:
            wbest.append(w if not wbest or w.call > wbest[-1].call else wbest[-1])
        rem = [o for o in lst if o.op == "del" or (o.op == "getdel" and o.res != "-")]
        rcalls = [r.call for r in rem]
        rmax = []
        for r in rem:
            rmax.append(r.ret if not rmax or r.ret > rmax[-1] else rmax[-1])
        for o in lst:
            if o.op not in ("get", "getdel") or o.res is None:
                continue
            v = o.res
            if v.startswith("?"):
                viol.append(("%s returned a value of an unexpected type: %s" % (o.op, v), [o]))
                continue
            if v == "-":
                # nothing stored: wrong if a Set returned before the call and no removal overlaps [that Set's call, this return]
                i = bisect.bisect_left(wrets, o.call)
                if i > 0:
                    w = wbest[i - 1]
                    j = bisect.bisect_right(rcalls, o.ret)
                    if j == 0 or rmax[j - 1] < w.call:
                        viol.append(("%s(%s) found nothing although Set(%s,%s) had returned and no Delete/GetAndDelete of the key ran after that Set "
                                     "was called" % (o.op, key, key, w.val), [w, o]))
                continue
            w = sets.get(v)
            if w is None:
                viol.append(("%s(%s) returned %s, which no Set ever wrote" % (o.op, key, v), [o]))
                continue
            if w.key != key:
                viol.append(("%s(%s) returned %s, which was written under key %s" % (o.op, key, v, w.key), [w, o]))
                continue
            if w.call > o.ret:
                viol.append(("%s(%s) returned %s before the Set that writes it was called" % (o.op, key, v), [w, o]))
                continue
            if o.op == "getdel":
                if v in handed:
                    viol.append(("GetAndDelete(%s) handed the value %s to two callers" % (key, v), [w, handed[v], o]))
                    continue
                handed[v] = o
            # the value must not have been removed or overwritten for good before this read was called: a killer that began
            # after the writing Set had returned (any killer, if the value came with the object when it was loaded) and that
            # returned before this read was called
            same_obj = w.obj == obj
            k = sufmin[bisect.bisect_right(kcalls, w.ret) if same_obj else 0]
            if k is not None and k.ret < o.call:
                viol.append(("%s(%s) returned %s although %s(%s) had %s it before the call (written by %s)" % (
                    o.op, key, v, names[k.op], key, "overwritten" if k.op == "set" else "removed",
                    "an earlier Set on this object" if same_obj else "a Set on another copy"), [w, k, o]))
    return viol, len(ops), overlapping


# ---------------------------------------------------------------------------
# one run

class Run:
    def __init__(self, name, script):
        self.name, self.script = name, script
        self.races, self.harness_races, self.panics, self.lin, self.resurrect = [], [], [], [], []
        self.stuck = 0
        self.crash = None
        self.infra = None
        self.stats = {}
        self.kv_ops = self.kv_overlap = 0
        self.wall = 0.0
        self.transcript_tail = ""


def run_scenario(hbin, name, script, workdir):
    r = Run(name, script)
    tag = re.sub(r"[^A-Za-z0-9]", "_", name)
    sp, op, lp = os.path.join(workdir, tag + ".script"), os.path.join(workdir, tag + ".out"), os.path.join(workdir, tag + ".race")
    with open(sp, "w") as f:
        f.write(script)
    m = re.search(r"^deadline (\d+)", script, re.M)
    deadline = int(m.group(1)) / 1000.0 if m else 60.0
    e = dict(os.environ)
    e["GORACE"] = "halt_on_error=0 exitcode=0 history_size=3 log_path=" + lp
    t0 = time.time()
    try:
        p = subprocess.run([hbin, "-mode", "conc", "-script", sp, "-out", op], env=e, stdout=subprocess.PIPE, stderr=subprocess.PIPE,
                           timeout=deadline + 60)
        code, err = p.returncode, p.stderr.decode(errors="replace")
    except subprocess.TimeoutExpired as ex:
        code, err = -9, (ex.stderr or b"").decode(errors="replace") + "\n(process killed: it did not terminate by itself)"
    r.wall = time.time() - t0
    lines = []
    if os.path.exists(op):
        with open(op, errors="replace") as f:
            lines = f.read().split("\n")
    for l in lines:
        if l.startswith("panic "):
            r.panics.append(l)
        elif l.startswith("resurrect "):
            r.resurrect.append(l)
        elif l.startswith("stuck "):
            r.stuck = int(l.split()[1])
        elif l.startswith("stat "):
            t = l.split()
            r.stats[t[1]] = int(t[2])
    races = ""
    for path in glob.glob(lp + ".*"):
        with open(path, errors="replace") as f:
            races += f.read()
    for key, in_pkg, in_harness, text in parse_race_reports(races + "\n" + err):
        if in_pkg:
            r.races.append((key, text))
        elif in_harness:
            r.harness_races.append((key, text))
    ended = any(l == "end" for l in lines)
    if code == 5 or r.stuck:
        r.transcript_tail = "\n".join(l for l in lines if l.startswith(("stuck", "# goroutine", "# github.com/rivo/sessions", "# main.")))[:6000]
    elif code == 3:
        r.infra = "harness error: " + err.strip()[-400:]
    elif code != 0 or not ended:
        # the Go runtime killed the process (fatal error: concurrent map writes, ...) or it did not terminate
        r.crash = "exit %s: %s" % (code, err.strip()[:3000])
    if ended and not r.stuck:
        ops, bad = parse_history(lines)
        if bad:
            r.infra = bad[0]
        r.lin, r.kv_ops, r.kv_overlap = check_history(ops)
    return r


# ---------------------------------------------------------------------------
# facts

def lock_rows(repo):
    """the regenerated access table and the rows that are not sufficiently protected (the rule of FactsLocks.guarded)"""
    try:
        ex = facts.build_extractor()
    except env.BuildError:
        return [], [], {}
    p = subprocess.run([ex, "-repo", repo], stdout=subprocess.PIPE, stderr=subprocess.STDOUT, text=True)
    txt = p.stdout
    rows = [(m.group(1), int(m.group(2)), m.group(3), m.group(4), m.group(5) == "true", m.group(6))
            for m in re.finditer(r'⟨"([^"]*)", (\d+), "([^"]*)", "([^"]*)", (true|false), "([^"]*)"⟩', txt)]
    extra = {}
    m = re.search(r"def compactCallSites[^\n]*:= \[(.*?)\]\n", txt, re.S)
    sites = re.findall(r'\("([^"]*)", (\d+), (true|false)\)', m.group(1)) if m else []
    extra["compactCallSites"] = sites
    compact_ok = bool(sites) and all(s[2] == "true" for s in sites)
    m = re.search(r"def fieldWrites[^\n]*:= \[(.*?)\]\n\n", txt, re.S)
    writes = re.findall(r'\("([^"]*)", "([^"]*)", (\d+)\)', m.group(1)) if m else []
    m = re.search(r"def decoderCalls[^\n]*:= \[(.*?)\]\n", txt, re.S)
    decs = re.findall(r'\("([^"]*)", (\d+)\)', m.group(1)) if m else []
    bad_ref = [w for w in writes if w[0] == "referenceID" and w[1] not in ("Session.GobDecode", "Session.UnmarshalJSON")]
    extra["referenceID_writes_elsewhere"] = bad_ref
    extra["decoderCalls"] = decs
    ref_ok = not bad_ref and not decs
    m = re.search(r"def lockUnrecognised[^\n]*:= \[(.*?)\]\n", txt, re.S)
    extra["lockUnrecognised"] = re.findall(r'"((?:[^"\\]|\\.)*)"', m.group(1)) if m else ["(table missing)"]

    def guarded(r):
        fn, line, recv, field, write, lock = r
        if (lock == "W") or (not write and lock == "R") or lock == "private":
            return True
        if lock == "caller" and fn == "cache.compact" and field == "sessions" and compact_ok:
            return True
        return (not write) and field == "referenceID" and recv != "" and ref_ok
    return rows, [r for r in rows if not guarded(r)], extra


def row_text(r):
    return "%s:%d %s %s%s lock=%s" % (r[0], r[1], "write" if r[4] else "read", (r[2] + ".") if r[2] else "", r[3], r[5])


def failing_theorems(msg):
    """names of the theorems of FactsLocks.lean / FactsBracketKv.lean at which Lean reported an error"""
    names = []
    for m in re.finditer(r"(Sessions/\w+\.lean):(\d+):\d+:", msg):
        path = os.path.join(env.LEAN_DIR, m.group(1))
        try:
            with open(path) as f:
                src = f.read().split("\n")
        except OSError:
            continue
        for i in range(min(int(m.group(2)), len(src)) - 1, -1, -1):
            t = re.match(r"\s*theorem\s+(\S+)", src[i])
            if t:
                if t.group(1) not in names:
                    names.append(t.group(1))
                break
    return names


# ---------------------------------------------------------------------------

def main(tier, seed, replay=None):
    rep = Report("C15", tier, seed)
    all_thms = OBLIGATIONS["C15"] + [t for _, ts in FACT_OBLIGATIONS.get("C15", []) for t in ts]
    try:
        hbins = {"race": env.build_harness("race"), "plain": env.build_harness("plain")}
    except env.BuildError as e:
        p = write_replay("C15", 903, [e.what], e.output, ext="txt")
        rep.cov.update({"obligations": len(all_thms), "discharged": 0, "checker_cmd": "go build -race (failed)", "trusted_base": list(TRUSTED_BASE),
                        "evaluations": 0, "distinct_nontrivial": 0, "rule": "none: the harness does not build", "samples": [e.output[-300:]]})
        rep.violation(p, "the verification harness does not build against the current tree", no_input=True)
        return rep.finish()

    # ---- proof part
    lean_part(rep, "C15")
    fact_msgs = facts.facts_for(rep, "C15")
    rows, unguarded, extra = lock_rows(env.REPO)
    rep.cov["checker_cmd"] = ("/verif/.cache/extract-* -repo /repo -out lean/Sessions/Generated/Facts.lean && cd /verif/lean && lake build && "
                              "lake build Sessions.FactsLocks Sessions.FactsBracketKv && lake env lean <#print axioms of every listed theorem>")
    rep.cov["trusted_base"] = list(TRUSTED_BASE) + [
        "the go/ast extractor /verif/extract/locks.go (lexical lock brackets, no alias analysis; fails closed on shapes it does not know)",
        "the Go memory model (a release followed by an acquire of the same sync.Mutex/RWMutex orders the accesses) and the Go race detector",
    ]
    rep.cov["access_table_rows"] = len(rows)
    rep.cov["access_table_unguarded"] = [row_text(r) for r in unguarded]
    if fact_msgs:
        thms = []
        for m in fact_msgs:
            thms += failing_theorems(m)
        detail = []
        if unguarded:
            detail.append("rows not under a sufficient lock: " + "; ".join(row_text(r) for r in unguarded[:12]))
        if extra.get("compactCallSites") is not None and not (extra["compactCallSites"] and all(s[2] == "true" for s in extra["compactCallSites"])):
            detail.append("compact call sites: %s" % (extra["compactCallSites"],))
        if extra.get("referenceID_writes_elsewhere") or extra.get("decoderCalls"):
            detail.append("referenceID written at %s, decoders called at %s" % (extra.get("referenceID_writes_elsewhere"), extra.get("decoderCalls")))
        if extra.get("lockUnrecognised"):
            detail.append("unrecognised: " + "; ".join(extra["lockUnrecognised"][:6]))
        head = "fact theorem(s) %s no longer check on the regenerated tables" % (", ".join(thms) or "(see below)")
        if detail:
            head += " — " + " | ".join(detail)
        fact_msgs = [head + "\n" + "\n\n".join(fact_msgs)]

    # ---- search part
    if replay:
        with open(replay) as f:
            scen = [("replay", script_of_replay(f.read()), "race")]
    else:
        scen = scenarios(tier, seed, boost=bool(fact_msgs))
    results = []
    workers = max(2, env.NCPU // 4)
    with env.scratch("verif-c15-") as d:
        with concurrent.futures.ThreadPoolExecutor(max_workers=workers) as pool:
            futs = [pool.submit(run_scenario, hbins[k], n, s, d) for n, s, k in scen]
            for f in futs:
                results.append(f.result())

    # ---- verdicts
    n = [0]

    def report(r, what, extra_text):
        n[0] += 1
        body = r.script + "".join("# " + l + "\n" for l in extra_text.split("\n"))
        p = write_replay("C15", n[0], ["C15 violated: " + what, "scenario %s (harness -mode conc, GORACE=halt_on_error=0)" % r.name,
                                       "replay: bin/check C15 --replay <this file>"], body, ext="txt")
        rep.violation(p, "%s (scenario %s)" % (what, r.name))

    seen = set()
    for r in sorted(results, key=lambda r: len(r.script)):
        for key, text in r.races:
            if key in seen or len(seen) >= 6:
                continue
            seen.add(key)
            report(r, "data race in package code: " + key, text)
    kinds = set()
    for r in results:
        if r.crash and "crash" not in kinds:
            kinds.add("crash")
            m = re.search(r"fatal error: [^\n]*|panic: [^\n]*", r.crash)
            report(r, "the process was killed by the Go runtime: " + (m.group(0) if m else r.crash[:120]), r.crash)
        if r.panics and "panic" not in kinds:
            kinds.add("panic")
            report(r, "panic in an API call: " + r.panics[0], "\n".join(r.panics[:20]))
        if r.stuck and "stuck" not in kinds:
            kinds.add("stuck")
            report(r, "%d goroutine(s) still blocked in API calls at the deadline" % r.stuck, r.transcript_tail)
        if r.lin and "lin" not in kinds:
            kinds.add("lin")
            msg, ops = r.lin[0]
            report(r, "key/value history not linearizable: " + msg, "\n".join([m for m, _ in r.lin[:5]] + ["operations involved (time stamps of the global counter):"] + [repr(o) for o in ops]))
    infra = [r for r in results if r.infra or r.harness_races]
    if infra and not rep.violations:
        r = infra[0]
        what = r.infra or ("data race inside the harness: " + r.harness_races[0][0])
        n[0] += 1
        p = write_replay("C15", 900 + n[0], ["the concurrent harness itself failed: " + what], r.script + "".join("# " + l + "\n" for l in (r.harness_races[0][1] if r.harness_races else "").split("\n")), ext="txt")
        rep.violation(p, "the concurrent harness failed, no verdict from this run: " + what, no_input=True)

    # ---- evidence
    tot = {}
    for r in results:
        for k, v in r.stats.items():
            tot[k] = tot.get(k, 0) + v
    rep.cov["evaluations"] = len(results)
    rep.cov["distinct_nontrivial"] = len(set(r.script for r in results if r.stats.get("objects_shared", 0) > 0 or r.kv_overlap > 0))
    rep.cov["rule"] = ("scenarios = the 10 directed schedules (one per access pair that was unguarded before fix 6e35682, the LogIn lock leak, and sessions ended while their IDs are in use) "
                       "+ seeded random scenarios of harness/conc.go (clients x in-flight requests sharing sessions through the cache, rotation on "
                       "every request or every 2 ms, cache size 0/1/2/64, gob/JSON, key/value-heavy and login/rotation-heavy mixes, CUID and "
                       "PurgeSessions goroutines) on the real package built with -race, + key/value-only scenarios on the plain build (ten times "
                       "as many operations per second, for the atomicity check); judged: race reports with a package frame, "
                       "panics/fatal errors, blocked goroutines, and the call/return history of key/value operations per session object against "
                       "a sequential map. non-trivial = distinct scenario in which at least one session object was used by two goroutines")
    rep.cov["requests"] = tot.get("requests", 0)
    rep.cov["api_calls_by_kind"] = {k[3:]: v for k, v in sorted(tot.items()) if k.startswith("op_")}
    rep.cov["cuid_calls"] = tot.get("cuid", 0)
    rep.cov["purges"] = tot.get("purge", 0)
    rep.cov["session_objects"] = tot.get("objects", 0)
    rep.cov["session_objects_shared_between_goroutines"] = tot.get("objects_shared", 0)
    rep.cov["kv_operations_checked"] = sum(r.kv_ops for r in results)
    rep.cov["kv_overlapping_pairs"] = sum(r.kv_overlap for r in results)
    rep.cov["race_reports_in_package"] = sum(len(r.races) for r in results)
    rep.cov["panics"] = sum(len(r.panics) for r in results)
    rep.cov["stuck_runs"] = sum(1 for r in results if r.stuck)
    rep.cov["linearizability_violations"] = sum(len(r.lin) for r in results)
    rep.cov["runs_hitting_deadline"] = tot.get("deadline_reached", 0)
    rep.cov["scenario_wall_s"] = round(sum(r.wall for r in results), 1)
    rep.cov["samples"] = [results[0].script.split("\n"), results[-1].script.split("\n")] + [{"theorem": t} for t in all_thms[:4]] + \
        [{"access_row": row_text(r)} for r in rows[:3]]
    rep.assumptions = [
        "race detection is per run: the detector sees the accesses a run performs, independent of their exact timing, but not code that did not run",
        "lock brackets are read lexically from the source (receiver text of X.Lock()/X.f); aliases of field addresses and reflection are not followed",
        "atomicity is judged per session object (copies of one session held by different requests after an eviction are different objects)",
        "the persistence layer is the harness's honest store behind one mutex; user objects are immutable",
    ]
    if not replay:
        # one object per cached session: without it "atomic per session object" says nothing about the session
        from . import concrace
        try:
            concrace.run(rep, "C15", "load-race", tier, seed, [900])
        except env.BuildError:
            pass
    facts.report_fact_failures(rep, "C15", fact_msgs)
    return rep.finish()
