"""Shared machinery of the keyed-mutex checks C13 (exclusion) and C14 (no deadlock / lost wake-up / coupling).

Scenario = a script for the Go harness in mode mx (see /verif/harness/mx.go). Every scenario is run on the real
mutexes.go (private lock table, or the table sessions.Start uses) under the Go runtime's virtual clock; the harness
writes ONE globally ordered log of manager events (from the add-only hook in the manager loop) and caller events.
`driver mx` (Lean: Sessions/Drv/Mx.lean) replays the manager events against the abstract manager of
Sessions/Mutex/Exec.lean (`checkTrace`, `checkProviso`) and the caller events against `checkExclusion`; the monitors
below look at what a caller can observe (stuck calls, admissions per release, virtual-time coupling between keys,
effect of spurious unlocks, Start's critical section and the ids it mints).
"""
import collections
import hashlib
import os
import random
import shutil
import subprocess
from concurrent.futures import ThreadPoolExecutor

from . import env
from .check import Report, lean_part, write_replay
from .obligations import OBLIGATIONS, TRUSTED_BASE

BIG = 10 ** 12          # "large" duration / table limit: never reached inside a scenario
BIGSIZE = 1 << 20


class Scenario:
    def __init__(self, name, family, lines, mode="lock", timing=True, indep=(), expect=None):
        self.name = name
        self.family = family
        self.lines = lines
        self.mode = mode
        self.timing = timing       # no manager sleep: virtual-time coupling between keys is checked
        self.indep = list(indep)   # (goroutine, key): this Lock must return at the virtual instant it was called
        self.expect = expect or {}

    @property
    def script(self):
        return "\n".join(self.lines) + "\n"


# ---------------------------------------------------------------------------
# Generators

def _bounds(progs, mdelay_ns, mats):
    """(upper bound of the virtual duration of the scenario, upper bound of any hold) from the programs"""
    total = 0
    insec = 0
    nops = 0
    for steps in progs:
        depth = 0
        for s in steps:
            c = s[0]
            if c == "L":
                depth += 1
                nops += 1
            elif c == "U":
                depth -= 1
                nops += 1
            elif c == "X":
                nops += 1
            elif c == "S":
                n = int(s[1:])
                total += n
                if depth > 0:
                    insec += n
    stall = 2 * nops * mdelay_ns + sum(mats)
    return total + stall, insec + stall


def _assemble(name, family, progs, rnd, procs=1, maxsize=BIGSIZE, cleanup=BIG, stale=None, yieldp=0, mdelay=(0, 0),
              mats=(), indep=(), seed=None, small_stale=False):
    """progs: list of step lists (goroutine i runs progs[i]); mats: (ev, key, nth, ns)"""
    dur, hold = _bounds(progs, mdelay[1] if mdelay[0] else 0, [m[3] for m in mats])
    if stale is None:
        # the proviso of C13/C14: every hold (plus scheduling delay) is shorter than the staleness timeout
        stale = (2 * hold + 40 + rnd.randrange(40)) if small_stale else BIG
    assert stale > hold, (name, stale, hold)
    lines = ["mode lock", "procs %d" % procs, "tuning %d %d %d" % (maxsize, cleanup, stale),
             "seed %d" % (seed if seed is not None else rnd.randrange(1 << 30)), "yield %d" % yieldp]
    if mdelay[0]:
        lines.append("mdelay %d %d" % mdelay)
    for m in mats:
        lines.append("mat %s %d %d %d" % m)
    lines.append("watchdog %d" % (dur + 1000))
    for i, steps in enumerate(progs):
        lines.append("g %d %s" % (i, " ".join(steps)))
    timing = not (mdelay[0] and mdelay[1] > 0) and not any(m[3] > 0 for m in mats)
    return Scenario(name, family, lines, timing=timing, indep=indep, expect={"stale": stale, "hold": hold, "dur": dur})


def _sleep(rnd, choices=(1, 2, 3, 5, 8, 13, 21, 34)):
    return "S%d" % rnd.choice(choices)


def gen_random(rnd, idx, tier):
    big = tier == "thorough" and rnd.random() < 0.3
    G = rnd.randint(2, 16 if big else 8)
    K = rnd.randint(1, 4)
    keys = list(range(1, K + 1))
    spur_never = [50, 51]                       # never locked by anybody
    progs = []
    for g in range(G):
        steps = []
        nsec = rnd.randint(1, 6 if big else 4)
        private = 100 + g                       # a key only this goroutine ever touches
        used_private = False
        for _ in range(nsec):
            r = rnd.random()
            if r < 0.35:
                steps.append(_sleep(rnd))
            elif r < 0.55:
                steps.append("Y")
            if rnd.random() < 0.12:
                steps.append("P")
            if rnd.random() < 0.12:
                # spurious Unlock of a key nobody holds or waits for (now or ever / only ever this goroutine)
                steps.append("X%d" % (private if (used_private and rnd.random() < 0.6) else rnd.choice(spur_never)))
            if rnd.random() < 0.15:
                k = private
                used_private = True
            else:
                k = rnd.choice(keys)
            steps.append("L%d" % k)
            r = rnd.random()
            if r < 0.5:
                steps.append(_sleep(rnd))
            elif r < 0.7:
                steps.append("Y")
            if k != private and rnd.random() < 0.15 and k < K:
                # nested section on a larger key (ordered acquisition: the client itself cannot deadlock)
                k2 = rnd.randint(k + 1, K)
                steps.append("L%d" % k2)
                if rnd.random() < 0.5:
                    steps.append(_sleep(rnd))
                if rnd.random() < 0.5:
                    steps += ["U%d" % k2, "U%d" % k]
                else:
                    steps += ["U%d" % k, "U%d" % k2]
            else:
                steps.append("U%d" % k)
        progs.append(steps)
    procs = rnd.choice([1, 1, 1, 2, 4])
    maxsize = rnd.choice([1, 1, 2, 3, BIGSIZE])
    cleanup = rnd.choice([5, 7, 11, 23, 61, BIG])
    yieldp = rnd.choice([0, 100, 300, 600])
    mdelay = rnd.choice([(0, 0), (0, 0), (150, 0), (300, 0), (150, 6), (300, 25)])
    return _assemble("rnd%05d" % idx, "random", progs, rnd, procs=procs, maxsize=maxsize, cleanup=cleanup, yieldp=yieldp,
                     mdelay=mdelay, small_stale=rnd.random() < 0.4)


# --- directed families: each forces particular transitions of the model -------------------------------------

def d_purge_held(rnd, idx):
    """purge (explicit, periodic, size-triggered) while a key is held and has a waiter"""
    a, b = 1, 2
    h = rnd.choice([40, 60, 90])
    progs = [["L%d" % a, "S%d" % h, "U%d" % a],
             ["S%d" % rnd.randint(3, 12), "L%d" % b, "U%d" % b],
             ["S%d" % rnd.randint(15, h - 5), "P"],
             ["S%d" % rnd.randint(10, h - 5), "L%d" % a, "S3", "U%d" % a],
             ["S%d" % (h + 20), "L%d" % b, "U%d" % b, "L%d" % a, "U%d" % a]]
    return _assemble("dph%05d" % idx, "purge-while-held", progs, rnd, procs=rnd.choice([1, 1, 2]), maxsize=rnd.choice([1, 1, 2, BIGSIZE]),
                     cleanup=rnd.choice([7, 13, BIG]), yieldp=rnd.choice([0, 200]))


def d_stall(rnd, idx):
    """The manager is stalled inside one event; lockers, the unlocker and purge requests arrive meanwhile and are
    then served back to back in an order `select` picks at random: purge between a locker's acquire send and its
    getItem, purge before a queued acquire, release handed to a waiter that is not yet parked."""
    a, c, d = 1, 3, 4
    stall = 50
    t0 = 10  # the stalled event: first rel on c at virtual 10
    holder = ["L%d" % a]
    if rnd.random() < 0.5:
        holder += ["S%d" % (t0 + rnd.randint(5, stall - 5)), "U%d" % a]          # Unlock arrives during the stall
    else:
        holder += ["S%d" % (t0 + stall + rnd.randint(5, 30)), "U%d" % a]         # holds across the stall
    progs = [holder, ["S5", "L%d" % c, "S5", "U%d" % c]]
    for _ in range(rnd.randint(1, 3)):
        progs.append(["S%d" % (t0 + rnd.randint(2, stall - 2)), "L%d" % a, "U%d" % a])
    for _ in range(rnd.randint(0, 2)):
        progs.append(["S%d" % (t0 + rnd.randint(2, stall - 2)), "P"])
    if rnd.random() < 0.6:
        progs.append(["S%d" % (t0 + rnd.randint(2, stall - 2)), "L%d" % d, "U%d" % d])
    if rnd.random() < 0.4:
        progs.append(["S%d" % (t0 + rnd.randint(2, stall - 2)), "L%d" % c, "U%d" % c])
    mats = [("rel", c, 0, stall)]
    return _assemble("dst%05d" % idx, "manager-stall", progs, rnd, procs=1, maxsize=rnd.choice([1, 1, 2, BIGSIZE]),
                     cleanup=rnd.choice([BIG, BIG, 17]), mats=mats)


def d_waiters(rnd, idx):
    """many waiters on one key, several rounds"""
    G = rnd.randint(4, 8)
    progs = []
    for g in range(G):
        steps = []
        for _ in range(rnd.randint(1, 3)):
            if rnd.random() < 0.5:
                steps.append(_sleep(rnd, (1, 2, 3)))
            steps += ["L1", _sleep(rnd, (2, 5, 9)), "U1"]
        progs.append(steps)
    return _assemble("dwt%05d" % idx, "many-waiters", progs, rnd, procs=rnd.choice([1, 2, 4]), maxsize=rnd.choice([1, BIGSIZE]),
                     cleanup=rnd.choice([5, 11, BIG]), yieldp=rnd.choice([0, 300]), mdelay=rnd.choice([(0, 0), (300, 0)]))


def d_spurious(rnd, idx):
    """Unlock of keys nobody holds: never locked, locked and released, purged; other keys are held and waited for"""
    a, b, c, z = 1, 2, 3, 9
    progs = [["L%d" % a, "U%d" % a],
             ["S20", "L%d" % b, "U%d" % b],                     # with limit 1 the size rule now drops a (or b)
             ["L%d" % c, "S120", "U%d" % c],
             ["S10", "L%d" % c, "S5", "U%d" % c],
             ["S%d" % rnd.randint(40, 100), "X%d" % a],
             ["S%d" % rnd.randint(40, 100), "X%d" % z],
             ["S%d" % rnd.randint(40, 100), "X%d" % b, "X%d" % a, "X%d" % z],
             ["S140", "L%d" % a, "S3", "U%d" % a, "L%d" % z, "U%d" % z]]   # the keys work normally afterwards
    return _assemble("dsp%05d" % idx, "spurious-unlock", progs, rnd, procs=rnd.choice([1, 1, 2]), maxsize=rnd.choice([1, 2, BIGSIZE]),
                     cleanup=rnd.choice([9, BIG]), yieldp=rnd.choice([0, 200]), mdelay=rnd.choice([(0, 0), (200, 0)]))


def d_indep(rnd, idx):
    """Lock on a free key while other keys have holders and waiters: must return at the instant it was called"""
    a, b, c = 1, 2, 3
    progs = [["L%d" % a, "S100", "U%d" % a],
             ["S5", "L%d" % a, "S10", "U%d" % a],
             ["S6", "L%d" % a, "U%d" % a],
             ["L%d" % b, "S80", "U%d" % b],
             ["S7", "L%d" % b, "U%d" % b],
             ["S%d" % rnd.randint(15, 75), "L%d" % c, "S%d" % rnd.randint(1, 9), "U%d" % c,
              "S%d" % rnd.randint(1, 9), "L%d" % c, "U%d" % c]]
    if rnd.random() < 0.5:
        progs.append(["S%d" % rnd.randint(15, 75), "P"])
    return _assemble("din%05d" % idx, "key-independence", progs, rnd, procs=rnd.choice([1, 1, 2, 4]), maxsize=rnd.choice([1, 2, BIGSIZE]),
                     cleanup=rnd.choice([7, BIG]), yieldp=rnd.choice([0, 200]), mdelay=rnd.choice([(0, 0), (300, 0)]), indep=[(5, c)])


def d_relock(rnd, idx):
    """re-lock after the entry was purged: by the stale rule (idle longer than the timeout) and by the size rule"""
    a, b = 1, 2
    if rnd.random() < 0.5:
        stale = rnd.choice([60, 100])
        gap = stale * 3
        progs = [["L%d" % a, "S5", "U%d" % a, "S%d" % gap, "L%d" % a, "S5", "U%d" % a],
                 ["S%d" % (gap // 2), "L%d" % b, "S%d" % (stale - 15), "U%d" % b],   # a hold just short of the timeout, purges firing
                 ["S%d" % (gap // 2 + 5), "L%d" % b, "U%d" % b]]
        return _assemble("drl%05d" % idx, "relock-after-purge", progs, rnd, procs=rnd.choice([1, 2]), maxsize=BIGSIZE,
                         cleanup=rnd.choice([7, 13]), stale=stale)
    progs = [["L%d" % a, "U%d" % a, "S10", "L%d" % b, "U%d" % b, "S10", "L%d" % a, "S4", "U%d" % a, "S10", "L%d" % b, "U%d" % b],
             ["S12", "L%d" % a, "U%d" % a, "S20", "L%d" % a, "U%d" % a]]
    return _assemble("drl%05d" % idx, "relock-after-purge", progs, rnd, procs=rnd.choice([1, 2]), maxsize=1,
                     cleanup=rnd.choice([3, BIG]), yieldp=rnd.choice([0, 300]))


def _timeline(points):
    """[(absolute virtual instant, step)] -> steps with the sleeps in between (the goroutine starts at 0 and, apart
    from waiting for a lock, spends no virtual time in its steps)"""
    steps, cur = [], 0
    for t, st in points:
        assert t >= cur, points
        if t > cur:
            steps.append("S%d" % (t - cur))
            cur = t
        steps.append(st)
    return steps


def d_aged_relock(rnd, idx):
    """An entry OLDER than the staleness timeout (counted from its creation) is re-locked and held, for a short
    time, across a periodic clean-up; the next Lock arrives right after that clean-up. Every use of an entry
    refreshes its lastAccess, so the held entry is not stale and the late-comer has to wait; if age were counted
    from creation (or from anything but the last use) the clean-up would delete the held entry and the late-comer
    would be admitted next to the holder.

    Exact virtual timing: clean-up ticks at F, 2F, ...; timeout S with F < S < 2F, not a multiple of F; the entry
    is created at t0 just after a tick; T is the first tick with T - t0 > S; the re-lock happens at r with
    t0 + S < r < T (no tick in between, so the idle entry is still there: it was last used at most S before every
    earlier tick); the holder unlocks at T + d. Every hold is shorter than S, as the proviso demands."""
    while True:
        sc = _aged_relock_once(rnd, idx)
        if sc is not None:
            return sc


def _aged_relock_once(rnd, idx):
    F = rnd.choice([100, 100, 250, 1000])
    S = F + rnd.randint(F // 4, (3 * F) // 5)                # F < S < 2F, S mod F in [F/4, 3F/5]
    k = rnd.choice([1, 2, 3, 7])
    m = rnd.randint(1, 3)
    t0 = m * F + rnd.randint(1, 3)                            # right after the m-th tick
    h1 = rnd.randint(0, 3)
    T = ((t0 + S) // F + 1) * F                               # first tick strictly after t0 + S
    assert T - (t0 + S) >= 3, (F, S, t0, T)
    r = rnd.randint(t0 + S + 1, T - 1)
    nw = rnd.randint(1, 4)
    d = rnd.randint(nw + 2, max(nw + 3, F // 5))              # the holder leaves at T + d
    a = [(t0, "L%d" % k), (t0 + h1, "U%d" % k)]
    busy = rnd.random() < 0.4
    if busy:
        # the key stays in use in between (short sections, possibly across earlier ticks: the entry is young then)
        t = t0 + h1
        while True:
            t += rnd.randint(F // 5, F // 2)
            h = rnd.randint(0, 4)
            if t + h >= min(r, t0 + S) - 1:
                break
            a += [(t, "L%d" % k), (t + h, "U%d" % k)]
            t += h
    a += [(r, "L%d" % k), (T + d, "U%d" % k)]
    progs = [_timeline(a)]
    for i in range(nw):
        arrive = T + rnd.randint(1, d - 1)                    # just after the tick, while the key is held
        progs.append(_timeline([(arrive, "L%d" % k)]) + ["S%d" % rnd.randint(1, 3), "U%d" % k])
    if rnd.random() < 0.5:
        # an unrelated key in use at the same time
        k2 = k + 10
        progs.append(_timeline([(rnd.randint(1, T), "L%d" % k2)]) + ["S%d" % rnd.randint(1, 9), "U%d" % k2])
    if rnd.random() < 0.3:
        # a later round on the same key: it works normally afterwards
        progs.append(_timeline([(T + F + rnd.randint(1, F - 1), "L%d" % k)]) + ["S2", "U%d" % k])
    if _bounds(progs, 0, [])[1] >= S:
        return None                                           # the (pessimistic) bound of the holds must stay below S
    return _assemble("dar%05d" % idx, "aged-relock", progs, rnd, procs=rnd.choice([1, 1, 2]), maxsize=BIGSIZE, cleanup=F, stale=S,
                     yieldp=rnd.choice([0, 0, 200]))


def d_short_stale_relock(rnd, idx):
    """The staleness timeout is SHORTER than the clean-up period (S < F). A key is used at t0, and used again at r with
    t0 + S < r < T (T the next tick) and T - r < S: the second use refreshes the entry, so at the tick it is young and the
    clean-up must leave the held entry alone; a Lock arriving right after the tick has to wait. If a use did not refresh
    the entry's lastAccess (say, only when the recorded value is a whole clean-up period old) the tick would see an entry
    last used at t0, more than S ago, delete it while it is held, and admit the late-comer next to the holder.
    Every hold is shorter than S."""
    while True:
        F = rnd.choice([400, 1000, 1000, 2500])
        S = rnd.randint(F // 5, F // 2)                       # S < F
        k = rnd.choice([1, 2, 3, 7])
        m = rnd.randint(1, 3)
        t0 = m * F + rnd.randint(1, 3)                        # right after the m-th tick
        h1 = rnd.randint(0, 3)
        T = (m + 1) * F                                       # the next tick
        lo, hi = max(t0 + S + 1, T - S + 2), T - 1
        if lo > hi:
            continue
        r = rnd.randint(lo, hi)
        nw = rnd.randint(1, 3)
        d = rnd.randint(nw + 2, max(nw + 3, S // 4))          # the holder leaves at T + d, hold = T + d - r < S
        if T + d - r >= S - 2:
            continue
        a = [(t0, "L%d" % k), (t0 + h1, "U%d" % k), (r, "L%d" % k), (T + d, "U%d" % k)]
        progs = [_timeline(a)]
        for i in range(nw):
            arrive = T + rnd.randint(1, d - 1)
            progs.append(_timeline([(arrive, "L%d" % k)]) + ["S%d" % rnd.randint(1, 3), "U%d" % k])
        if rnd.random() < 0.5:
            k2 = k + 10
            progs.append(_timeline([(rnd.randint(1, T), "L%d" % k2)]) + ["S%d" % rnd.randint(1, 9), "U%d" % k2])
        if _bounds(progs, 0, [])[1] >= S:
            continue
        return _assemble("dsr%05d" % idx, "short-stale-relock", progs, rnd, procs=rnd.choice([1, 1, 2]), maxsize=BIGSIZE, cleanup=F, stale=S,
                         yieldp=rnd.choice([0, 0, 200]))


DIRECTED = [d_purge_held, d_stall, d_stall, d_waiters, d_spurious, d_indep, d_relock, d_aged_relock, d_short_stale_relock]


def gen_start(rnd, idx, tier):
    """K concurrent sessions.Start calls presenting one due id (SessionIDExpiry = 0), plus requests on other ids"""
    reqs = rnd.randint(2, 12 if tier == "thorough" else 6)
    others = rnd.choice([0, 0, 1, 2, 3])
    lines = ["mode start", "procs %d" % rnd.choice([1, 1, 2, 4]), "seed %d" % rnd.randrange(1 << 30), "yield %d" % rnd.choice([0, 300]),
             "reqs %d" % reqs, "others %d" % others, "cfg maxCache %d" % rnd.choice([0, 0, 0, 1, -1]),
             "tuning %d %d %d" % (rnd.choice([1, 2, BIGSIZE]), BIG, BIG)]
    sd = rnd.choice([None, 0, 0, 3, 10])
    if sd is not None:
        lines.append("storedelay %d" % sd)
    st = rnd.choice([0, 0, 1, 7])
    if st:
        lines.append("stagger %d" % st)
    md = rnd.choice([(0, 0), (0, 0), (300, 0), (300, 5)])
    if md[0]:
        lines.append("mdelay %d %d" % md)
    lines.append("watchdog %d" % 1000000)
    return Scenario("sta%05d" % idx, "concurrent-start", lines, mode="start", timing=False,
                    expect={"reqs": reqs, "others": others})


def gen_start_invalid(rnd, idx, tier):
    """K concurrent Start calls presenting one id that is no longer valid (SessionExpiry = 0): one of them destroys it, the others find
    nothing and create their own session; the per-id lock must still serialise them"""
    reqs = rnd.randint(3, 12 if tier == "thorough" else 6)
    lines = ["mode start", "procs %d" % rnd.choice([1, 2, 4]), "seed %d" % rnd.randrange(1 << 30), "yield %d" % rnd.choice([0, 300]),
             "reqs %d" % reqs, "others %d" % rnd.choice([0, 1]), "create 1", "cfg sessionExpiry 0", "cfg maxCache %d" % rnd.choice([0, -1, 1]),
             "tuning %d %d %d" % (BIGSIZE, BIG, BIG), "storedelay %d" % rnd.choice([3, 10, 10]), "watchdog %d" % 1000000]
    if rnd.random() < 0.5:
        lines.append("stagger %d" % rnd.choice([1, 7]))
    if rnd.random() < 0.6:
        # clean-ups of the lock table while a request is still inside Start after it destroyed the presented session:
        # the entry of the held id must survive them (nothing is stale, the table is far below its size limit)
        lines.append("purges %d %d" % (rnd.choice([2, 4, 8]), rnd.choice([1, 2, 5])))
    return Scenario("inv%05d" % idx, "concurrent-start-invalid", lines, mode="start", timing=False,
                    expect={"reqs": reqs, "others": 0, "invalid": True})


def scenarios(seed, tier, prop):
    rnd = random.Random(seed * 1000003 + 13)
    if tier == "quick":
        n_dir, n_rnd, n_start = 320, 600, 80
    else:
        n_dir, n_rnd, n_start = 6400, 24000, 2000
    out = []
    for i in range(n_dir):
        out.append(DIRECTED[i % len(DIRECTED)](rnd, i))
    for i in range(n_rnd):
        out.append(gen_random(rnd, i, tier))
    for i in range(n_start):
        out.append(gen_start(rnd, i, tier))
    for i in range(max(20, n_start // 4)):
        out.append(gen_start_invalid(rnd, i, tier))
    return out


# ---------------------------------------------------------------------------
# Running

class Outcome:
    def __init__(self, scen):
        self.scen = scen
        self.status = "ok"          # ok | infra
        self.error = None
        self.log = ""
        self.events = []            # (line number, t, words)
        self.tail = []              # done/stuck/late/size/end lines (word lists)
        self.verdicts = {}          # trace/proviso/exclusion/discipline -> None (ok) | (index, line)
        self.findings = []          # (prop, kind, message): failures a caller can observe
        self.stats = collections.Counter()
        self.nontrivial = False


def _run_harness(hbin, sp, lp, timeout=30):
    e = dict(os.environ)
    e["GOGC"] = "off"
    e.pop("GOMAXPROCS", None)
    last = ""
    for _ in range(3):
        try:
            p = subprocess.run([hbin, "-mode", "mx", "-script", sp, "-out", lp], env=e, stdout=subprocess.DEVNULL, stderr=subprocess.PIPE,
                               timeout=timeout)
        except subprocess.TimeoutExpired:
            last = "no real-time progress within %ds (virtual clock hang)" % timeout
            continue
        if p.returncode == 0:
            return None
        return "harness exit %d: %s" % (p.returncode, p.stderr.decode(errors="replace")[-300:])
    return last


def parse_driver(text):
    """-> list of verdict dicts, one per 'events' block"""
    out = []
    cur = None
    for line in text.split("\n"):
        w = line.split()
        if not w:
            continue
        if w[0] == "events":
            cur = {"n_events": int(w[1]), "n_calls": int(w[2])}
            out.append(cur)
        elif cur is not None and w[0] in ("trace", "proviso", "exclusion", "discipline"):
            if w[1] == "ok":
                cur[w[0]] = None
            else:
                cur[w[0]] = (int(w[2]), int(w[4]) if len(w) > 4 else 0)
    return out


def run_driver(paths, timeout=120):
    p = subprocess.run([env.driver_path(), "mx"] + paths, stdout=subprocess.PIPE, stderr=subprocess.PIPE, timeout=timeout)
    if p.returncode != 0:
        raise RuntimeError("driver exit %d: %s" % (p.returncode, p.stderr.decode(errors="replace")[-300:]))
    v = parse_driver(p.stdout.decode())
    if len(v) != len(paths):
        raise RuntimeError("driver answered %d of %d logs" % (len(v), len(paths)))
    return v


def parse_log(text):
    events, tail = [], []
    for n, line in enumerate(text.split("\n"), 1):
        if not line or line.startswith("#"):
            continue
        w = line.split(" ")
        if w[0] in ("done", "stuck", "late", "size", "end", "fatal"):
            tail.append(w)
            continue
        try:
            t = int(w[0])
        except ValueError:
            continue
        events.append((n, t, w[1:]))
    return events, tail


def derive_start_log(events):
    """Start mode: the critical section of request r is the span from its first to its last store/random-source
    callback. Rewritten as `ret L r k` before the first and `call U r k` after the last, so that the Lean monitor
    `checkExclusion` judges the serialisation of same-id requests."""
    first, last, key = {}, {}, {}
    for i, (_, _, w) in enumerate(events):
        if w[0] == "call" and w[1] == "S":
            key[int(w[2])] = w[3]
        elif w[0] in ("ev", "mint") and int(w[1]) >= 0:
            r = int(w[1])
            first.setdefault(r, i)
            last[r] = i
    lines = []
    for i, (_, t, w) in enumerate(events):
        for r in first:
            if first[r] == i and r in key:
                lines.append("%d ret L %d %s" % (t, r, key[r]))
        lines.append("%d %s" % (t, " ".join(w)))
        for r in last:
            if last[r] == i and r in key:
                lines.append("%d call U %d %s" % (t, r, key[r]))
    return "\n".join(lines) + "\n"


def run_chunk(hbin, wd, chunk):
    """chunk: list of (index, Scenario) -> list of Outcome"""
    outs = []
    logs = []
    for i, sc in chunk:
        o = Outcome(sc)
        sp = os.path.join(wd, "%06d.script" % i)
        lp = os.path.join(wd, "%06d.log" % i)
        with open(sp, "w") as f:
            f.write(sc.script)
        err = _run_harness(hbin, sp, lp)
        if err:
            o.status, o.error = "infra", err
        else:
            with open(lp) as f:
                o.log = f.read()
            o.events, o.tail = parse_log(o.log)
            if any(w[0] == "fatal" for w in o.tail) or not any(w[0] == "end" for w in o.tail):
                o.status, o.error = "infra", "incomplete log: " + o.log[-200:]
            else:
                dp = lp
                if sc.mode == "start":
                    dp = lp + ".derived"
                    with open(dp, "w") as f:
                        f.write(derive_start_log(o.events))
                logs.append((o, dp))
        outs.append(o)
        os.remove(sp)
    if logs:
        try:
            vs = run_driver([p for _, p in logs])
            for (o, _), v in zip(logs, vs):
                o.verdicts = v
        except (RuntimeError, subprocess.TimeoutExpired) as e:
            for o, _ in logs:
                o.status, o.error = "infra", str(e)
    for i, _ in chunk:
        for p in (os.path.join(wd, "%06d.log" % i), os.path.join(wd, "%06d.log.derived" % i)):
            if os.path.exists(p):
                os.remove(p)
    for o in outs:
        if o.status == "ok":
            try:
                analyse(o)
            except Exception as e:  # a monitor that crashes must not pass silently
                o.findings.append(("both", "monitor-crash", "monitor crashed on this log: %r" % (e,)))
    return outs


def run_all(hbin, scens, workers=None, chunk=12):
    workers = workers or max(2, env.NCPU - 2)
    idx = list(enumerate(scens))
    chunks = [idx[i:i + chunk] for i in range(0, len(idx), chunk)]
    with env.scratch("verif-mx-") as wd:
        # a private copy: the build cache is pruned whenever the tree hash changes (another check may rebuild meanwhile)
        own = os.path.join(wd, "h_ft")
        shutil.copy2(hbin, own)
        hbin = own
        with ThreadPoolExecutor(max_workers=workers) as ex:
            futs = [ex.submit(run_chunk, hbin, wd, c) for c in chunks]
            out = []
            for f in futs:
                out.extend(f.result())
            return out


# ---------------------------------------------------------------------------
# Monitors on what callers observe

def analyse(o):
    if o.scen.mode == "start":
        return analyse_start(o)
    return analyse_lock(o)


def _tail(o):
    stuck = [w for w in o.tail if w[0] == "stuck"]
    late = [w for w in o.tail if w[0] == "late"]
    end = [w for w in o.tail if w[0] == "end"][0]
    return stuck, late, end[2] == "wd=1"


def analyse_lock(o):
    ev = o.events
    F = o.findings
    st = o.stats
    stuck, late, wd = _tail(o)
    if late:
        o.status, o.error = "infra", "generator: goroutine still sleeping at the watchdog instant"
        return
    for w in stuck:
        F.append(("C14", "stuck", "goroutine %s is blocked for ever in %s(%s): every goroutine was blocked when the watchdog instant was reached"
                  % (w[1], {"L": "Lock", "U": "Unlock", "X": "Unlock", "P": "Purge"}.get(w[2], w[2]), w[3])))
    if wd and not stuck:
        F.append(("C14", "stuck", "the watchdog instant was reached although no call is pending"))

    procs = 1
    for l in o.scen.lines:
        if l.startswith("procs "):
            procs = int(l.split()[1])

    locks = collections.Counter()       # python's copy of the table, from the manager events (statistics only)
    present = set()
    purged = set()
    grants = collections.Counter()
    rets = collections.Counter()
    reg = collections.defaultdict(set)  # key -> goroutines between call L and ret U
    pend_lock = {}                      # g -> (key, t, i)
    lock_spans = []                     # (g, key, t_call, t_ret)
    hold_open = {}                      # (g, key) -> t of ret L
    holds = collections.defaultdict(list)   # key -> (g, t_from, t_to)
    xcalls = collections.Counter()
    x_open = {}                         # g -> key
    rel0 = collections.Counter()
    last_mgr = None                     # (index, words) of the previous manager event
    run_mgr = []                        # maximal run of consecutive manager events (no caller line in between)
    illegal_x = False
    for i, (ln, t, w) in enumerate(ev):
        k0 = w[0]
        if k0 in ("acq", "rel", "tok", "purge"):
            k, l = int(w[1]), int(w[2])
            if k0 == "acq":
                st["acq-grant" if l == 0 else "acq-queue"] += 1
                if l > 0:
                    o.nontrivial = True
                if k in purged:
                    st["relock-after-purge"] += 1
                    purged.discard(k)
                locks[k] = l + 1
                present.add(k)
                st["max-locks"] = max(st["max-locks"], l + 1)
            elif k0 == "rel":
                st["rel-none" if l == 0 else ("rel-last" if l == 1 else "rel-handover")] += 1
                if l == 0:
                    rel0[k] += 1
                locks[k] = max(0, l - 1)
                present.add(k)
            elif k0 == "tok":
                grants[k] += 1
                if grants[k] - rets[k] != 1:
                    F.append(("C14", "double-grant", "line %d: a token for key %d is sent while the previously admitted Lock has not returned" % (ln, k)))
                if last_mgr and last_mgr[1][0] == "rel" and int(last_mgr[1][1]) == k and int(last_mgr[1][2]) == 0:
                    F.append(("C14", "spurious-effect", "line %d: an Unlock of key %d, which was not held, sent a token" % (ln, k)))
                if procs == 1 and last_mgr and last_mgr[1][0] == "rel":
                    # hand-over decided in the same uninterrupted run of the manager in which the only waiter was queued:
                    # that waiter has not run since its acquire send, it is not parked on the item's channel yet
                    if any(x[0] == "acq" and int(x[1]) == k and int(x[2]) == 1 for x in run_mgr) and int(last_mgr[1][2]) == 2:
                        st["handover-to-unparked-waiter"] += 1
            else:
                st["purge-deletion"] += 1
                if l > 0:
                    st["purge-of-locked-entry"] += 1
                if any(v > 0 for kk, v in locks.items() if kk != k):
                    st["purge-deletion-while-other-key-held"] += 1
                if procs == 1 and any(x[0] == "acq" and int(x[2]) > 0 for x in run_mgr):
                    st["purge-between-acquire-and-getitem"] += 1
                if procs == 1 and any(x[0] == "acq" and int(x[2]) > 0 and int(x[1]) == k for x in run_mgr):
                    st["purge-between-acquire-and-getitem-same-key"] += 1
                locks.pop(k, None)
                present.discard(k)
                purged.add(k)
            last_mgr = (i, w)
            run_mgr.append(w)
            continue
        run_mgr = []
        if k0 == "call":
            op, g = w[1], int(w[2])
            if op == "L":
                k = int(w[3])
                pend_lock[g] = (k, t, i)
                reg[k].add(g)
            elif op == "U":
                k = int(w[3])
                if (g, k) in hold_open:
                    holds[k].append((g, hold_open.pop((g, k)), t))
            elif op == "X":
                k = int(w[3])
                xcalls[k] += 1
                x_open[g] = k
                if reg[k]:
                    illegal_x = True
            elif op == "P":
                if any(v > 0 for v in locks.values()):
                    st["purge-request-while-held"] += 1
        elif k0 == "ret":
            op, g = w[1], int(w[2])
            if op == "L":
                k = int(w[3])
                rets[k] += 1
                if rets[k] != grants[k]:
                    F.append(("C14", "double-admit", "line %d: Lock(%d) returned in goroutine %d without a token of its own: more than one waiter admitted by one release" % (ln, k, g)))
                kk, t0, _ = pend_lock.pop(g, (k, t, i))
                lock_spans.append((g, k, t0, t))
                hold_open[(g, k)] = t
                if any(v >= 2 for k2, v in locks.items() if k2 != k) and t == t0:
                    st["lock-on-free-key-while-others-contended"] += 1
            elif op == "U":
                reg[int(w[3])].discard(g)
            elif op == "X":
                x_open.pop(g, None)
        if x_open:
            for g, k in x_open.items():
                if reg[k]:
                    illegal_x = True
    if illegal_x:
        o.status, o.error = "infra", "generator: a spurious Unlock overlapped a Lock on the same key"
        return
    for (g, k), t in hold_open.items():
        holds[k].append((g, t, None))
    # every Lock returned
    for g, (k, t, _) in pend_lock.items():
        if not any(w[1] == str(g) for w in stuck):
            F.append(("C14", "stuck", "Lock(%d) called by goroutine %d at %d never returned" % (k, g, t)))
    # grants and returns match at the end
    if not stuck:
        for k in grants:
            if grants[k] != rets[k]:
                F.append(("C14", "lost-grant", "key %d: %d tokens sent, %d Locks returned" % (k, grants[k], rets[k])))
    # an Unlock of a key that is not held has no effect: it is the only source of `rel k 0`, never wakes anybody
    # (checked above), and the locks values around it are checked by the trace conformance
    done_x = sum(xcalls.values())
    st["spurious-unlocks"] += done_x
    if not stuck:
        for k in set(rel0) | set(xcalls):
            if rel0[k] != xcalls[k]:
                F.append(("C14", "spurious-effect", "key %d: %d spurious Unlocks but %d releases saw locks = 0 (a matching Unlock found its entry gone, or a spurious one found a count)" % (k, xcalls[k], rel0[k])))
    # key independence in virtual time: a Lock is delayed only while another goroutine holds the same key
    if o.scen.timing:
        for g, k, t0, t1 in lock_spans:
            if t1 == t0:
                continue
            covered = 0
            iv = sorted((max(a, t0), min(b if b is not None else t1, t1)) for g2, a, b in holds[k] if g2 != g)
            cur = t0
            for a, b in iv:
                if b <= cur:
                    continue
                if a > cur:
                    break
                cur = b
            covered = cur - t0
            if covered < t1 - t0:
                F.append(("C14", "coupling", "Lock(%d) in goroutine %d was called at %d and returned at %d, but from %d on no other goroutine held key %d: it was delayed by other keys" % (k, g, t0, t1, cur, k)))
                break
        for g, k in o.scen.indep:
            sp = [s for s in lock_spans if s[0] == g and s[1] == k]
            if not sp:
                continue
            st["independence-probes"] += len(sp)
            for _, _, t0, t1 in sp:
                if t1 != t0:
                    F.append(("C14", "coupling", "Lock(%d) on a free key, goroutine %d, called at %d returned at %d while other keys were contended" % (k, g, t0, t1)))
    st["lock-calls"] += len(lock_spans)
    st["waited-locks"] += sum(1 for s in lock_spans if s[3] > s[2])


def analyse_start(o):
    ev = o.events
    F = o.findings
    st = o.stats
    stuck, late, wd = _tail(o)
    for w in stuck:
        F.append(("C14", "stuck", "request %s presenting id #%s never returned from Start: every goroutine was blocked at the watchdog instant" % (w[1], w[3])))
    presented = {}
    first, last = {}, {}
    mints = collections.defaultdict(list)
    results = {}
    conc = False
    for i, (ln, t, w) in enumerate(ev):
        if w[0] == "concurrent":
            conc = True
        if not conc:
            continue
        if w[0] == "call" and w[1] == "S":
            presented[int(w[2])] = int(w[3])
        elif w[0] in ("ev", "mint"):
            r = int(w[1])
            if r >= 0:
                first.setdefault(r, (i, ln))
                last[r] = (i, ln)
                if w[0] == "mint":
                    mints[r].append(int(w[2]))
        elif w[0] == "ret" and w[1] == "S":
            results[int(w[2])] = (w[4], w[5], w[6])
        elif w[0] == "acq" and int(w[2]) > 0:
            o.nontrivial = True
    by_id = collections.defaultdict(list)
    for r, k in presented.items():
        by_id[k].append(r)
    for k, rs in by_id.items():
        spans = sorted((first[r][0], last[r][0], r) for r in rs if r in first)
        for (a1, b1, r1), (a2, b2, r2) in zip(spans, spans[1:]):
            if a2 < b1:
                F.append(("C13", "start-overlap", "requests %d and %d presenting the same id #%d were inside Start's lookup-validate-rotate step at the same time (log lines %d..%d and %d..%d)"
                          % (r1, r2, k, first[r1][1], last[r1][1], first[r2][1], last[r2][1])))
                break
        nm = sum(len(mints[r]) for r in rs)
        st["ids-minted-per-due-id=%d" % nm] += 1
        done = [r for r in rs if r in results]
        if (o.scen.expect or {}).get("invalid"):
            continue  # nothing is due here: only the serialisation of the requests is judged
        if len(done) == len(rs) and nm != 1:
            F.append(("C04", "start-mint", "%d concurrent requests presenting the due id #%d minted %d new ids (exactly one is expected)" % (len(rs), k, nm)))
        sids = set(results[r][1] for r in done if results[r][0] == "sess")
        if len(sids) > 1:
            F.append(("C04", "start-split", "requests presenting id #%d were answered with different sessions: %s" % (k, sorted(sids))))
        bad = [(r, results[r][0]) for r in done if results[r][0] != "sess"]
        if bad:
            F.append(("C04", "start-lost", "requests presenting the due id #%d were not served: %s" % (k, bad[:4])))
        if len(rs) > 1:
            st["same-id-requests"] += len(rs)
    st["start-requests"] += len(presented)


# ---------------------------------------------------------------------------
# Self-test of the monitors on the real package: two schedules OUTSIDE the properties' provisos, on which the
# unmodified code must show exactly the failures the monitors exist to see. A monitor that stays quiet here is blind.

def canaries():
    # a hold (100 ns) longer than the staleness timeout (30 ns): the clean-up deletes the held entry, the next Lock
    # finds no entry and is admitted while the first holder is still inside
    two_holders = Scenario("canary-two-holders", "canary",
                           ["mode lock", "procs 1", "tuning %d 7 30" % BIGSIZE, "seed 1", "yield 0", "watchdog 2000",
                            "g 0 L1 S100 U1", "g 1 S50 L1 S100 U1"], timing=False)
    # a holder that never unlocks: the waiter must be reported stuck at the watchdog instant
    never_unlocks = Scenario("canary-stuck", "canary",
                             ["mode lock", "procs 1", "tuning %d %d %d" % (BIGSIZE, 50, BIG), "seed 1", "yield 0", "watchdog 2000",
                              "g 0 L1", "g 1 S5 L1 U1"], timing=False)
    return [two_holders, never_unlocks]


def judge_canaries(outs):
    """-> (dict for the evidence, error message or None)"""
    res = {}
    err = []
    a, b = outs
    if a.status != "ok" or b.status != "ok":
        return {"error": a.error or b.error}, "the self-test schedules could not be run: %s" % (a.error or b.error)
    res["hold-longer-than-timeout"] = {k: ("fail" if a.verdicts.get(k) else "ok") for k in ("trace", "proviso", "exclusion")}
    if not a.verdicts.get("proviso") or not a.verdicts.get("exclusion") or a.verdicts.get("trace"):
        err.append("a hold longer than the staleness timeout must show as a conforming trace with `proviso fail` and `exclusion fail`, got %s" % res["hold-longer-than-timeout"])
    stuck = [w for w in b.tail if w[0] == "stuck"]
    res["holder-never-unlocks"] = [" ".join(w) for w in b.tail]
    if [w[1:] for w in stuck] != [["1", "L", "1"]] or not any(f[1] == "stuck" for f in b.findings):
        err.append("a waiter behind a holder that never unlocks must be reported stuck, got %s" % res["holder-never-unlocks"])
    return res, ("; ".join(err) or None)


# ---------------------------------------------------------------------------
# Verdicts and evidence

def _within_active_phase(o, line):
    """The generator's bound of every hold presupposes that nothing is stuck. Once the run is past the bound of its
    whole duration (watchdog - 1000) somebody waits for ever, entries with waiters do go stale, and their deletion is
    a consequence of the deadlock (C14), not a failure of exclusion."""
    wd = None
    for l in o.scen.lines:
        if l.startswith("watchdog "):
            wd = int(l.split()[1])
    t = None
    for ln, tt, _ in o.events:
        if ln == line:
            t = tt
    return wd is None or t is None or t <= wd - 1000


def classify(o, prop):
    """-> (observable findings of prop, conformance failures relevant to prop)"""
    obs = [f for f in o.findings if f[0] in (prop, "both")]
    conf = []
    v = o.verdicts
    if prop == "C13":
        if v.get("exclusion"):
            what = ("two Starts on one id inside the critical section" if o.scen.mode == "start" else "two holders of one key")
            where = "line %d of the derived section log" if o.scen.mode == "start" else "log line %d"
            obs.append(("C13", "exclusion", "%s: Mx.checkExclusion fails at caller event %d (%s)" % (what, v["exclusion"][0], where % v["exclusion"][1])))
        # a held entry deleted by the clean-up counts as a failure of its own only when it is the first thing that
        # goes wrong: after a non-conforming manager event (say a lost wake-up) somebody may wait for ever, and that
        # entry does go stale
        if v.get("proviso") and _within_active_phase(o, v["proviso"][1]) and not (v.get("trace") and v["trace"][0] < v["proviso"][0]):
            obs.append(("C13", "purged-while-held", "the clean-up deleted an entry with locks > 0 although every hold is shorter than the staleness timeout "
                        "(manager event %d, log line %d)" % v["proviso"]))
    if v.get("trace"):
        conf.append(("trace", "manager event %d (log line %d) is not a transition of the model" % v["trace"]))
    return obs, conf


def replay_text(o, headers):
    body = "".join("// " + h + "\n" for h in headers) + o.scen.script
    body += "// ---- log of the failing run ----\n" + "".join("// log: " + l + "\n" for l in o.log.rstrip("\n").split("\n"))
    return body


def split_replay(path):
    """-> (Scenario, recorded log text or None)"""
    script, log = [], []
    with open(path) as f:
        for line in f:
            line = line.rstrip("\n")
            if line.startswith("// log: "):
                log.append(line[8:])
            elif line.startswith("//") or not line.strip():
                continue
            else:
                script.append(line)
    mode = "start" if "mode start" in script else "lock"
    timing = not any((l.startswith("mdelay ") and int(l.split()[2]) > 0) or (l.startswith("mat ") and int(l.split()[4]) > 0) for l in script)
    return Scenario("replay", "replay", script, mode=mode, timing=timing and mode == "lock"), ("\n".join(log) + "\n" if log else None)


RULE = ("scenarios are generated from VERIF_SEED: random programs (G goroutines of Lock/Unlock sections over K keys with nested sections, "
        "sleeps, yields, explicit purges, spurious Unlocks of free keys; table limit 1..3 or large; clean-up period 5..61 ns or none; "
        "staleness timeout above every hold, in 40% of the cases small enough for idle entries to go stale mid-run; manager stalls "
        "injected through the trace hook; GOMAXPROCS 1, 2 or 4), directed families (purge while held, manager stall with arrivals served "
        "back to back, many waiters, spurious unlock, lock on a free key under contention elsewhere, re-lock after purge, re-lock of an "
        "entry older than the staleness timeout held across a clean-up tick) and concurrent "
        "sessions.Start calls on one due id. Each is executed on the real package under the virtual clock; the Lean checkers "
        "Mx.Exec.checkTrace/checkProviso/checkExclusion (proved complete for the transition system the theorems are about) replay the "
        "log. non-trivial = distinct script in whose run at least one Lock found its key taken (an acquire with locks > 0)")

ASSUMPTIONS = [
    "Go's runtime (channel rendezvous, scheduler, select) implements the synchronisation the transition system states",
    "holds (plus scheduling delay) are shorter than the staleness timeout: the generators compute an upper bound of every hold and set the timeout above it",
    "the log's global order: caller events are appended after Lock returns and before Unlock is called, manager events inside the manager loop, all under one mutex",
    "the virtual clock advances only when every goroutine is blocked, so a call still pending at the watchdog instant is blocked for ever",
    "clients unlock what they locked and take nested locks in ascending key order (otherwise the premise 'every holder eventually unlocks' fails)",
]


def build_or_report(rep, prop):
    try:
        return env.build_harness("ft")
    except env.BuildError as e:
        p = write_replay(prop, 903, [e.what], e.output, ext="txt")
        rep.cov.update({"obligations": len(OBLIGATIONS.get(prop, [])), "discharged": 0, "checker_cmd": "go build (failed)", "trusted_base": list(TRUSTED_BASE),
                        "evaluations": 0, "distinct_nontrivial": 0, "rule": "none: the harness does not build", "samples": [e.output[-300:]],
                        "traces_validated_against_impl": 0})
        rep.violation(p, "the verification harness does not build against the current tree, no correspondence can be established", no_input=True)
        return None


def check(prop, tier, seed, replay=None):
    rep = Report(prop, tier, seed)
    hbin = build_or_report(rep, prop)
    if hbin is None:
        return rep.finish()
    lean_ok = lean_part(rep, prop)
    from . import facts
    fact_msgs = facts.facts_for(rep, prop)
    if lean_ok:
        # the default lake target is the library; the executable with `driver mx` is a target of its own
        ok, out, _ = env.lake_build(["driver"])
        if not ok:
            lean_ok = False
            p = write_replay(prop, 906, ["lake build driver failed: the executable checkers cannot be run"], "\n".join(out.strip().split("\n")[-40:]) + "\n", ext="txt")
            rep.violation(p, "lake build driver failed; no log can be checked against the model", no_input=True)
    if not lean_ok or not os.path.exists(env.driver_path()):
        rep.cov.update({"evaluations": 0, "distinct_nontrivial": 0, "rule": "none: the Lean driver does not build", "samples": [],
                        "traces_validated_against_impl": 0})
        return rep.finish()
    recorded = None
    if replay:
        sc, recorded = split_replay(replay)
        scens = [sc] * 24 if sc.lines else []
    else:
        scens = scenarios(seed, tier, prop)
    can = canaries()
    outs = run_all(hbin, scens + can)
    can_res, can_err = judge_canaries(outs[len(scens):])
    outs = outs[:len(scens)]
    rep.cov["monitor_self_test"] = can_res
    if can_err:
        p = write_replay(prop, 907, ["self-test of the monitors failed on the real package"], can_err + "\n" + can[0].script + "\n" + can[1].script, ext="txt")
        rep.violation(p, "self-test of the monitors failed: " + can_err, no_input=True)
    if recorded:
        # the recorded log of the failing run is judged again for the reader (it is a fact about the tree it was
        # recorded on, so it does not enter today's verdict: that comes from running the script again)
        sc0 = scens[0] if scens else Scenario("replay", "replay", [], mode="lock")
        o = Outcome(Scenario("recorded", "replay", sc0.lines, mode=sc0.mode, timing=sc0.timing))
        o.log = recorded
        o.events, o.tail = parse_log(recorded)
        with env.scratch("verif-mxr-") as d:
            lp = os.path.join(d, "recorded.log")
            with open(lp, "w") as f:
                f.write(derive_start_log(o.events) if sc0.mode == "start" else recorded)
            try:
                o.verdicts = run_driver([lp])[0]
                if any(w[0] == "end" for w in o.tail):
                    analyse(o)
                obs, conf = classify(o, prop)
                rep.say("recorded log: " + ("; ".join(x[2] for x in obs[:3] + [("", "", c[1]) for c in conf[:1]]) or "nothing wrong for %s" % prop))
            except Exception as e:
                rep.say("recorded log could not be judged: %s" % e)

    infra = [o for o in outs if o.status != "ok"]
    good = [o for o in outs if o.status == "ok"]
    stats = collections.Counter()
    fam = collections.Counter()
    nontriv = set()
    for o in good:
        for k, v in o.stats.items():
            if k == "max-locks":
                stats[k] = max(stats[k], v)
            else:
                stats[k] += v
        fam[o.scen.family] += 1
        if o.nontrivial:
            nontriv.add(hashlib.sha1(o.scen.script.encode()).hexdigest())
    validated = sum(1 for o in good if not o.verdicts.get("trace") and not o.verdicts.get("exclusion") and not o.verdicts.get("proviso"))
    rep.cov["evaluations"] = len(outs)
    rep.cov["distinct_nontrivial"] = len(nontriv)
    rep.cov["rule"] = RULE
    rep.cov["traces_validated_against_impl"] = validated
    rep.cov["infrastructure_errors"] = len(infra)
    if infra:
        rep.cov["infrastructure_error_sample"] = infra[0].error
    rep.cov["scenarios_by_family"] = dict(fam.most_common())
    rep.cov["model_transitions_and_situations_hit"] = dict(sorted(stats.items()))
    rep.cov["manager_events_checked"] = sum(o.verdicts.get("n_events", 0) for o in good)
    rep.cov["caller_events_checked"] = sum(o.verdicts.get("n_calls", 0) for o in good)
    samples = []
    for famname in ("random", "manager-stall", "concurrent-start"):
        for o in good:
            if o.scen.family == famname:
                samples.append({"family": famname, "script": o.scen.lines, "log_head": o.log.split("\n")[len(o.scen.lines):len(o.scen.lines) + 25]})
                break
    if not samples and good:
        samples.append({"script": good[0].scen.lines})
    samples += [{"theorem": t} for t in OBLIGATIONS.get(prop, [])[:4]]
    rep.cov["samples"] = samples
    rep.assumptions = list(ASSUMPTIONS)

    # discipline failures mean the generator broke the client contract: not a verdict about the package
    # (after two holders of one key the monitor's holder map is meaningless: only failures before that count)
    disc = [o for o in good if o.verdicts.get("discipline") and o.scen.mode == "lock"
            and not (o.verdicts.get("exclusion") and o.verdicts["exclusion"][0] <= o.verdicts["discipline"][0])]
    rep.cov["client_discipline_errors"] = len(disc)

    observed = []
    conform = []
    for o in good:
        obs, conf = classify(o, prop)
        if obs:
            observed.append((o, obs))
        elif conf:
            conform.append((o, conf))
    rep.cov["observable_failures"] = len(observed)
    rep.cov["conformance_failures_without_observable_failure"] = len(conform)
    counter = 0
    if observed:
        # schedules on one P replay (almost) deterministically: prefer them as replays, shortest first
        observed.sort(key=lambda x: ("procs 1" not in x[0].scen.lines, len(x[0].scen.script), len(x[0].log)))
        seen = set()
        for o, obs in observed:
            kind = obs[0][1]
            if kind in seen or len(seen) >= 3:
                continue
            seen.add(kind)
            counter += 1
            hdr = ["property %s violated on the real package (scenario %s, family %s)" % (prop, o.scen.name, o.scen.family)] + [x[2] for x in obs[:5]]
            for name in ("trace", "proviso", "exclusion"):
                if o.verdicts.get(name):
                    hdr.append("driver mx: %s fail at event %d, log line %d" % ((name,) + tuple(o.verdicts[name])))
            hdr.append("%d of %d scenarios show an observable failure" % (len(observed), len(outs)))
            hdr.append("re-run: bin/check %s --replay <this file>  (the script is run 24 times; the recorded log below is shown again but does not enter the verdict)" % prop)
            p = write_replay(prop, counter, hdr, replay_text(o, []), ext="script")
            rep.violation(p, "%s: %s (scenario %s)" % (obs[0][1], obs[0][2], o.scen.name))
    elif conform:
        conform.sort(key=lambda x: ("procs 1" not in x[0].scen.lines, len(x[0].scen.script), len(x[0].log)))
        o, conf = conform[0]
        counter += 1
        hdr = ["the manager's logged behaviour is no longer a behaviour of the Lean model (scenario %s, family %s); no caller-observable failure of %s was found in %d scenarios"
               % (o.scen.name, o.scen.family, prop, len(outs))] + [c[1] for c in conf] + \
              ["%d scenarios have a non-conforming manager trace" % len(conform),
               "the theorems of %s are about the model and say nothing about this code until the model is brought back in line" % prop]
        p = write_replay(prop, counter, hdr, replay_text(o, []), ext="script")
        rep.violation(p, "trace conformance: %s (scenario %s)" % (conf[0][1], o.scen.name), no_input=True)
    if outs and len(infra) * 5 > len(outs):
        p = write_replay(prop, 904, ["more than a fifth of the scenarios could not be evaluated"], (infra[0].error or "") + "\n", ext="txt")
        rep.violation(p, "infrastructure: %d of %d scenarios could not be evaluated (%s)" % (len(infra), len(outs), (infra[0].error or "")[:120]), no_input=True)
    if disc:
        o = disc[0]
        p = write_replay(prop, 905, ["generator error: Unlock by a goroutine that does not hold the key"], replay_text(o, []), ext="script")
        rep.violation(p, "generator error: client discipline violated in %d scenarios" % len(disc), no_input=True)
    facts.report_fact_failures(rep, prop, fact_msgs)
    return rep.finish()


# ---------------------------------------------------------------------------
# C04: K concurrent requests on one due id (used by vlib/check.py)

def concurrent_rotation(rep, tier, seed, counter):
    """Runs the concurrent-Start scenarios on the real package and reports what C04 says about them: exactly one id is
    minted for a due id however many requests present it concurrently, and all of them get the same session."""
    hbin = env.build_harness("ft")
    ok, out, _ = env.lake_build(["driver"])
    rnd = random.Random(seed * 1000003 + 404)
    n = 120 if tier == "quick" else 4000
    scens = [gen_start(rnd, i, tier) for i in range(n)]
    outs = run_all(hbin, scens)
    good = [o for o in outs if o.status == "ok"]
    rep.cov["concurrent_start_scenarios"] = len(good)
    rep.cov["concurrent_start_infrastructure_errors"] = len(outs) - len(good)
    bad = []
    for o in good:
        obs, _ = classify(o, "C04")
        if obs:
            bad.append((o, obs))
    bad.sort(key=lambda x: len(x[0].scen.script))
    for o, obs in bad[:1]:
        counter[0] += 1
        p = write_replay("C04", counter[0], ["C04 violated under concurrency: " + obs[0][2], "scenario %s (harness mode mx/start)" % o.scen.name],
                         replay_text(o, []), ext="mxscript")
        rep.violation(p, "%s: %s (scenario %s)" % (obs[0][1], obs[0][2], o.scen.name))
    return len(bad)
