"""C20 — ReasonablePassword rejects exactly what its rules say, for every input.

Theorems (Lean, for all inputs and all word lists): Pw.classify_first_rule, _le, _short_iff, _ok_iff,
_list_rejected, _names_monotone, the Go-faithful rune decoder and repetition loop. Tie: the real
function and the compiled model are run on the same queries (every list entry in the thorough tier),
with the word lists read from the Go source constants by an independent reader; a reference classifier
written from the property text judges the real function's answers directly."""
import base64
import gzip
import os
import random
import re
import subprocess

from . import env
from .check import Report, lean_part, write_replay
from .obligations import OBLIGATIONS, TRUSTED_BASE

SEQUENCES = ["qwertyuiop", "qwertzuiopü", "azertyuiop", "asdfghjklöä", "qsdfghjklm", "01234567890", "abcdefghijklmnopqrstuvwxyz"]
NAMES = {0: "PasswordOK", 1: "PasswordTooShort", 2: "PasswordIsAName", 3: "PasswordWasCompromised", 4: "PasswordFoundInDictionary",
         5: "PasswordRepetitive", 6: "PasswordSequential"}


def extract_list(path, const):
    with open(path, encoding="utf-8") as f:
        src = f.read()
    m = re.search(r"const\s+%s\s*=\s*`([^`]*)`" % const, src)
    if not m:
        return None
    raw = base64.b64decode(m.group(1).replace("\n", ""))
    return gzip.decompress(raw).split(b"\n")


def hexs(b):
    return b.hex() if b else "-"


def gen_queries(rnd, common, dictionary, tier):
    qs = []  # (pw bytes, [name bytes])

    def add(pw, names=()):
        qs.append((pw, list(names)))

    if tier == "thorough":
        for w in common:
            add(w)
        for w in dictionary:
            add(w)
    else:
        for lst in (common, dictionary):
            for w in lst[:60] + lst[-60:]:
                add(w)
            for w in rnd.sample(lst, min(4000, len(lst))):
                add(w)
    sample = rnd.sample(common, 400) + rnd.sample(dictionary, 400)
    for w in sample:
        if not w:
            continue
        add(w.upper())
        add(w.capitalize())
        add(w + b"1")
        add(b"x" + w)
        add(w[:-1])
        add(w, [w.upper()])
        add(w + b"zq", [b"alice", (w + b"ZQ")])
    for s in SEQUENCES:
        b = s.encode()
        chars = list(s)
        for i in range(len(chars)):
            for j in range(i + 1, len(chars) + 1):
                sub = "".join(chars[i:j]).encode()
                if len(sub) >= 6:
                    add(sub)
                    add(sub.upper())
                    add(sub + b"x")
                    add(b"x" + sub)
        add(b[::-1])
    # strings that span the end of one sequence and the start of another: contained in no single sequence
    for s1 in SEQUENCES:
        for s2 in SEQUENCES:
            for i in range(2, 7):
                for j in range(2, 7):
                    w = (s1[-i:] + s2[:j]).encode()
                    if len(w) >= 8:
                        add(w)
                        add(w.upper())
    for ch in ["a", "Z", "0", "é", "ü", "€", "😀", "\x00", " "]:
        for n in range(1, 13):
            add((ch * n).encode())
        add((ch * 7 + "b").encode())
        add(("b" + ch * 7).encode())
    for byte in (0xFF, 0x80, 0xC3, 0xE2, 0xF0, 0xED):
        for n in (7, 8, 9, 12):
            add(bytes([byte]) * n)
    add(b"\xed\xa0\x80" * 3)       # surrogate
    add(b"\xc0\xaf" * 4)           # overlong
    add(b"\xf4\x90\x80\x80" * 2)   # > U+10FFFF
    add(b"aaaaaaa\xff")
    add(b"\xffaaaaaaa")
    # with runes on which lower-casing and Unicode case FOLDING disagree (İ ı ſ ς σ Σ K Å ǅ): the name rule compares lower-cased text
    alphabet = "abcdefghijklmnopqrstuvwxyzABCDEFGHIJKLMNOPQRSTUVWXYZ0123456789 !#äÖß€İıſςσΣ\u212a\u212bǅsSkKiI"
    for _ in range(3000 if tier == "quick" else 60000):
        n = rnd.choice([0, 1, 5, 6, 7, 7, 8, 8, 8, 9, 9, 10, 12, 16, 24, 33, 64])
        s = "".join(rnd.choice(alphabet) for _ in range(n)).encode()
        if rnd.random() < 0.1:
            s = s[:n]  # cut at a byte boundary that may split a rune
        names = []
        if rnd.random() < 0.4:
            for _ in range(rnd.randint(1, 4)):
                r = rnd.random()
                if r < 0.3:
                    names.append(s.decode("utf-8", "ignore").swapcase().encode())
                elif r < 0.4:
                    names.append(s)
                elif r < 0.5:
                    names.append(s + b"x")
                else:
                    names.append("".join(rnd.choice(alphabet) for _ in range(rnd.randint(0, 12))).encode())
        add(s, names)
    add("STRASSE1".encode(), ["straße1".encode()])
    add("ÜBERMENSCH".encode(), ["übermensch".encode()])
    add("KELVINK12".encode(), ["kelvink12".encode()])
    add("İSTANBUL1".encode(), ["i̇stanbul1".encode()])
    # lower-casing versus case folding
    add("ibrahimkaya".encode(), ["İbrahimKaya".encode()])
    add("İbrahimKaya".encode(), ["ibrahimkaya".encode()])
    add("paſſword1!".encode(), ["Password1!".encode()])
    add("Password1!".encode(), ["paſſword1!".encode()])
    add("σίσυφος12".encode(), ["ΣΊΣΥΦΟΣ12".encode()])
    add("ΣΊΣΥΦΟς12".encode(), ["σίσυφοσ12".encode()])
    add("\u212aelvin-273".encode(), ["kelvin-273".encode()])
    add("ırmak-ırmak".encode(), ["IRMAK-IRMAK".encode()])
    return qs


def is_ascii(b):
    return all(c < 0x80 for c in b)


def reference(pw, pwl, names, common, dictionary):
    """The result the property text demands, or a set of acceptable results where it leaves a choice."""
    if len(pw) < 8:
        return {1}
    for n, nl in names:
        if pwl == nl:
            return {2}
    if pw in common:
        return {3}
    if pw in dictionary:
        return {4}
    rest = set()
    try:
        s = pw.decode("utf-8")
        valid = "\x00" not in s
    except UnicodeDecodeError:
        s, valid = None, False
    if valid:
        if len(set(s)) == 1:
            return {5}
    else:
        rest.add(5)  # the repeated-character rule is defined on runes; not claimed for invalid UTF-8 / NUL
    for q in SEQUENCES:
        if pwl in q.encode():
            return rest | {6}
    return rest | {0}


def main(tier, seed, replay=None):
    rep = Report("C20", tier, seed)
    try:
        hbin = env.build_harness("plain")
    except env.BuildError as e:
        p = write_replay("C20", 903, [e.what], e.output, ext="txt")
        rep.cov.update({"obligations": len(OBLIGATIONS["C20"]), "discharged": 0, "checker_cmd": "go build (failed)", "trusted_base": list(TRUSTED_BASE),
                        "evaluations": 0, "distinct_nontrivial": 0, "rule": "none", "samples": [e.output[-300:]]})
        rep.violation(p, "the verification harness does not build against the current tree", no_input=True)
        return rep.finish()
    lean_part(rep, "C20")
    from . import facts
    fact_msgs = facts.facts_for(rep, "C20")
    common = extract_list(os.path.join(env.REPO, "commonpasswords.go"), "commonPasswordsCompressed")
    dictionary = extract_list(os.path.join(env.REPO, "dictionary.go"), "dictionaryCompressed")
    if common is None or dictionary is None:
        p = write_replay("C20", 1, ["the compressed word lists could not be read from the source constants"], "", ext="txt")
        rep.cov.update({"evaluations": 0, "distinct_nontrivial": 0, "rule": "none", "samples": []})
        rep.violation(p, "word list constants not found in the source", no_input=True)
        return rep.finish()
    cset, dset = set(common), set(dictionary)
    rnd = random.Random(seed)
    if replay:
        with open(replay) as f:
            lines = [l.strip() for l in f if l.strip() and not l.startswith("//")]
        queries = []
        for l in lines:
            t = l.split(" ")
            queries.append((bytes.fromhex(t[0]) if t[0] != "-" else b"", [bytes.fromhex(x) if x != "-" else b"" for x in t[1:]]))
    else:
        queries = gen_queries(rnd, [w for w in common if w], [w for w in dictionary if w], tier)
    viol = []
    mism = []
    counts = {}
    with env.scratch("verif-pw-") as d:
        with open(os.path.join(d, "common.txt"), "wb") as f:
            f.write(b"\n".join(w for w in common if w) + b"\n")
        with open(os.path.join(d, "dict.txt"), "wb") as f:
            f.write(b"\n".join(w for w in dictionary if w) + b"\n")
        qp, op, mp = os.path.join(d, "q.txt"), os.path.join(d, "impl.txt"), os.path.join(d, "model.txt")
        with open(qp, "w") as f:
            for pw, names in queries:
                f.write(" ".join([hexs(pw)] + [hexs(n) for n in names]) + "\n")
        p = subprocess.run([hbin, "-mode", "pw", "-script", qp, "-out", op], stdout=subprocess.PIPE, stderr=subprocess.PIPE, timeout=1800)
        if p.returncode != 0:
            pth = write_replay("C20", 2, ["harness failed"], p.stderr.decode(errors="replace"), ext="txt")
            rep.cov.update({"evaluations": 0, "distinct_nontrivial": 0, "rule": "none", "samples": []})
            rep.violation(pth, "the harness failed (exit %d)" % p.returncode, no_input=True)
            return rep.finish()
        with open(mp, "wb") as f:
            p2 = subprocess.run([env.driver_path(), "pw", os.path.join(d, "common.txt"), os.path.join(d, "dict.txt"), op], stdout=f,
                                stderr=subprocess.PIPE, timeout=1800)
        with open(op) as f:
            impl = f.read().split("\n")
        with open(mp) as f:
            model = f.read().split("\n")
    hdr = impl[0].split()
    list_note = None
    if hdr[0] == "lists":
        if int(hdr[1]) != len(common) or int(hdr[2]) != len(dictionary):
            list_note = "the package decompressed %s/%s entries, the source constants hold %d/%d" % (hdr[1], hdr[2], len(common), len(dictionary))
    impl = [l for l in impl[1:] if l]
    model = [l for l in model if l]
    for i, (pw, names) in enumerate(queries):
        if i >= len(impl):
            break
        t = impl[i].split(" ")
        code = int(t[0])
        pwl = bytes.fromhex(t[2]) if t[2] != "-" else b""
        nl = []
        rest = t[3:]
        for j in range(0, len(rest) - 1, 2):
            nl.append((bytes.fromhex(rest[j]) if rest[j] != "-" else b"", bytes.fromhex(rest[j + 1]) if rest[j + 1] != "-" else b""))
        counts[code] = counts.get(code, 0) + 1
        if code < 0:
            viol.append((i, "ReasonablePassword panicked", pw, names))
            continue
        want = reference(pw, pwl, nl, cset, dset)
        if code not in want:
            viol.append((i, "returned %s, the rules demand %s" % (NAMES.get(code, code), "/".join(NAMES[w] for w in sorted(want))), pw, names))
        if i < len(model) and model[i] not in ("inconsistent",) and model[i] != str(code):
            mism.append((i, "model says %s, implementation %s" % (model[i], code), pw, names))
    if list_note:
        viol.insert(0, (0, list_note, queries[0][0], queries[0][1]))
    rep.cov["evaluations"] = len(queries)
    rep.cov["distinct_nontrivial"] = len(set((pw, tuple(n)) for pw, n in queries if len(pw) >= 8))
    rep.cov["exhaustive"] = tier == "thorough"
    rep.cov["rule"] = ("queries = entries of both embedded word lists (%s), case/suffix variants of entries, all substrings of the seven sequences "
                       "of length >= 6 with variants, repeated runes of widths 1-4, invalid UTF-8 and NUL, random strings of length 0..64 with random "
                       "name lists; each is answered by the real ReasonablePassword, by the compiled Lean model and by a reference classifier written "
                       "from the property text; non-trivial = distinct query with at least 8 bytes (the length rule does not decide it)"
                       % ("all %d+%d" % (len(common), len(dictionary)) if tier == "thorough" else "a sample"))
    rep.cov["results_by_code"] = {NAMES.get(k, str(k)): v for k, v in sorted(counts.items())}
    rep.cov["traces_validated_against_impl"] = len(queries) - len(mism)
    rep.cov["model_mismatches"] = len(mism)
    rep.cov["samples"] = [{"password_hex": hexs(pw), "names_hex": [hexs(n) for n in names]} for pw, names in queries[:3] + queries[-3:]] + \
        [{"theorem": t} for t in OBLIGATIONS["C20"][:4]]
    rep.assumptions = ["strings.ToLower is the standard library's; its results are logged by the harness and handed to the model and the reference",
                       "gzip/base64 decoding of the embedded lists is the standard library's; an independent reader decodes the same constants"]
    n = 0
    for i, what, pw, names in viol[:3]:
        n += 1
        p = write_replay("C20", n, ["C20 violated: " + what, "password %r names %r" % (pw, names)], " ".join([hexs(pw)] + [hexs(x) for x in names]) + "\n")
        rep.violation(p, what + " for password %r names %r" % (pw[:40], names[:3]))
    if not viol and mism:
        i, what, pw, names = mism[0]
        p = write_replay("C20", 10, ["the Lean model and the implementation disagree (%d queries): %s" % (len(mism), what)],
                         " ".join([hexs(pw)] + [hexs(x) for x in names]) + "\n")
        rep.violation(p, "model/implementation disagreement on %d queries, e.g. password %r: %s" % (len(mism), pw[:40], what), no_input=True)
    facts.report_fact_failures(rep, "C20", fact_msgs)
    return rep.finish()
