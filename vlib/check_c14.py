"""C14 — per-key locks never deadlock, lose a wake-up, or couple unrelated keys.

Theorems (Lean): Mx.deadlock_free, Mx.waiter_has_holder, Mx.progress_measure, Mx.all_locks_return,
Mx.every_lock_returns, Mx.no_infinite_run_finite_env, Mx.release_admits_exactly_one,
Mx.release_without_waiters_admits_none, Mx.lock_free_key, Mx.sendTok_partner, Mx.mgr_returns_idle,
Mx.spurious_unlock_noop, ... Tie: the same schedules as C13 plus spurious Unlocks, on the real code under the virtual
clock, where "every goroutine is blocked" is detected exactly: a call pending at the watchdog instant is stuck for
ever. Monitors: no stuck call, every Lock returned, tokens and Lock returns alternate per key (exactly one waiter
admitted per release), a Lock waits (in virtual time) only while another goroutine holds the same key, an Unlock of a
key that is not held sends no token and leaves every locks value as it was (the latter through trace conformance).

Verdict: any of these = VIOLATION with script and log; a non-conforming manager trace without them =
VIOLATION ... no-failing-input-found."""
from . import mxlib


def main(tier, seed, replay=None):
    return mxlib.check("C14", tier, seed, replay)
