"""Per-property projections of a transcript: what, of everything observed, the property's statement is about.
The correspondence between model and implementation is judged per property on these projections, so that a
change that only moves, say, which session is evicted does not cast doubt on the cookie attributes."""
import re

from .monitors import _unq, found_pre, norm_da, user_id


def ess(f, codec="gob"):
    if f == "undecodable":
        return f
    return (f["rf"], f["us"], f["cr"], re.sub(r"=i(-?\d+)", r"=f\1", f["da"]))


def store_ess(b):
    return tuple(sorted((k, ess(f)) for k, f in b.store.items()))


def ss_core(b):
    if not b.ss:
        return None
    us = b.ss["us"]
    return (b.ss["id"], b.ss["rf"], us if us == "-" else user_id(us), re.sub(r"=i(-?\d+)", r"=f\1", b.ss["da"]))


def ck_vals(b):
    return tuple(c["value"] for c in b.cks)


def last_ck(b):
    return b.cks[-1]["value"] if b.cks else None


def held(b, v):
    return v in b.cache or v in b.store


def has_dump(b):
    return b.tok[0] in ("req", "h", "wait", "logoutuser", "refresh", "purge", "dropcache") and b.ret != "nosession"


def p_C01(b):
    k = b.tok[0]
    if k == "req":
        return (b.ret, ss_core(b), b.inp)
    if k == "h" and b.tok[1] in ("get", "getdel", "user"):
        return (re.sub(r"^val:i", "val:f", b.ret or ""),)
    if k == "end":
        return (b.jar,)
    return None


def p_C02(b):
    if b.tok[0] != "req":
        return None
    v = b.inp
    f, _ = found_pre(b, v) if v and v != "-" else (None, None)
    if f is not None:
        return ("known",)
    loads = tuple(tuple(e) for e in b.evs if e[0] == "load")
    return (b.ret, ss_core(b), loads, store_ess(b), ck_vals(b), b.rng)


def p_C03(b):
    k = b.tok[0]
    if k == "req":
        v = b.inp
        return (b.ret, b.ss["id"] if b.ss else None, held(b, v) if v and v != "-" else None, any(c["value"] == "deleted" for c in b.cks))
    if k == "expired" or (k == "h" and b.tok[1] in ("expired", "lastaccess")):
        return (b.ret,)
    return None


def p_C04(b):
    k = b.tok[0]
    if k == "req" or (k == "h" and b.tok[1] in ("regen", "login")):
        sid_ = _unq(b.ss["id"]) if b.ss else None
        rec = b.store.get(sid_) if sid_ else None
        refs = tuple(sorted((key, f["rf"]) for key, f in b.store.items() if f != "undecodable" and f["rf"] != "-"))
        return (b.ret, b.rng, b.ss["id"] if b.ss else None, last_ck(b), ess(rec) if rec else None, refs)
    return None


def p_C05(b):
    k = b.tok[0]
    refs = tuple(sorted(key for key, f in b.store.items() if f != "undecodable" and f["rf"] != "-")) if has_dump(b) else None
    if k == "req":
        return (b.ret, ss_core(b), last_ck(b), tuple(b.bg), refs)
    if k == "expired":
        return (b.ret,)
    if b.bg or refs:
        return (tuple(b.bg), refs)
    return None


def p_C06(b):
    if b.tok[0] != "req":
        return None
    v = b.inp
    return (b.ret, held(b, v) if v and v != "-" else None, any(c["value"] == "deleted" for c in b.cks),
            (b.ss["ip"], b.ss["ua"]) if b.ss else None)


def p_C07(b):
    k = b.tok[0]
    if k == "req" or (k == "h" and b.tok[1] == "destroy"):
        keys = tuple(sorted((key, "ref" if (f != "undecodable" and f["rf"] != "-") else "full") for key, f in b.store.items()))
        return (b.ret, b.ss["id"] if b.ss else None, last_ck(b), keys)
    return None


def p_C08(b):
    k = b.tok[0]
    if (k == "h" and b.tok[1] in ("login", "logout", "user")) or k in ("logoutuser", "refresh"):
        users = tuple(sorted((key, f["us"]) for key, f in b.store.items() if f != "undecodable"))
        ssu = (b.ss["id"], b.ss["us"]) if b.ss else None
        return (b.ret, ssu, users)
    return None


def p_C09(b):
    if not has_dump(b):
        return None
    return (b.ret if b.tok[0] != "wait" else None, store_ess(b), ss_core(b))


def resolve_in(store, v):
    n = 0
    while v in store and n < 50:
        f = store[v]
        if f == "undecodable":
            return "undecodable"
        if f["rf"] == "-":
            return (f["us"], re.sub(r"=i(-?\d+)", r"=f\1", f["da"]))
        v = _unq(f["rf"])
        n += 1
    return None


def p_C10(b):
    if b.frozen is not None:
        from .monitors import dangling
        r = b.ann.req
        v = r.inp if r is not None else None
        return (b.frozen != "nocrash", tuple(sorted(dangling(b.store))), resolve_in(b.store, v) if v and v != "-" else None)
    if b.tok[0] == "req":
        return (b.ret, ss_core(b))
    return None


def p_C11(b):
    if not b.faulted:
        return None
    fails = tuple(e[0] for e in b.evs if e[-1] == "fail" and e[0] != "save")
    return (b.ret, ck_vals(b), store_ess(b), b.rng, fails)


def p_C12(b):
    if not has_dump(b):
        return None
    cache = tuple(sorted((k, f["la"]) for k, f in b.cache.items()))
    saves = tuple((e[1], [t for t in e if t.startswith("la=")][0] if len(e) > 3 else e[-1]) for e in b.evs if e[0] == "save")
    loads = tuple(e[1] for e in b.evs if e[0] == "load")
    return (cache, saves, loads)


def p_C18(b):
    k = b.tok[0]
    if k in ("req", "h"):
        return tuple(tuple(sorted(c.items())) for c in b.cks)
    if k == "end":
        return (b.jar,)
    return None


PROJ = {"C01": p_C01, "C02": p_C02, "C03": p_C03, "C04": p_C04, "C05": p_C05, "C06": p_C06, "C07": p_C07, "C08": p_C08,
        "C09": p_C09, "C10": p_C10, "C11": p_C11, "C12": p_C12, "C18": p_C18}


def divergence(prop, impl_blocks, model_blocks):
    """first block on which the property's projection differs between implementation and model (both annotated)"""
    f = PROJ[prop]
    n = min(len(impl_blocks), len(model_blocks))
    for i in range(n):
        a, b = impl_blocks[i], model_blocks[i]
        if a.idx != b.idx:
            return {"idx": a.idx, "op": a.line, "kind": a.kind, "impl": ["block %d" % a.idx], "model": ["block %d" % b.idx], "channels": ["sync"]}
        pa, pb = f(a), f(b)
        if pa != pb:
            return {"idx": a.idx, "op": a.line, "kind": a.kind, "impl": [repr(pa)[:600]], "model": [repr(pb)[:600]], "channels": ["projection"]}
    return None
