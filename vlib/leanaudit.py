"""Lean side of a check: build, axiom audit of the property's theorems, source hygiene grep."""
import hashlib
import json
import os
import re
import subprocess
import time

from . import env

ALLOWED_AXIOMS = {"propext", "Classical.choice", "Quot.sound"}
FORBIDDEN = re.compile(r"\b(sorry|admit|native_decide|bv_decide|implemented_by|unsafe)\b|^\s*axiom\s|maxHeartbeats\s+0\b")


def lean_sources():
    out = []
    for root, _, files in os.walk(env.LEAN_DIR):
        if ".lake" in root:
            continue
        for f in files:
            if f.endswith(".lean") or f == "lakefile.toml":
                out.append(os.path.join(root, f))
    return sorted(out)


def sources_hash():
    h = hashlib.sha256()
    for p in lean_sources():
        h.update(p.encode())
        with open(p, "rb") as f:
            h.update(f.read())
    return h.hexdigest()[:16]


def strip_comments(text):
    # remove /- ... -/ (nested not handled beyond one level, enough for hygiene) and -- comments
    text = re.sub(r"/-.*?-/", "", text, flags=re.S)
    text = re.sub(r"--.*", "", text)
    return text


def hygiene():
    """forbidden constructs outside comments: list of (file, line)"""
    hits = []
    for p in lean_sources():
        if not p.endswith(".lean"):
            continue
        with open(p) as f:
            txt = strip_comments(f.read())
        for i, line in enumerate(txt.split("\n")):
            if FORBIDDEN.search(line):
                hits.append((os.path.relpath(p, env.LEAN_DIR), line.strip()[:120]))
    return hits


def build(targets=()):
    ok, out, dt = env.lake_build(targets)
    return ok, out, dt


def audit(theorems, imports=("Sessions",)):
    """#print axioms for each theorem. Returns {name: {'ok': bool, 'axioms': [...], 'error': str|None}}.
    Cached by the hash of the Lean sources."""
    os.makedirs(env.CACHE, exist_ok=True)
    key = sources_hash()
    cache_file = os.path.join(env.CACHE, "audit-%s.json" % key)
    cached = {}
    if os.path.exists(cache_file):
        try:
            with open(cache_file) as f:
                cached = json.load(f)
        except ValueError:
            cached = {}
    missing = [t for t in theorems if t not in cached]
    if missing:
        with env.flock("audit"):
            src = "\n".join("import " + i for i in imports) + "\n" + "\n".join("#print axioms " + t for t in missing) + "\n"
            path = os.path.join(env.CACHE, "Audit_%s_%d.lean" % (key, os.getpid()))
            with open(path, "w") as f:
                f.write(src)
            p = subprocess.run(["lake", "env", "lean", path], cwd=env.LEAN_DIR, stdout=subprocess.PIPE, stderr=subprocess.STDOUT, text=True)
            os.remove(path)
            out = p.stdout
            # messages: 'X' depends on axioms: [a, b]   |  'X' does not depend on any axioms  | error: unknown constant
            for t in missing:
                m = re.search(r"'%s' depends on axioms: \[([^\]]*)\]" % re.escape(t), out)
                if m:
                    ax = [a.strip() for a in m.group(1).replace("\n", " ").split(",") if a.strip()]
                    cached[t] = {"axioms": ax, "ok": set(ax) <= ALLOWED_AXIOMS, "error": None}
                elif re.search(r"'%s' does not depend on any axioms" % re.escape(t), out):
                    cached[t] = {"axioms": [], "ok": True, "error": None}
                else:
                    err = [l for l in out.split("\n") if t in l or "error" in l][:3]
                    cached[t] = {"axioms": [], "ok": False, "error": " | ".join(err) or "not found"}
            with open(cache_file + ".tmp%d" % os.getpid(), "w") as f:
                json.dump(cached, f)
            os.replace(cache_file + ".tmp%d" % os.getpid(), cache_file)
    return {t: cached[t] for t in theorems}


def proof_modules():
    """every module of the library that holds model definitions or proofs (not the regenerated facts, not the driver glue)"""
    mods = []
    for p in lean_sources():
        if not p.endswith(".lean"):
            continue
        rel = os.path.relpath(p, env.LEAN_DIR)[:-5]
        if not rel.startswith("Sessions" + os.sep):
            continue
        if os.sep + "Generated" + os.sep in rel or os.path.basename(rel).startswith("Facts"):
            continue
        # only modules that are part of the build (reachable from the root): they have a compiled .olean
        if not os.path.exists(os.path.join(env.LEAN_DIR, ".lake", "build", "lib", "lean", rel + ".olean")):
            continue
        mods.append(rel.replace(os.sep, "."))
    return sorted(mods)


def leanchecker(extra_modules=()):
    """Independent re-check of the compiled .olean files with the toolchain's leanchecker (thorough tier).
    Cached by the hash of the sources. Returns (ok, output tail)."""
    key = sources_hash()
    mark = os.path.join(env.CACHE, "leanchecker-%s.ok" % key)
    mods = proof_modules() + list(extra_modules)
    if os.path.exists(mark) and not extra_modules:
        return True, "cached"
    with env.flock("lake"):
        p = subprocess.run(["lake", "env", "leanchecker"] + mods, cwd=env.LEAN_DIR, stdout=subprocess.PIPE, stderr=subprocess.STDOUT, text=True)
    if p.returncode == 0 and not extra_modules:
        with open(mark, "w") as f:
            f.write("%d modules\n" % len(mods))
    return p.returncode == 0, "\n".join(p.stdout.strip().split("\n")[-10:])
