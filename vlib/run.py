"""Running scripts on the real package (harness) and on the Lean model (driver); transcripts."""
import json
import os
import subprocess
from concurrent.futures import ThreadPoolExecutor

from . import env


class InfraError(Exception):
    pass


HANGS = {"n": 0}
MAX_HANGS = 6


def run_harness_sess(hbin, script_path, out_path, timeout=25):
    """Run a session script, following restarts. Returns 'ok' | 'abort' (the package panicked) | raises InfraError."""
    for p in (out_path, out_path + ".state", out_path + ".state.in"):
        if os.path.exists(p):
            os.remove(p)
    frm, state = 0, None
    e = dict(os.environ)
    e["GOGC"] = "off"
    e["GOMAXPROCS"] = "2"
    restarts = 0
    while True:
        cmd = [hbin, "-mode", "sess", "-script", script_path, "-out", out_path, "-stateout", out_path + ".state", "-from", str(frm)]
        if state:
            cmd += ["-state", state]
        tries = 0
        while True:
            size0 = os.path.getsize(out_path) if os.path.exists(out_path) else 0
            try:
                p = subprocess.run(cmd, env=e, stdout=subprocess.DEVNULL, stderr=subprocess.PIPE, timeout=timeout)
                break
            except subprocess.TimeoutExpired:
                # the virtual clock can (rarely) hang; retry the segment from a clean transcript position
                tries += 1
                if tries >= 2 or HANGS["n"] >= MAX_HANGS:
                    HANGS["n"] += 1
                    raise InfraError("hang: the harness did not finish within %d s of real time (%d attempts)" % (timeout, tries))
                with open(out_path, "r+b") as f:
                    f.truncate(size0)
        if p.returncode == 42:
            os.replace(out_path + ".state", out_path + ".state.in")
            state = out_path + ".state.in"
            with open(state) as f:
                frm = json.load(f)["next"]
            restarts += 1
            if restarts > 200:
                raise InfraError("too many restarts")
            continue
        if p.returncode == 0:
            return "ok"
        if p.returncode == 4:
            return "abort"
        raise InfraError("harness exit %d: %s" % (p.returncode, p.stderr.decode(errors="replace")[-400:]))


def run_driver_sess(script_path, impl_transcript_path, out_path, timeout=120):
    with open(out_path, "wb") as f:
        p = subprocess.run([env.driver_path(), "sess", script_path, impl_transcript_path], stdout=f, stderr=subprocess.PIPE, timeout=timeout)
    if p.returncode != 0:
        raise InfraError("driver exit %d: %s" % (p.returncode, p.stderr.decode(errors="replace")[-400:]))


# ---------------------------------------------------------------------------
# Transcript parsing

def unq(s):
    if s.startswith("~"):
        return bytes.fromhex(s[1:]).decode("utf-8", errors="surrogateescape")
    return s


def parse_fields(tokens):
    d = {}
    for t in tokens:
        if "=" in t:
            k, v = t.split("=", 1)
            d[k] = v
    return d


def parse_data(s):
    """da=nil | {k=v,...} -> None | dict"""
    if s == "nil":
        return None
    inner = s[1:-1]
    d = {}
    if inner:
        for kv in inner.split(","):
            k, v = kv.split("=", 1)
            d[unq(k)] = v
    return d


class Block:
    __slots__ = ("idx", "line", "tok", "t", "inp", "evs", "ret", "msg", "ss", "cks", "rng", "frozen", "bg", "cache", "store",
                 "jar", "restart", "raw", "faulted", "other", "ann")

    def __init__(self, idx, line):
        self.idx, self.line, self.tok = idx, line, line.split()
        if self.tok and self.tok[0] == "waitto":
            self.tok[0] = "wait"  # same block shape as `wait`; the duration is not used by any monitor (they read the clock lines)
        self.t = None
        self.inp = None      # None (not a request) | "-" | value
        self.evs = []        # list of token lists (without "ev")
        self.ret = None
        self.msg = None
        self.ss = None       # dict of fields incl. cached
        self.cks = []        # list of dicts: name value path dom exp maxage sec http ss
        self.rng = None
        self.frozen = None   # None | int | "nocrash"
        self.bg = []         # (t, id)
        self.cache = {}      # key -> fields dict
        self.store = {}      # key -> fields dict | "undecodable"
        self.jar = None      # (client, value or None)
        self.restart = False
        self.faulted = 0
        self.raw = []        # all lines (for comparison)
        self.other = []
        self.ann = None

    @property
    def kind(self):
        return self.tok[0] if self.tok[0] != "h" else "h:" + self.tok[1]


def parse_transcript(text):
    blocks = []
    cur = None
    status = "ok"
    for line in text.split("\n"):
        if not line:
            continue
        tok = line.split(" ")
        if tok[0] == "#":
            cur = Block(int(tok[1]), " ".join(tok[2:]))
            blocks.append(cur)
            continue
        if tok[0] == "restart":
            if blocks:
                blocks[-1].restart = True
                blocks[-1].raw.append(line)
            continue
        if tok[0] == "abort":
            status = "abort"
            continue
        if tok[0] == "fatal":
            status = "fatal: " + line
            continue
        if cur is None:
            continue
        cur.raw.append(line)
        k = tok[0]
        if k == "t":
            cur.t = int(tok[1])
        elif k == "in":
            cur.inp = tok[1] if tok[1] == "-" else unq(tok[1])
        elif k == "ev":
            cur.evs.append(tok[1:])
        elif k == "ret":
            cur.ret = tok[1]
        elif k == "msg":
            cur.msg = unq(tok[1])
        elif k == "ss":
            cur.ss = parse_fields(tok[1:])
        elif k == "ck":
            d = parse_fields(tok[3:])
            d["name"] = unq(tok[1])
            d["value"] = unq(tok[2])
            cur.cks.append(d)
        elif k == "rng":
            cur.rng = int(tok[1])
        elif k == "crashinside":
            cur.frozen = int(tok[1])
        elif k == "nocrash":
            cur.frozen = "nocrash"
        elif k == "bg":
            cur.bg.append((int(tok[1]), unq(tok[3])))
        elif k == "c":
            cur.cache[unq(tok[1])] = parse_fields(tok[2:])
        elif k == "s":
            cur.store[unq(tok[1])] = "undecodable" if tok[2] == "undecodable" else parse_fields(tok[2:])
        elif k == "j":
            cur.jar = (tok[1], None if tok[2] == "-" else unq(tok[2]))
        elif k == "faulted":
            cur.faulted = int(tok[1])
        elif k == ".":
            pass
        else:
            cur.other.append(line)
    return blocks, status


# ---------------------------------------------------------------------------
# Comparison of two transcripts, block by block, channel by channel

IGNORED = ("msg",)


def channel_of(line):
    return line.split(" ", 1)[0]


def compare(impl_blocks, model_blocks):
    """First divergence: None | dict(idx, op, channels, impl, model)."""
    n = max(len(impl_blocks), len(model_blocks))
    for i in range(n):
        if i >= len(impl_blocks) or i >= len(model_blocks):
            b = impl_blocks[i] if i < len(impl_blocks) else model_blocks[i]
            return {"pos": i, "idx": b.idx, "op": b.line, "kind": b.kind, "channels": ["length"],
                    "impl": [] if i >= len(impl_blocks) else b.raw[:6], "model": [] if i >= len(model_blocks) else b.raw[:6]}
        a, b = impl_blocks[i], model_blocks[i]
        if a.idx != b.idx:
            return {"pos": i, "idx": a.idx, "op": a.line, "kind": a.kind, "channels": ["sync"], "impl": a.raw[:4], "model": b.raw[:4]}
        la = [l for l in a.raw if channel_of(l) not in IGNORED]
        lb = [l for l in b.raw if channel_of(l) not in IGNORED]
        if la != lb:
            chans = []
            for ch in sorted(set(channel_of(l) for l in la + lb)):
                if [l for l in la if channel_of(l) == ch] != [l for l in lb if channel_of(l) == ch]:
                    chans.append(ch)
            if not chans:
                chans = ["order"]
            da = [l for l in la if l not in lb][:8]
            db = [l for l in lb if l not in la][:8]
            return {"pos": i, "idx": a.idx, "op": a.line, "kind": a.kind, "channels": chans, "impl": da, "model": db}
    return None


# ---------------------------------------------------------------------------
# Batch execution

class Result:
    def __init__(self, name, script):
        self.name = name
        self.script = script
        self.status = None        # ok | abort | infra
        self.impl_text = ""
        self.model_text = ""
        self.blocks = []
        self.mblocks = []
        self.div = None
        self.pdiv = None
        self.error = None


def run_one(hbin, workdir, name, script, with_model=True):
    r = Result(name, script)
    if HANGS["n"] >= MAX_HANGS:
        r.status = "infra"
        r.error = "skipped: the harness hangs on this tree"
        return r
    sp = os.path.join(workdir, name + ".script")
    op = os.path.join(workdir, name + ".impl")
    mp = os.path.join(workdir, name + ".model")
    with open(sp, "w") as f:
        f.write(script)
    try:
        r.status = run_harness_sess(hbin, sp, op)
        with open(op) as f:
            r.impl_text = f.read()
        r.blocks, st = parse_transcript(r.impl_text)
        if st.startswith("fatal"):
            r.status = "infra"
            r.error = st
            return r
        if with_model:
            run_driver_sess(sp, op, mp)
            with open(mp) as f:
                r.model_text = f.read()
            r.mblocks, _ = parse_transcript(r.model_text)
            r.div = compare(r.blocks, r.mblocks)
    except InfraError as e:
        r.status = "infra"
        r.error = str(e)
    finally:
        for p in (sp, op, mp, op + ".state", op + ".state.in"):
            if os.path.exists(p):
                os.remove(p)
    return r


def run_batch(hbin, scripts, with_model=True, workers=None):
    """scripts: list of (name, text). Returns list of Result in order."""
    workers = workers or max(2, env.NCPU - 2)
    with env.scratch("verif-run-") as wd:
        with ThreadPoolExecutor(max_workers=workers) as ex:
            futs = [ex.submit(run_one, hbin, wd, "s%05d" % i, text, with_model) for i, (_, text) in enumerate(scripts)]
            out = []
            for (name, _), f in zip(scripts, futs):
                r = f.result()
                r.name = name
                out.append(r)
            return out
