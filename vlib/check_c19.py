"""C19 — generated identifiers have the promised shape, entropy and uniqueness.

Theorems (Lean): base64 length/injectivity/cookie safety and round trip, RandomID length/alphabet/onto and
equality with the Go loop, CUID bit layout, base-62 rendering, uniqueness and ordering over the generator's
state machine. Tie: exact comparison — the real functions run on recorded inputs (a deterministic
crypto/rand stream, virtual-clock readings, MAC, generator state) and the same Lean functions recompute every
value. Supporting only (they validate the one modelling assumption, a uniform source): per-bit frequency and
collision statistics on the real CSPRNG with a false-alarm probability far below 1e-12."""
import base64
import math
import os
import random
import struct
import subprocess

from . import env
from .check import Report, lean_part, write_replay
from .obligations import OBLIGATIONS, TRUSTED_BASE

AL62 = "0123456789ABCDEFGHIJKLMNOPQRSTUVWXYZabcdefghijklmnopqrstuvwxyz"
MS = 1_000_000


def chunk(n):
    return struct.pack(">QQ", ((n + 1) * 0x9E3779B97F4A7C15) % (1 << 64), (n + 1) % (1 << 64))


def stream(pos, n):
    out = bytearray()
    for i in range(pos, pos + n):
        out.append(chunk(i // 16)[i % 16])
    return bytes(out)


def gen_script(rnd, tier):
    lines = ["sid %d" % (300 if tier == "quick" else 5000)]
    ns = list(range(0, 130)) + [255, 256, 257, 1000, 4095, 4096] if tier == "quick" else list(range(0, 4097))
    for n in ns:
        lines.append("rid %d" % n)
    nruns = 40 if tier == "quick" else 600
    def mac_with_hash(target):
        # the 16-bit hash is h = (h*31 + b) mod 2^16 over the six bytes: fix the first four, solve for the last two
        while True:
            head = [rnd.randrange(256) for _ in range(4)]
            h = 0
            for b in head:
                h = (h * 31 + b) % 65536
            for b5 in range(256):
                b6 = (target - ((h * 31 + b5) * 31)) % 65536
                if b6 < 256:
                    return "".join("%02x" % x for x in head + [b5, b6])

    for i in range(nruns):
        mac = "%012x" % rnd.getrandbits(48)
        if i % 4 == 0:
            # machine hashes at the top of the 16-bit field: the counter spill wraps it
            mac = mac_with_hash(rnd.choice([0xffff, 0xfffe, 0xff00, 0x0000]))
        steps = []
        k = rnd.randint(5, 60 if tier == "quick" else 400)
        for _ in range(k):
            r = rnd.random()
            if r < 0.45:
                steps.append(0)
            elif r < 0.6:
                steps.append(rnd.randint(1, MS - 1))
            elif r < 0.9:
                steps.append(rnd.randint(1, 5) * MS)
            else:
                steps.append(rnd.choice([1000, 86400 * 365 * 8 * 1000]) * MS)  # seconds, and a jump past 2017
        if i % 8 == 0:
            # more than 256 calls in each of several consecutive milliseconds
            steps = []
            for _ in range(rnd.randint(2, 4)):
                steps += [0] * rnd.randint(257, 300) + [MS]
        lt = 0
        lc = rnd.choice([0, 0, 254, 255, 256, 65535, 65536, (1 << 24) - 3])
        if rnd.random() < 0.5:
            lt = -1  # "current millisecond": the driver of this check fills it in below
        lines.append("cuid %s %s %d %s" % (mac, "CUR" if lt < 0 else "0", lc, " ".join(str(s) for s in steps)))
    lines.append("stat %d" % (200_000 if tier == "quick" else 3_000_000))
    for g in ([1, 4, 16, 64] if tier == "quick" else [1, 2, 4, 8, 16, 32, 64]):
        lines.append("conc %d %d" % (g, 2000 if tier == "quick" else 20000))
    return lines


def main(tier, seed, replay=None):
    rep = Report("C19", tier, seed)
    try:
        hbin = env.build_harness("ft")
        hplain = env.build_harness("plain")
    except env.BuildError as e:
        p = write_replay("C19", 903, [e.what], e.output, ext="txt")
        rep.cov.update({"obligations": len(OBLIGATIONS["C19"]), "discharged": 0, "checker_cmd": "go build (failed)", "trusted_base": list(TRUSTED_BASE),
                        "evaluations": 0, "distinct_nontrivial": 0, "rule": "none", "samples": [e.output[-300:]]})
        rep.violation(p, "the verification harness does not build against the current tree", no_input=True)
        return rep.finish()
    lean_part(rep, "C19")
    from . import facts
    fact_msgs = facts.facts_for(rep, "C19")
    rnd = random.Random(seed)
    if replay:
        with open(replay) as f:
            lines = [l.strip() for l in f if l.strip() and not l.startswith("//")]
    else:
        lines = gen_script(rnd, tier)
    # the virtual clock starts at 2009-11-10 23:00:00 UTC; CUR = the CUID timestamp of that instant's millisecond, so the
    # first call continues a running millisecond (counter spill cases)
    cur = ((1257894000 * 1000 - 1483228800000) % (1 << 64)) & ((1 << 40) - 1)
    ft_lines, plain_lines = [], []
    for l in lines:
        (plain_lines if l.startswith(("conc", "stat")) else ft_lines).append(l.replace(" CUR ", " %d " % cur))
    viol = []
    mism = []
    nvals = 0
    distinct = set()
    with env.scratch("verif-ids-") as d:
        sp, op, mp = os.path.join(d, "s.txt"), os.path.join(d, "impl.txt"), os.path.join(d, "model.txt")
        outs = []
        # each cuid run needs a fresh virtual clock (a fresh process), so runs are separate invocations
        groups = [[l for l in ft_lines if not l.startswith("cuid")]] + [[l] for l in ft_lines if l.startswith("cuid")]
        for gi, grp in enumerate(groups):
            if not grp:
                continue
            with open(sp, "w") as f:
                f.write("\n".join(grp) + "\n")
            e = dict(os.environ, GOGC="off")
            ok = False
            for attempt in range(3):
                try:
                    p = subprocess.run([hbin, "-mode", "ids", "-script", sp, "-out", op], env=e, stdout=subprocess.DEVNULL, stderr=subprocess.PIPE, timeout=300)
                    ok = p.returncode == 0
                    break
                except subprocess.TimeoutExpired:
                    continue
            if not ok:
                rep.cov["infrastructure_errors"] = rep.cov.get("infrastructure_errors", 0) + 1
                continue
            with open(mp, "wb") as f:
                subprocess.run([env.driver_path(), "ids", op], stdout=f, stderr=subprocess.PIPE, timeout=300)
            with open(op) as f:
                impl = [l for l in f.read().split("\n") if l]
            with open(mp) as f:
                model = [l for l in f.read().split("\n") if l]
            outs.append((grp, impl, model))
        with open(sp, "w") as f:
            f.write("\n".join(plain_lines) + "\n")
        p = subprocess.run([hplain, "-mode", "ids", "-script", sp, "-out", op], stdout=subprocess.DEVNULL, stderr=subprocess.PIPE, timeout=1800)
        with open(op) as f:
            plain_out = [l for l in f.read().split("\n") if l]
    used_syms = set()
    sid_index = 0
    for grp, impl, model in outs:
        vals = [l for l in impl if l.split(" ")[0] in ("sid", "rid", "cuid")]
        if len(vals) != len(model):
            mism.append(("the model produced %d values for %d implementation values" % (len(model), len(vals)), grp))
        run_vals = []
        prev_ms = None
        for i, l in enumerate(vals):
            t = l.split(" ")
            nvals += 1
            mv = model[i].split(" ", 1)[1] if i < len(model) and " " in model[i] else (model[i][4:] if i < len(model) else None)
            if t[0] == "sid":
                v = "" if t[1] == "~" else t[1]
                raw = bytes.fromhex(t[2])
                distinct.add(v)
                if len(v) != 24:
                    viol.append(("session id %r has length %d, not 24" % (v, len(v)), grp))
                if len(raw) != 16:
                    viol.append(("session id drew %d random bytes, not 16" % len(raw), grp))
                if raw != stream(16 * sid_index, len(raw))[:len(raw)] and len(raw) == 16:
                    viol.append(("session id did not read the next 16 bytes of crypto/rand", grp))
                try:
                    if base64.b64decode(v, validate=True) != raw:
                        viol.append(("session id %r is not the base64 encoding of the 16 bytes drawn" % v, grp))
                except Exception:
                    viol.append(("session id %r is not valid base64" % v, grp))
                if t[3] != "1":
                    viol.append(("session id %r does not survive the Set-Cookie/Cookie round trip" % v, grp))
                sid_index += 1
                if mv is not None and mv != v:
                    mism.append(("model session id %r, implementation %r" % (mv, v), grp))
            elif t[0] == "rid":
                n = int(t[1])
                v = "" if t[2] == "~" else t[2]
                raw = bytes.fromhex(t[3]) if t[3] != "-" else b""
                distinct.add(("rid", n))
                if t[4] != "-":
                    viol.append(("RandomID(%d) returned an error" % n, grp))
                if len(v) != n:
                    viol.append(("RandomID(%d) returned %d characters" % (n, len(v)), grp))
                if any(c not in AL62 for c in v):
                    viol.append(("RandomID(%d) returned a character outside the 62-symbol alphabet" % n, grp))
                used_syms.update(v)
                if len(raw) == n and v != "".join(AL62[b % 62] for b in raw)[::-1]:
                    viol.append(("RandomID(%d) is not the per-byte base-62 draw of the bytes read" % n, grp))
                if mv is not None and mv != v:
                    mism.append(("model RandomID(%d) %r, implementation %r" % (n, mv[:30], v[:30]), grp))
            else:
                sec, nanos, v = int(t[1]), int(t[2]), t[3]
                ms = sec * 1000 + nanos // MS
                if len(v) != 11 or any(c not in AL62 for c in v):
                    viol.append(("CUID %r is not 11 base-62 characters" % v, grp))
                if v in run_vals:
                    viol.append(("CUID %r was returned twice in one process" % v, grp))
                stamp = ((ms - 1483228800000) % (1 << 64)) & ((1 << 40) - 1)
                if prev_ms is not None and stamp > prev_ms[0] and not (v > prev_ms[1]):
                    viol.append(("CUID %r from a later millisecond does not sort after %r" % (v, prev_ms[1]), grp))
                run_vals.append(v)
                distinct.add(v)
                if prev_ms is None or stamp >= prev_ms[0]:
                    prev_ms = (stamp, v if prev_ms is None else max(prev_ms[1], v))
                else:
                    prev_ms = None  # the 40-bit stamp wrapped: a new epoch, ordering is not claimed across it
                if mv is not None and mv != v:
                    mism.append(("model CUID %r, implementation %r" % (mv, v), grp))
    if used_syms and len(used_syms) != 62 and not replay:
        viol.append(("RandomID used only %d of the 62 symbols over all lengths" % len(used_syms), ["rid"]))
    stats = {}
    for l in plain_out:
        t = l.split(" ")
        if t[0] == "statbits":
            n, coll, bad = int(t[1]), int(t[2]), int(t[3])
            bits = [int(x) for x in t[4:]]
            zmax = max(abs(b - n / 2) / math.sqrt(n / 4) for b in bits) if n else 0
            stats.update({"csprng_ids": n, "collisions": coll, "max_bit_z": round(zmax, 2)})
            if coll:
                viol.append(("%d collisions among %d session ids from the system CSPRNG" % (coll, n), [l[:80]]))
            if bad:
                viol.append(("%d of %d generated ids are malformed" % (bad, n), [l[:80]]))
            if zmax > 8.5:  # P(|Z| > 8.5) < 2e-17 per bit, < 3e-15 over 128 bits
                viol.append(("a bit of the session ids is biased: z = %.1f over %d ids" % (zmax, n), [l[:80]]))
        elif t[0] == "statsym":
            syms = dict((chr(int(x.split(":")[0])), int(x.split(":")[1])) for x in t[1:])
            stats["symbols_seen_real_csprng"] = len(syms)
            if set(syms) - set(AL62):
                viol.append(("RandomID produced symbols outside the alphabet", [l[:80]]))
            if len(syms) < 62 and sum(syms.values()) > 20000:
                viol.append(("RandomID used only %d symbols in %d draws from the real CSPRNG" % (len(syms), sum(syms.values())), [l[:80]]))
        elif t[0] == "conc":
            f = dict(x.split("=") for x in t[3:])
            stats.setdefault("concurrent_runs", []).append(l)
            if int(f["dup"]):
                viol.append(("CUID returned the same value twice under %s concurrent callers" % t[1], [l]))
            if int(f["badshape"]):
                viol.append(("CUID returned a malformed value under concurrency", [l]))
            # ordering is claimed between different milliseconds only (checked exactly under the virtual clock above); within one
            # millisecond the counter may spill into the machine field and wrap it, so successive values of one caller are
            # recorded but not judged here
            stats["same_caller_not_increasing"] = stats.get("same_caller_not_increasing", 0) + int(f["unordered"])
    rep.cov["evaluations"] = nvals
    rep.cov["distinct_nontrivial"] = len(distinct)
    rep.cov["rule"] = ("session ids, RandomID(n) for n = %s, and CUID runs under virtual-clock steps with random MAC/state are produced by the real package "
                       "from recorded inputs and recomputed exactly by the Lean functions; non-trivial = distinct produced value / length; plus statistics on the real CSPRNG"
                       % ("0..4096 (all)" if tier == "thorough" else "0..129 and boundary lengths"))
    rep.cov["traces_validated_against_impl"] = nvals - len(mism)
    rep.cov["model_mismatches"] = len(mism)
    rep.cov["statistics"] = stats
    rep.cov["samples"] = lines[:2] + [l[:160] for l in lines if l.startswith("cuid")][:2] + [{"theorem": t} for t in OBLIGATIONS["C19"][:4]]
    rep.assumptions = ["the system CSPRNG is uniform and unpredictable (validated statistically, not proved)", "the wall clock does not step backwards",
                       "fewer than 2^24 CUID calls per millisecond; one 2^40 ms timestamp epoch for ordering"]
    n = 0
    seenw = set()
    for what, grp in viol:
        if what[:40] in seenw or n >= 3:
            continue
        seenw.add(what[:40])
        n += 1
        p = write_replay("C19", n, ["C19 violated: " + what], "\n".join(grp) + "\n")
        rep.violation(p, what)
    if not viol and mism:
        what, grp = mism[0]
        p = write_replay("C19", 10, ["the Lean functions and the implementation disagree (%d values): %s" % (len(mism), what)], "\n".join(grp) + "\n")
        rep.violation(p, "model/implementation disagreement on %d values: %s" % (len(mism), what), no_input=True)
    facts.report_fact_failures(rep, "C19", fact_msgs)
    return rep.finish()
