"""C16 (gob) and C17 (JSON): codec round trips, golden corpus, malformed input."""
import json
import os
import random
import subprocess

from . import codeclib, env, facts
from .check import Report, lean_part, write_replay
from .obligations import OBLIGATIONS, TRUSTED_BASE


def load_golden(codec):
    out = []
    p = os.path.join(env.VERIF, "corpus", "golden", codec + ".txt")
    with open(p) as f:
        for l in f:
            if l.startswith("//") or not l.strip():
                continue
            head, case = l.rstrip("\n").split(" | ", 1)
            c = json.loads(case)
            for k in ("cr", "la"):
                if c[k] is not None:
                    c[k] = tuple(c[k])
            out.append((head.split(" ")[1], c))
    return out


def mutate_json(r, raw):
    """malformed / unexpected JSON derived from a valid encoding"""
    x = r.random()
    b = bytearray(raw)
    if x < 0.2 and b:
        for _ in range(r.choice([1, 1, 2, 5])):
            b[r.randrange(len(b))] = r.randrange(256)
        return bytes(b)
    if x < 0.3:
        return bytes(b[:r.randrange(len(b) + 1)])
    try:
        obj = json.loads(raw)
    except ValueError:
        return bytes(b)
    keys = ["v", "cr", "la", "ip", "ua", "rf", "us", "da"]
    k = r.choice(keys)
    y = r.random()
    if y < 0.25:
        obj.pop(k, None)
    elif y < 0.6:
        obj[k] = r.choice([None, 1, 1.5, -1, "x", "", True, [], {}, [1, "a"], {"a": None}, "2009-13-45T99:00:00Z", "zz!!", "3w5e11264sgsg",
                           "1" * 40, 2, {"a": {"b": [1, 2, {"c": None}]}}, 1e308])
    elif y < 0.7:
        obj[r.choice(["extra", "V", "DA", ""])] = r.choice([1, None, "x", {}])
    elif y < 0.8:
        obj = r.choice([[], None, 1, "str", [obj], {"v": obj}])
    else:
        obj["da"] = r.choice([{"k": [[[[[[[[[[1]]]]]]]]]]}, {"": ""}, {"k": None}, [], "str", {"a": 1e-400}, {str(i): i for i in range(300)}])
    return json.dumps(obj).encode()


def model_compare(codec, lines, out):
    """run the driver's codec mode on the case lines; compare with the harness output field by field (instants without zone)"""
    import re
    with env.scratch("verif-cdm-") as d:
        cp, mp = os.path.join(d, "cases.txt"), os.path.join(d, "model.txt")
        with open(cp, "w") as f:
            f.write("\n".join(lines) + "\n")
        with open(mp, "wb") as f:
            p = subprocess.run([env.driver_path(), "codec", cp], stdout=f, stderr=subprocess.PIPE, timeout=1800)
        if p.returncode != 0:
            return [(lines[0] if lines else "", "driver failed", p.stderr.decode(errors="replace")[-200:])], 0
        with open(mp) as f:
            model = f.read().split("\n")
    bad, n = [], 0
    for l, o, m in zip(lines, out, model):
        if m == "skip" or not m or " ok " not in o:
            continue
        n += 1
        fo = dict(kv.split("=", 1) for kv in o.split(" ")[3:] if "=" in kv)
        fm = dict(kv.split("=", 1) for kv in m.split(" ")[2:] if "=" in kv)
        for k in ("cr", "la"):
            fo[k] = "-62135596800.0" if fo.get(k) == "zero" else re.sub(r"@-?\d+$", "", fo.get(k, ""))
        for k in ("us", "cr", "la", "ip", "ua", "rf", "da"):
            if fo.get(k) != fm.get(k):
                bad.append((l, "%s=%s" % (k, fo.get(k)), "%s=%s" % (k, fm.get(k))))
                break
    return bad, n


def run_codec_check(prop, codec, tier, seed, replay=None):
    rep = Report(prop, tier, seed)
    try:
        hbin = env.build_harness("plain")
    except env.BuildError as e:
        p = write_replay(prop, 903, [e.what], e.output, ext="txt")
        rep.cov.update({"obligations": len(OBLIGATIONS[prop]), "discharged": 0, "checker_cmd": "go build (failed)", "trusted_base": list(TRUSTED_BASE),
                        "evaluations": 0, "distinct_nontrivial": 0, "rule": "none", "samples": [e.output[-300:]]})
        rep.violation(p, "the verification harness does not build against the current tree", no_input=True)
        return rep.finish()
    lean_part(rep, prop)
    fact_thms = {"C16": ["FactsCodec.gob_roundtrip", "FactsCodec.gob_recognised"],
                 "C17": ["FactsCodec.json_roundtrip", "FactsCodec.json_total", "FactsCodec.json_recognised"]}[prop]
    facts_ok, facts_msg = facts.facts_part(rep, prop, {"C16": "Sessions.FactsGob", "C17": "Sessions.FactsJson"}[prop], fact_thms)
    r = random.Random("%d/%s" % (seed, prop))
    viol = []
    if replay:
        with open(replay) as f:
            lines = [l.strip() for l in f if l.strip() and not l.startswith("//")]
        out = codeclib.run_harness(hbin, lines)
        for l, o in zip(lines, out):
            if " panic" in o or (l.startswith("rt") and " ok " not in o):
                viol.append((o[:200], [l]))
        print("\n".join(out))
        cases, golden, mal = [], [], []
        mism = ([], 0)
    else:
        n = 3000 if tier == "quick" else 150000
        cases = codeclib.package_shapes(codec) + [codeclib.gen_case(r, codec) for _ in range(n)]
        lines = [codeclib.spec_line(codec, c) for c in cases]
        out = codeclib.run_harness(hbin, lines)
        encs = []
        for c, l, o in zip(cases, lines, out):
            why = codeclib.judge(codec, c, o)
            if why:
                viol.append(("round trip: " + why, [l]))
            b = [x for x in o.split(" ") if x.startswith("bytes=")]
            if b:
                encs.append(bytes.fromhex(b[0][6:]))
        # the MODEL's codec functions (Sx.enc / Sx.dec, which the coherence and crash theorems are about) on the same cases
        mism = model_compare(codec, lines, out)
        rep.cov["model_cases_compared"] = mism[1]
        rep.cov["model_mismatches"] = len(mism[0])
        # golden corpus: bytes written by the pinned commit keep their meaning
        golden = load_golden(codec)
        glines = ["dec %s %s" % (codec, hx) for hx, _ in golden]
        gout = codeclib.run_harness(hbin, glines)
        for (hx, c), l, o in zip(golden, glines, gout):
            t = o.split(" ")
            if t[2] != "ok":
                viol.append(("a record written by the pinned version no longer decodes: " + t[2], [l]))
                continue
            fake = "rt %s ok bytes=- %s" % (codec, " ".join(t[3:]))
            why = codeclib.judge(codec, c, fake)
            if why:
                viol.append(("a record written by the pinned version decodes differently: " + why, [l]))
        mal = []
        if codec == "json":
            m = 4000 if tier == "quick" else 200000
            junk = [b"", b"{}", b"null", b"[]", b"{\"v\":1}", b"\xff\xfe", b"{\"v\":1,\"cr\":1}", b"{" * 1000, b"\"" + b"a" * 100, b"{\"v\":1e400}"]
            for i in range(m):
                base = encs[r.randrange(len(encs))] if encs else b"{}"
                mal.append(mutate_json(r, base))
            mal += junk
            mlines = ["dec json %s" % (b.hex() or "00") for b in mal]
            mout = codeclib.run_harness(hbin, mlines)
            for l, o in zip(mlines, mout):
                t = o.split(" ")
                if t[2] == "panic":
                    viol.append(("UnmarshalJSON panicked on malformed input", [l]))
                elif t[2] == "ok" and not o.endswith("reenc=ok"):
                    viol.append(("UnmarshalJSON accepted input that yields a session which cannot be re-encoded", [l]))
        else:
            m = 1000 if tier == "quick" else 50000
            for i in range(m):
                base = bytearray(encs[r.randrange(len(encs))]) if encs else bytearray(b"\x00")
                for _ in range(r.choice([1, 2, 8])):
                    base[r.randrange(len(base))] = r.randrange(256)
                mal.append(bytes(base[:r.randrange(1, len(base) + 1)]))
            mlines = ["dec gob %s" % b.hex() for b in mal]
            mout = codeclib.run_harness(hbin, mlines)
            for l, o in zip(mlines, mout):
                if o.split(" ")[2] == "panic":
                    viol.append(("GobDecode panicked on damaged input", [l]))
    shapes = set()
    for c in cases:
        shapes.add((c["us"] is None, c["rf"] == "", c["da"] is None, None if c["da"] is None else len(c["da"][1]), c["cr"] is None))
    rep.cov["evaluations"] = len(cases) + len(golden) + len(mal)
    rep.cov["distinct_nontrivial"] = len(set(codeclib.spec_line(codec, c) for c in cases if c["da"] is not None and c["da"][1]))
    rep.cov["rule"] = ("sessions built from generated field values (instants across the range and zones, all 64-bit fingerprints incl. 0 and 2^64-1, "
                       "with/without user (string and integer ids), with/without reference, nil/empty/large nested data, plus the three shapes the package "
                       "itself creates) are encoded and decoded by the package's own %s codec through the verif export and judged field by field against the "
                       "property text; %d golden records written by the pinned commit must decode to their recorded field values; %d damaged/malformed inputs "
                       "must not panic%s. non-trivial = distinct case with a non-empty data map" % (
                           codec, len(golden), len(mal), " and must yield an error or a re-encodable session" if codec == "json" else ""))
    rep.cov["session_shapes"] = len(shapes)
    rep.cov["golden_records"] = len(golden)
    rep.cov["malformed_inputs"] = len(mal)
    rep.cov["samples"] = [codeclib.spec_line(codec, c)[:300] for c in cases[:3]] + [{"theorem": t} for t in OBLIGATIONS[prop][:4]]
    rep.assumptions = ["encoding/gob, encoding/json, time formatting and strconv are the standard library's (each supported value round-trips)",
                       "zone offsets are whole minutes; JSON instants lie in years 1..9999 (RFC 3339)"]
    n = 0
    seen = set()
    for what, ls in viol:
        key = what.split(":")[0][:50]
        if key in seen or n >= 3:
            continue
        seen.add(key)
        n += 1
        p = write_replay(prop, n, [prop + " violated: " + what[:300]], "\n".join(ls) + "\n")
        rep.violation(p, what[:300])
    if not replay and not viol and mism[0]:
        l, o, m = mism[0][0]
        p = write_replay(prop, 21, ["the model codec (Sx.enc/Sx.dec) and the real codec disagree on %d cases" % len(mism[0]), "impl : " + o[:300], "model: " + m[:300]], l + "\n")
        rep.violation(p, "model/implementation codec disagreement on %d cases" % len(mism[0]), no_input=True)
    if not facts_ok:
        if viol:
            pass  # the failing inputs above are the replay
        else:
            p = write_replay(prop, 20, ["the theorems about the codec programs regenerated from the source no longer check",
                                        "no round trip, golden record or malformed input exhibited a failure"], facts_msg + "\n", ext="txt")
            rep.violation(p, facts_msg.split("\n")[0][:300], no_input=True)
    return rep.finish()
