package main

import (
	"bufio"
	"encoding/hex"
	"fmt"
	"os"
	"strings"

	"github.com/rivo/sessions"
)

// runPw: one query per line, `<hex password> [<hex name>]...`. Output per query:
// `<result code> <hex password> <hex ToLower(password)> [<hex name> <hex ToLower(name)>]...`
// (strings.ToLower is the standard library's; its results are handed to the model).
// The first output line gives the lengths of the two decompressed word lists.
func runPw(script, outPath string) {
	f, err := os.Create(outPath)
	if err != nil {
		fmt.Fprintln(os.Stderr, err)
		os.Exit(3)
	}
	out = bufio.NewWriterSize(f, 1<<20)
	defer out.Flush()
	common, dict := sessions.VerifWordLists()
	emit("lists %d %d", len(common), len(dict))
	in, err := os.Open(script)
	if err != nil {
		fatal("%v", err)
	}
	sc := bufio.NewScanner(in)
	sc.Buffer(make([]byte, 1<<20), 1<<24)
	for sc.Scan() {
		line := sc.Text()
		if line == "" {
			continue
		}
		tok := strings.Split(line, " ")
		dec := func(s string) string {
			if s == "-" {
				return ""
			}
			b, err := hex.DecodeString(s)
			if err != nil {
				fatal("bad hex %q", s)
			}
			return string(b)
		}
		enc := func(s string) string {
			if s == "" {
				return "-"
			}
			return hex.EncodeToString([]byte(s))
		}
		pw := dec(tok[0])
		names := make([]string, 0, len(tok)-1)
		for _, t := range tok[1:] {
			names = append(names, dec(t))
		}
		code := -1
		func() {
			defer func() {
				if r := recover(); r != nil {
					code = -2
				}
			}()
			code = sessions.ReasonablePassword(pw, names)
		}()
		var sb strings.Builder
		fmt.Fprintf(&sb, "%d %s %s", code, enc(pw), enc(strings.ToLower(pw)))
		for _, n := range names {
			fmt.Fprintf(&sb, " %s %s", enc(n), enc(strings.ToLower(n)))
		}
		emit("%s", sb.String())
	}
}
