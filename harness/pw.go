package main

// runPw: mode pw (stub, filled in by its check).
func runPw(script, out string) {
	fatal("mode pw not implemented")
}
