package main

import (
	"bytes"
	"encoding/gob"
	"encoding/json"
	"errors"
	"fmt"
	"sort"

	"github.com/rivo/sessions"
)

// store is the harness's persistence layer: an honest key/value store that
// keeps what the package's own encoders produce, decodes with the package's
// own decoders, logs every call, and can inject a failure into chosen calls.
type store struct {
	codec string // "gob" or "json"
	recs  map[string][]byte
	vers  map[string]int      // user id -> version of the user object handed out
	extra map[string][]string // user id -> ids listed by UserSessions although no record says so

	mainG  int64  // session mode: the goroutine that makes the API calls (0 = not tracked)
	dead   bool   // the process "died" at a crash point: calls from goroutines that outlive it are ignored
	quiet  bool // harness-internal decoding: no logging, no faults
	inCall bool // an API call is running (otherwise calls come from background goroutines)

	events []string       // events of the current API call
	counts map[string]int // kind|id -> occurrences in the current API call
	faults []fault        // faults armed for the current API call
	hits   int            // faults that fired in the current API call

	muts     int               // store mutations in the current API call
	freezeAt int               // >=0: snapshot the store after that many mutations
	frozen   map[string][]byte // the snapshot
}

type fault struct {
	kind string // load save del users user
	id   string // "*" = any
	occ  int
}

var errInjected = errors.New("injected store failure")

func newStore(codec string) *store {
	return &store{codec: codec, recs: map[string][]byte{}, vers: map[string]int{}, extra: map[string][]string{}, counts: map[string]int{}, freezeAt: -1}
}

func (st *store) beginCall() {
	st.inCall = true
	st.events = st.events[:0]
	st.counts = map[string]int{}
	st.hits = 0
	st.muts = 0
	st.frozen = nil
	if st.freezeAt == 0 {
		st.frozen = st.copyRecs()
	}
}

func (st *store) endCall() {
	st.inCall = false
	st.faults = nil
}

func (st *store) copyRecs() map[string][]byte {
	m := make(map[string][]byte, len(st.recs))
	for k, v := range st.recs {
		m[k] = v
	}
	return m
}

func (st *store) mutated() {
	st.muts++
	if st.freezeAt >= 0 && st.muts == st.freezeAt && st.frozen == nil {
		st.frozen = st.copyRecs()
	}
}

// foreground reports whether the call comes from the goroutine making the API calls while one is running. Calls from the
// package's own goroutines (the clean-up after the grace period) are background events even when the scheduler happens to
// run them before the API call has returned.
func (st *store) foreground() bool {
	if !st.inCall {
		return false
	}
	return st.mainG == 0 || goid() == st.mainG
}

func (st *store) log(format string, args ...interface{}) {
	line := fmt.Sprintf(format, args...)
	if st.foreground() {
		st.events = append(st.events, "ev "+line)
	} else {
		st.events = append(st.events, fmt.Sprintf("bg %d %s", nowRel(), line))
	}
}

// fails reports whether this call is chosen to fail.
func (st *store) fails(kind, id string) bool {
	if st.quiet || !st.foreground() {
		return false
	}
	n := st.counts[kind+"|"+id]
	st.counts[kind+"|"+id] = n + 1
	m := st.counts[kind+"|*"]
	st.counts[kind+"|*"] = m + 1
	for _, f := range st.faults {
		if f.kind != kind {
			continue
		}
		if f.id == id && f.occ == n || f.id == "*" && f.occ == m {
			st.hits++
			return true
		}
	}
	return false
}

func (st *store) encode(s *sessions.Session) ([]byte, error) {
	if st.codec == "json" {
		return json.Marshal(s)
	}
	var buf bytes.Buffer
	if err := gob.NewEncoder(&buf).Encode(s); err != nil {
		return nil, err
	}
	return buf.Bytes(), nil
}

func (st *store) decode(b []byte) (*sessions.Session, error) {
	var s sessions.Session
	if st.codec == "json" {
		if err := json.Unmarshal(b, &s); err != nil {
			return nil, err
		}
		return &s, nil
	}
	if err := gob.NewDecoder(bytes.NewReader(b)).Decode(&s); err != nil {
		return nil, err
	}
	return &s, nil
}

// decodeQuiet decodes for the harness's own purposes.
func (st *store) decodeQuiet(b []byte) (*sessions.Session, error) {
	old := st.quiet
	st.quiet = true
	defer func() { st.quiet = old }()
	return st.decode(b)
}

func (st *store) renderRec(b []byte) string {
	s, err := st.decodeQuiet(b)
	if err != nil {
		return "undecodable"
	}
	return renderFields(sessions.VerifFields(s), false)
}

// --- PersistenceLayer ------------------------------------------------------

func (st *store) LoadSession(id string) (*sessions.Session, error) {
	if st.quiet {
		return nil, nil
	}
	if st.dead && !st.foreground() {
		return nil, nil
	}
	if st.fails("load", id) {
		st.log("load %s fail", q(id))
		return nil, errInjected
	}
	b, ok := st.recs[id]
	if !ok {
		st.log("load %s nil", q(id))
		return nil, nil
	}
	st.log("load %s ok", q(id))
	s, err := st.decode(b)
	if err != nil {
		st.log("loaderr %s", q(id))
		return nil, err
	}
	return s, nil
}

func (st *store) SaveSession(id string, s *sessions.Session) error {
	if st.quiet {
		return nil
	}
	if st.dead && !st.foreground() {
		return nil
	}
	if st.fails("save", id) {
		st.log("save %s fail", q(id))
		return errInjected
	}
	b, err := st.encode(s)
	if err != nil {
		st.log("save %s encerr", q(id))
		return err
	}
	st.recs[id] = b
	st.log("save %s %s", q(id), st.renderRec(b))
	if st.foreground() {
		st.mutated()
	}
	return nil
}

func (st *store) DeleteSession(id string) error {
	if st.quiet {
		return nil
	}
	if st.dead && !st.foreground() {
		return nil
	}
	if st.fails("del", id) {
		st.log("del %s fail", q(id))
		return errInjected
	}
	delete(st.recs, id)
	st.log("del %s", q(id))
	if st.foreground() {
		st.mutated()
	}
	return nil
}

func (st *store) UserSessions(userID interface{}) ([]string, error) {
	uid := fmt.Sprint(userID)
	if st.quiet {
		return nil, nil
	}
	if st.fails("users", uid) {
		st.log("users %s fail", q(uid))
		return nil, errInjected
	}
	st.log("users %s", q(uid))
	set := map[string]bool{}
	for id, b := range st.recs {
		s, err := st.decodeQuiet(b)
		if err != nil {
			continue
		}
		if u := sessions.VerifFields(s).User; u != nil && fmt.Sprint(u.GetID()) == uid {
			set[id] = true
		}
	}
	for _, id := range st.extra[uid] {
		set[id] = true
	}
	ids := make([]string, 0, len(set))
	for id := range set {
		ids = append(ids, id)
	}
	sort.Strings(ids)
	return ids, nil
}

func (st *store) LoadUser(id interface{}) (sessions.User, error) {
	uid := fmt.Sprint(id)
	if st.quiet {
		return &user{ID: uid, Ver: st.vers[uid]}, nil
	}
	if st.fails("user", uid) {
		st.log("user %s fail", q(uid))
		return nil, errInjected
	}
	st.log("user %s", q(uid))
	return &user{ID: uid, Ver: st.vers[uid]}, nil
}
