// Command harness drives the real rivo/sessions package for the verification
// machinery in /verif. Modes: sess (session scripts under the virtual clock).
package main

import (
	"flag"
	"fmt"
	"os"
)

func main() {
	mode := flag.String("mode", "sess", "sess|codec|ids|pw|mx|conc")
	script := flag.String("script", "", "script file")
	outp := flag.String("out", "", "transcript file (appended)")
	stateIn := flag.String("state", "", "state file to resume from")
	stateOut := flag.String("stateout", "", "state file written at a crash")
	from := flag.Int("from", 0, "first script line to execute")
	flag.Parse()
	switch *mode {
	case "sess":
		runSess(*script, *outp, *stateIn, *stateOut, *from)
	case "pw":
		runPw(*script, *outp)
	case "ids":
		runIds(*script, *outp)
	case "codec":
		runCodec(*script, *outp)
	case "mx":
		runMx(*script, *outp)
	case "conc":
		runConc(*script, *outp)
	default:
		fmt.Fprintln(os.Stderr, "unknown mode", *mode)
		os.Exit(2)
	}
}
