package main

import (
	"bufio"
	"crypto/rand"
	"encoding/base64"
	"encoding/gob"
	"encoding/json"
	"fmt"
	"net/http"
	"os"
	"runtime"
	"sort"
	"strconv"
	"strings"
	"time"

	"github.com/rivo/sessions"
)

// Session-script mode: executes a script of API calls against the real package
// and writes a canonical transcript. See /verif/DESIGN.md, Appendix B.

type cookieCfg struct {
	Name     string
	Domain   string
	Path     string
	Secure   bool
	HTTPOnly bool
	SameSite int
	MaxAge   int
	ExpOff   int64 // seconds; 0 = no Expires attribute
	Shared   bool  // NewSessionCookie returns one and the same template object on every call
}

type respWriter struct{ h http.Header }

func (r *respWriter) Header() http.Header         { return r.h }
func (r *respWriter) Write(b []byte) (int, error) { return len(b), nil }
func (r *respWriter) WriteHeader(int)             {}

type sessState struct {
	Next   int               `json:"next"`
	Now    int64             `json:"now"`
	Rng    uint64            `json:"rng"`
	Codec  string            `json:"codec"`
	Recs   map[string]string `json:"recs"`
	Vers   map[string]int    `json:"vers"`
	Extra  map[string][]string
	Jars   map[string]string
	Cfg    map[string]int64
	Cookie cookieCfg
}

type sessHarness struct {
	st   *store
	rng  *countingReader
	jars map[string]string
	cfg  map[string]int64
	ck   cookieCfg

	cur       *sessions.Session
	curClient string
	curResp   *respWriter
	curReq    *http.Request
	printedCk int
	inReq     bool
	skipToEnd bool // the process "crashed" inside this request: the response is never seen
	crashNow  bool
}

func (h *sessHarness) applyCfg(name string, v int64) {
	h.cfg[name] = v
	switch name {
	case "sessionExpiry":
		sessions.SessionExpiry = time.Duration(v)
	case "idExpiry":
		sessions.SessionIDExpiry = time.Duration(v)
	case "grace":
		sessions.SessionIDGracePeriod = time.Duration(v)
	case "cacheExpiry":
		sessions.SessionCacheExpiry = time.Duration(v)
	case "acceptIP":
		sessions.AcceptRemoteIP = int(v)
	case "acceptUA":
		sessions.AcceptChangingUserAgent = v != 0
	case "maxCache":
		sessions.MaxSessionCacheSize = int(v)
	default:
		fatal("unknown cfg %q", name)
	}
}

func (h *sessHarness) applyCookieCfg() {
	c := h.ck
	sessions.SessionCookie = c.Name
	if c.Shared {
		// an application that keeps one template and hands it out again and again; the package may set name and value on it
		tpl := &http.Cookie{Domain: c.Domain, Path: c.Path, Secure: c.Secure, HttpOnly: c.HTTPOnly,
			SameSite: http.SameSite(c.SameSite), MaxAge: c.MaxAge}
		sessions.NewSessionCookie = func() *http.Cookie {
			if c.ExpOff != 0 {
				tpl.Expires = time.Now().Add(time.Duration(c.ExpOff) * time.Second)
			}
			return tpl
		}
		return
	}
	sessions.NewSessionCookie = func() *http.Cookie {
		ck := &http.Cookie{Domain: c.Domain, Path: c.Path, Secure: c.Secure, HttpOnly: c.HTTPOnly,
			SameSite: http.SameSite(c.SameSite), MaxAge: c.MaxAge}
		if c.ExpOff != 0 {
			ck.Expires = time.Now().Add(time.Duration(c.ExpOff) * time.Second)
		}
		return ck
	}
}

func (h *sessHarness) saveState(path string, next int) {
	s := sessState{Next: next, Now: nowRel(), Rng: h.rng.pos, Codec: h.st.codec, Recs: map[string]string{}, Vers: h.st.vers,
		Extra: h.st.extra, Jars: h.jars, Cfg: h.cfg, Cookie: h.ck}
	for k, v := range h.st.recs {
		s.Recs[k] = base64.StdEncoding.EncodeToString(v)
	}
	b, err := json.Marshal(s)
	if err != nil {
		fatal("state: %v", err)
	}
	if err := os.WriteFile(path, b, 0o644); err != nil {
		fatal("state: %v", err)
	}
}

func (h *sessHarness) loadState(path string) {
	b, err := os.ReadFile(path)
	if err != nil {
		fatal("state: %v", err)
	}
	var s sessState
	if err := json.Unmarshal(b, &s); err != nil {
		fatal("state: %v", err)
	}
	mg := h.st.mainG
	h.st = newStore(s.Codec)
	h.st.mainG = mg
	for k, v := range s.Recs {
		d, _ := base64.StdEncoding.DecodeString(v)
		h.st.recs[k] = d
	}
	if s.Vers != nil {
		h.st.vers = s.Vers
	}
	if s.Extra != nil {
		h.st.extra = s.Extra
	}
	h.rng.pos = s.Rng
	h.jars = s.Jars
	if h.jars == nil {
		h.jars = map[string]string{}
	}
	for k, v := range s.Cfg {
		h.applyCfg(k, v)
	}
	h.ck = s.Cookie
	h.applyCookieCfg()
	sessions.Persistence = viaExtendable(h.st)
	if d := s.Now - nowRel(); d > 0 {
		time.Sleep(time.Duration(d))
	}
}

// classify maps an error of Start to a short token (informational only).
func classify(err error) string {
	m := err.Error()
	for _, p := range [][2]string{
		{"Could not get session from cache", "get"},
		{"Could not destroy expired session", "destroy"},
		{"Could not delete session with expired ID", "delexpired"},
		{"Session expired", "idexpired"},
		{"Could not get referenced session", "refget"},
		{"Reference session not found", "refmissing"},
		{"Could not generate", "gen"},
		{"Could not save session under new session ID", "regensave"},
		{"Could not save reference session", "refsave"},
		{"Could not create", "create"},
	} {
		if strings.HasPrefix(m, p[0]) {
			return p[1]
		}
	}
	return "other"
}

// call runs one API call with logging, panic capture and the quiescence tick.
func (h *sessHarness) call(withSession bool, f func() (ret string, msg string)) {
	rng0 := h.rng.pos
	h.st.beginCall()
	var ret, msg string
	func() {
		defer func() {
			if r := recover(); r != nil {
				ret = "panic"
				msg = strings.SplitN(fmt.Sprint(r), "\n", 2)[0]
			}
		}()
		ret, msg = f()
	}()
	frozen := h.st.frozen
	freezeAt := h.st.freezeAt
	h.st.freezeAt = -1
	h.st.endCall()
	// events of the calling goroutine now; what the package's own goroutines did meanwhile is printed with the tick
	var early []string
	for _, e := range h.st.events {
		if strings.HasPrefix(e, "bg ") {
			early = append(early, e)
		} else {
			emit("%s", e)
		}
	}
	h.st.events = append(h.st.events[:0], early...)
	emit("ret %s", ret)
	if msg != "" {
		emit("msg %s", q(msg))
	}
	if withSession && h.cur != nil {
		f := sessions.VerifFields(h.cur)
		cached := 0
		if sessions.VerifCached(f.ID) == h.cur {
			cached = 1
		}
		emit("ss cached=%d %s", cached, renderFields(f, true))
	}
	if h.curResp != nil {
		h.printCookies()
	}
	emit("rng %d", h.rng.pos-rng0)
	if h.st.hits > 0 {
		emit("faulted %d", h.st.hits)
	}
	if freezeAt >= 0 {
		if frozen != nil {
			emit("crashinside %d", freezeAt)
			h.st.recs = frozen
			h.st.dead = true
			h.crashNow = true
			if h.inReq {
				h.skipToEnd = true
			}
		} else {
			emit("nocrash")
		}
	}
	// Quiescence: let every runnable background goroutine finish. Under the
	// virtual clock this advances time by exactly 1 ns.
	time.Sleep(1)
	// a clean-up timer may be due at exactly the instant this sleep ends: let it run before the next operation
	for i := 0; i < 16; i++ {
		runtime.Gosched()
	}
	for _, e := range h.st.events {
		emit("%s", e)
	}
	h.st.events = h.st.events[:0]
	if ret == "panic" {
		emit("abort")
		out.Flush()
		os.Exit(4)
	}
}

func (h *sessHarness) printCookies() {
	raw := h.curResp.h["Set-Cookie"]
	resp := http.Response{Header: http.Header{"Set-Cookie": raw[h.printedCk:]}}
	for _, c := range resp.Cookies() {
		exp := "-"
		if !c.Expires.IsZero() {
			exp = strconv.FormatInt(c.Expires.Unix()-epoch0.Unix(), 10)
		}
		emit("ck %s %s path=%s dom=%s exp=%s maxage=%d sec=%d http=%d ss=%d", q(c.Name), q(c.Value), qopt(c.Path), qopt(c.Domain),
			exp, c.MaxAge, b2i(c.Secure), b2i(c.HttpOnly), int(c.SameSite))
	}
	if n := len(raw) - h.printedCk - len(resp.Cookies()); n != 0 {
		emit("ckdropped %d", n)
	}
	h.printedCk = len(raw)
}

func b2i(b bool) int {
	if b {
		return 1
	}
	return 0
}

// dump prints the observable state: cache and store.
func (h *sessHarness) dump() {
	ids := sessions.VerifCachedIDs()
	sort.Strings(ids)
	if h.crashNow {
		ids = nil // the memory of a process that died at a crash point is not observable
	}
	for _, id := range ids {
		if s := sessions.VerifCached(id); s != nil {
			emit("c %s %s", q(id), renderFields(sessions.VerifFields(s), true))
		}
	}
	keys := make([]string, 0, len(h.st.recs))
	for k := range h.st.recs {
		keys = append(keys, k)
	}
	sort.Strings(keys)
	for _, k := range keys {
		emit("s %s %s", q(k), h.st.renderRec(h.st.recs[k]))
	}
}

// endRequest applies the response to the client's jar the way a browser does.
func (h *sessHarness) endRequest() {
	if !h.skipToEnd && h.curResp != nil {
		resp := http.Response{Header: h.curResp.h}
		for _, c := range resp.Cookies() {
			if c.Name != h.ck.Name {
				continue
			}
			if c.MaxAge < 0 || (!c.Expires.IsZero() && !c.Expires.After(time.Now())) {
				delete(h.jars, h.curClient)
			} else {
				h.jars[h.curClient] = c.Value
			}
		}
	}
	if v, ok := h.jars[h.curClient]; ok {
		emit("j %s %s", h.curClient, q(v))
	} else {
		emit("j %s -", h.curClient)
	}
	h.cur, h.curResp, h.curReq, h.inReq, h.skipToEnd, h.printedCk = nil, nil, nil, false, false, 0
}

func runSess(scriptPath, outPath, stateIn, stateOut string, from int) {
	runtime.GOMAXPROCS(1)
	gob.Register([]interface{}{})
	if d := time.Now().Unix() - faketimeEpochUnix; d >= 0 && d < 2 {
		epoch0 = time.Unix(faketimeEpochUnix, 0)
	} else {
		epoch0 = time.Now().Truncate(time.Second)
	}
	f, err := os.OpenFile(outPath, os.O_APPEND|os.O_CREATE|os.O_WRONLY, 0o644)
	if err != nil {
		fmt.Fprintln(os.Stderr, err)
		os.Exit(3)
	}
	out = bufio.NewWriterSize(f, 1<<16)
	defer out.Flush()

	data, err := os.ReadFile(scriptPath)
	if err != nil {
		fatal("%v", err)
	}
	lines := strings.Split(strings.TrimRight(string(data), "\n"), "\n")

	mainG := goid()
	h := &sessHarness{st: newStore("gob"), rng: &countingReader{}, jars: map[string]string{}, cfg: map[string]int64{},
		ck: cookieCfg{Name: "id", HTTPOnly: true, MaxAge: 315360000, ExpOff: 315360000}}
	rand.Reader = h.rng
	h.st.mainG = mainG
	sessions.Persistence = viaExtendable(h.st)
	h.applyCookieCfg()
	if stateIn != "" {
		h.loadState(stateIn)
	}

	for idx := from; idx < len(lines); idx++ {
		line := strings.TrimSpace(lines[idx])
		if line == "" || strings.HasPrefix(line, "//") {
			continue
		}
		tok := strings.Fields(line)
		if h.skipToEnd && tok[0] != "end" {
			continue
		}
		emit("# %d %s", idx, line)
		emit("t %d", nowRel())
		switch tok[0] {
		case "tz":
			// the process's local time zone (the model knows no zones: nothing observable may depend on it)
			if loc, err := time.LoadLocation(tok[1]); err == nil {
				time.Local = loc
			} else {
				fatal("unknown time zone %q", tok[1])
			}
		case "codec":
			h.st.codec = tok[1]
		case "cfg":
			h.applyCfg(tok[1], atoi64(tok[2]))
		case "cookiecfg":
			for _, kv := range tok[1:] {
				p := strings.SplitN(kv, "=", 2)
				switch p[0] {
				case "name":
					h.ck.Name = unq(p[1])
				case "domain":
					h.ck.Domain = unq(p[1])
					if p[1] == "-" {
						h.ck.Domain = ""
					}
				case "path":
					h.ck.Path = unq(p[1])
					if p[1] == "-" {
						h.ck.Path = ""
					}
				case "secure":
					h.ck.Secure = p[1] == "1"
				case "httponly":
					h.ck.HTTPOnly = p[1] == "1"
				case "samesite":
					h.ck.SameSite = int(atoi64(p[1]))
				case "maxage":
					h.ck.MaxAge = int(atoi64(p[1]))
				case "expoff":
					h.ck.ExpOff = atoi64(p[1])
				case "shared":
					h.ck.Shared = p[1] == "1"
				default:
					fatal("bad cookiecfg %q", kv)
				}
			}
			h.applyCookieCfg()
		case "wait":
			time.Sleep(time.Duration(atoi64(tok[1])))
			// a clean-up timer may be due at the very instant this sleep ends: let it run first (the model fires every
			// timer whose deadline is at most the new time)
			for i := 0; i < 16; i++ {
				runtime.Gosched()
			}
			for _, e := range h.st.events {
				emit("%s", e)
			}
			h.st.events = h.st.events[:0]
			h.dump()
		case "waitto":
			// sleep until the transcript clock reads tok[1]; used by histories whose requests fall on exact multiples of the
			// time unit, so that idle times and ages EQUAL to a configured duration occur. A clean-up timer may then be due at
			// the very instant this sleep ends: yield until every goroutine made runnable at this instant has run.
			if d := atoi64(tok[1]) - nowRel(); d > 0 {
				time.Sleep(time.Duration(d))
			}
			for i := 0; i < 16; i++ {
				runtime.Gosched()
			}
			for _, e := range h.st.events {
				emit("%s", e)
			}
			h.st.events = h.st.events[:0]
			h.dump()
		case "stale":
			uid := unq(tok[1])
			h.st.extra[uid] = append(h.st.extra[uid], resolveID(tok[2]))
		case "fault":
			h.st.faults = append(h.st.faults, fault{kind: tok[1], id: func() string {
				if tok[2] == "*" {
					return "*"
				}
				if tok[1] == "users" || tok[1] == "user" {
					return unq(tok[2])
				}
				return resolveID(tok[2])
			}(), occ: int(atoi64(tok[3]))})
		case "crashinside":
			h.st.freezeAt = int(atoi64(tok[1]))
		case "req":
			// req <client> <cookie spec> <remote addr> <user agent> <create>
			h.curClient = tok[1]
			req := &http.Request{Method: "GET", Header: http.Header{}, RemoteAddr: unq(tok[3])}
			if ua := unq(tok[4]); tok[4] != "-" && ua != "" {
				req.Header.Set("User-Agent", ua)
			}
			switch {
			case tok[2] == "none":
			case tok[2] == "jar":
				if v, ok := h.jars[h.curClient]; ok {
					req.Header.Set("Cookie", h.ck.Name+"="+v)
				}
			case strings.HasPrefix(tok[2], "raw:"):
				req.Header.Set("Cookie", unq(tok[2][4:]))
			case strings.HasPrefix(tok[2], "val:"):
				req.Header.Set("Cookie", h.ck.Name+"="+resolveID(tok[2][4:]))
			default:
				fatal("bad cookie spec %q", tok[2])
			}
			if c, err := req.Cookie(h.ck.Name); err == nil {
				emit("in %s", q(c.Value))
			} else {
				emit("in -")
			}
			h.curReq, h.curResp, h.inReq, h.printedCk = req, &respWriter{h: http.Header{}}, true, 0
			create := tok[5] == "1"
			h.call(true, func() (string, string) {
				s, err := sessions.Start(h.curResp, h.curReq, create)
				if err != nil {
					if s != nil {
						h.cur = s
						return "err+session", classify(err)
					}
					return "err", classify(err)
				}
				if s == nil {
					return "nil", ""
				}
				h.cur = s
				// "new" iff this call created it: it is the only way Start mints an id without a found session.
				return "sess", ""
			})
			h.dump()
		case "h":
			if !h.inReq {
				fatal("handler op outside a request")
			}
			if h.cur == nil {
				emit("ret nosession")
				break
			}
			h.handler(tok[1:])
			h.dump()
		case "end":
			h.endRequest()
		case "logoutuser":
			uid := unq(tok[1])
			h.call(false, func() (string, string) {
				if err := sessions.LogOut(uid); err != nil {
					return "err", ""
				}
				return "ok", ""
			})
			h.dump()
		case "refresh":
			uid := unq(tok[1])
			h.st.vers[uid]++
			u := &user{ID: uid, Ver: h.st.vers[uid]}
			h.call(false, func() (string, string) {
				if err := sessions.RefreshUser(u); err != nil {
					return "err", ""
				}
				return "ok", ""
			})
			h.dump()
		case "purge":
			h.call(false, func() (string, string) {
				sessions.PurgeSessions()
				return "ok", ""
			})
			h.dump()
		case "dropcache":
			sessions.VerifDropCache()
			h.dump()
		case "expired":
			id := resolveID(tok[1])
			if b, ok := h.st.recs[id]; ok {
				if s, err := h.st.decodeQuiet(b); err == nil {
					emit("ret b%d", b2i(s.Expired()))
				} else {
					emit("ret undecodable")
				}
			} else {
				emit("ret none")
			}
		case "crash":
			h.crashNow = true
		default:
			fatal("unknown op %q", tok[0])
		}
		emit(".")
		if h.crashNow && !h.inReq {
			emit("restart")
			h.saveState(stateOut, idx+1)
			out.Flush()
			os.Exit(42)
		}
	}
	out.Flush()
}

func (h *sessHarness) handler(tok []string) {
	s := h.cur
	retErr := func(err error) (string, string) {
		if err != nil {
			return "err", ""
		}
		return "ok", ""
	}
	switch tok[0] {
	case "set":
		k, v := unq(tok[1]), parseVal(tok[2])
		h.call(true, func() (string, string) { return retErr(s.Set(k, v)) })
	case "del":
		k := unq(tok[1])
		h.call(true, func() (string, string) { return retErr(s.Delete(k)) })
	case "get":
		k := unq(tok[1])
		h.call(true, func() (string, string) { return "val:" + renderVal(s.Get(k, nil)), "" })
	case "getdel":
		k := unq(tok[1])
		h.call(true, func() (string, string) { return "val:" + renderVal(s.GetAndDelete(k, nil)), "" })
	case "login":
		uid := unq(tok[1])
		excl := tok[2] == "1"
		var u sessions.User = &user{ID: uid, Ver: h.st.vers[uid]}
		// an application that re-authenticates the user it already has in hand passes the very same object again
		if cur, ok := s.User().(*user); ok && cur != nil && cur.ID == uid && cur.Ver == h.st.vers[uid] {
			u = cur
		}
		h.call(true, func() (string, string) { return retErr(s.LogIn(u, excl, h.curResp)) })
	case "logout":
		h.call(true, func() (string, string) { return retErr(s.LogOut()) })
	case "regen":
		h.call(true, func() (string, string) { return retErr(s.RegenerateID(h.curResp)) })
	case "destroy":
		h.call(true, func() (string, string) { return retErr(s.Destroy(h.curResp, h.curReq)) })
	case "expired":
		h.call(true, func() (string, string) { return "b" + strconv.Itoa(b2i(s.Expired())), "" })
	case "lastaccess":
		h.call(true, func() (string, string) { return "val:i" + strconv.FormatInt(rel(s.LastAccess()), 10), "" })
	case "user":
		h.call(true, func() (string, string) { return "val:" + renderUser(s.User(), true), "" })
	default:
		fatal("unknown handler op %q", tok[0])
	}
}
