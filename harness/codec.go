package main

// runCodec: mode codec (stub, filled in by its check).
func runCodec(script, out string) {
	fatal("mode codec not implemented")
}
