package main

import (
	"bufio"
	"bytes"
	"encoding/gob"
	"encoding/hex"
	"encoding/json"
	"fmt"
	"math"
	"os"
	"sort"
	"strconv"
	"strings"
	"time"

	"github.com/rivo/sessions"
)

// Codec mode: round trips through the package's own gob and JSON codecs on arbitrary field values, and
// decoding of given bytes (golden corpus, malformed input).
//
// script lines
//   rt <gob|json> us=<-|s<hex>|i<int>> cr=<sec>.<nanos>@<zone offset s> la=<...> ip=<q> ua=<uint64> rf=<q|-> da=<nil|value>
//   dec <gob|json> <hex bytes>
// typed values: s<hex> i<int> I<int64> F<ieee754 hex> b0 b1 n L(<v>;<v>...) M(<qkey>=<v>;...)
// output
//   rt <codec> ok bytes=<hex> <decoded fields>        | rt <codec> encerr | rt <codec> decerr bytes=<hex> | rt <codec> panic
//   dec <codec> ok <fields> reenc=<ok|err>            | dec <codec> err | dec <codec> panic

type cuser struct{ id interface{} }

func (u *cuser) GetID() interface{} { return u.id }

// cuserV is a user whose type is a plain value (no pointer): GetID has a value receiver.
type cuserV struct{ id interface{} }

func (u cuserV) GetID() interface{} { return u.id }

type codecStore struct {
	lastLoadUser string
	valueUsers   bool // LoadUser hands out value-type users
}

func (c *codecStore) LoadSession(id string) (*sessions.Session, error) { return nil, nil }
func (c *codecStore) SaveSession(id string, s *sessions.Session) error { return nil }
func (c *codecStore) DeleteSession(id string) error                    { return nil }
func (c *codecStore) UserSessions(userID interface{}) ([]string, error) {
	return nil, nil
}
func (c *codecStore) LoadUser(id interface{}) (sessions.User, error) {
	c.lastLoadUser = renderTyped(id)
	if c.valueUsers {
		return cuserV{id: id}, nil
	}
	return &cuser{id: id}, nil
}

func renderTyped(v interface{}) string {
	switch x := v.(type) {
	case nil:
		return "n"
	case string:
		return "s" + hex.EncodeToString([]byte(x))
	case int:
		return "i" + strconv.Itoa(x)
	case int64:
		return "I" + strconv.FormatInt(x, 10)
	case float64:
		return "F" + strconv.FormatUint(math.Float64bits(x), 16)
	case bool:
		if x {
			return "b1"
		}
		return "b0"
	case []interface{}:
		parts := make([]string, len(x))
		for i, e := range x {
			parts[i] = renderTyped(e)
		}
		return "L(" + strings.Join(parts, ";") + ")"
	case map[string]interface{}:
		keys := make([]string, 0, len(x))
		for k := range x {
			keys = append(keys, k)
		}
		sort.Strings(keys)
		parts := make([]string, len(keys))
		for i, k := range keys {
			parts[i] = "~" + hex.EncodeToString([]byte(k)) + "=" + renderTyped(x[k])
		}
		return "M(" + strings.Join(parts, ";") + ")"
	default:
		return fmt.Sprintf("?%T", v)
	}
}

// splitTop splits on sep at nesting depth 0.
func splitTop(s string, sep byte) []string {
	if s == "" {
		return nil
	}
	var out []string
	depth, start := 0, 0
	for i := 0; i < len(s); i++ {
		switch s[i] {
		case '(':
			depth++
		case ')':
			depth--
		default:
			if s[i] == sep && depth == 0 {
				out = append(out, s[start:i])
				start = i + 1
			}
		}
	}
	return append(out, s[start:])
}

func parseTyped(s string) interface{} {
	if s == "" {
		fatal("empty typed value")
	}
	switch s[0] {
	case 'n':
		return nil
	case 's':
		b, err := hex.DecodeString(s[1:])
		if err != nil {
			fatal("bad hex")
		}
		return string(b)
	case 'i':
		n, _ := strconv.Atoi(s[1:])
		return n
	case 'I':
		n, _ := strconv.ParseInt(s[1:], 10, 64)
		return n
	case 'F':
		n, _ := strconv.ParseUint(s[1:], 16, 64)
		return math.Float64frombits(n)
	case 'b':
		return s[1:] == "1"
	case 'L':
		inner := s[2 : len(s)-1]
		l := []interface{}{}
		for _, p := range splitTop(inner, ';') {
			l = append(l, parseTyped(p))
		}
		return l
	case 'M':
		inner := s[2 : len(s)-1]
		m := map[string]interface{}{}
		for _, p := range splitTop(inner, ';') {
			kv := strings.SplitN(p, "=", 2)
			m[unq(kv[0])] = parseTyped(kv[1])
		}
		return m
	}
	fatal("bad typed value %q", s)
	return nil
}

func parseTime(s string) time.Time {
	// <sec>.<nanos>@<offset seconds>   or "zero"
	if s == "zero" {
		return time.Time{}
	}
	at := strings.SplitN(s, "@", 2)
	sn := strings.SplitN(at[0], ".", 2)
	sec, _ := strconv.ParseInt(sn[0], 10, 64)
	ns, _ := strconv.ParseInt(sn[1], 10, 64)
	off, _ := strconv.Atoi(at[1])
	loc := time.UTC
	if off != 0 {
		loc = time.FixedZone("", off)
	}
	return time.Unix(sec, ns).In(loc)
}

func renderTime(t time.Time) string {
	if t.IsZero() {
		return "zero"
	}
	_, off := t.Zone()
	return fmt.Sprintf("%d.%d@%d", t.Unix(), t.Nanosecond(), off)
}

func renderCodecFields(f sessions.VerifSessionFields, loadUser string) string {
	us := "-"
	if f.User != nil {
		us = renderTyped(f.User.GetID())
	}
	da := "nil"
	if !f.DataNil {
		da = renderTyped(map[string]interface{}(f.Data))
	}
	return fmt.Sprintf("us=%s lu=%s cr=%s la=%s ip=%s ua=%d rf=%s da=%s", us, loadUser, renderTime(f.Created), renderTime(f.LastAccess),
		q(f.LastIP), f.UAHash, qopt(f.ReferenceID), da)
}

func encodeWith(codec string, s *sessions.Session) ([]byte, error) {
	if codec == "json" {
		return json.Marshal(s)
	}
	var buf bytes.Buffer
	err := gob.NewEncoder(&buf).Encode(s)
	return buf.Bytes(), err
}

func decodeWith(codec string, b []byte) (*sessions.Session, error) {
	var s sessions.Session
	if codec == "json" {
		err := json.Unmarshal(b, &s)
		return &s, err
	}
	err := gob.NewDecoder(bytes.NewReader(b)).Decode(&s)
	return &s, err
}

func runCodec(script, outPath string) {
	f, err := os.Create(outPath)
	if err != nil {
		fmt.Fprintln(os.Stderr, err)
		os.Exit(3)
	}
	out = bufio.NewWriterSize(f, 1<<20)
	defer out.Flush()
	gob.Register([]interface{}{})
	gob.Register(map[string]interface{}{})
	cs := &codecStore{}
	var prevDirect, prevCopy []byte
	sessions.Persistence = viaExtendable(cs)
	in, err := os.Open(script)
	if err != nil {
		fatal("%v", err)
	}
	sc := bufio.NewScanner(in)
	sc.Buffer(make([]byte, 1<<20), 1<<26)
	for sc.Scan() {
		tok := strings.Fields(sc.Text())
		if len(tok) < 2 {
			continue
		}
		codec := tok[1]
		func() {
			defer func() {
				if r := recover(); r != nil {
					emit("%s %s panic", tok[0], codec)
				}
			}()
			switch tok[0] {
			case "rt":
				var fl sessions.VerifSessionFields
				fl.DataNil = true
				for _, kv := range tok[2:] {
					p := strings.SplitN(kv, "=", 2)
					switch p[0] {
					case "us":
						cs.valueUsers = false
						if strings.HasPrefix(p[1], "V") {
							// a user of a value type, before and after the round trip
							cs.valueUsers = true
							fl.User = cuserV{id: parseTyped(p[1][1:])}
						} else if p[1] != "-" {
							fl.User = &cuser{id: parseTyped(p[1])}
						}
					case "cr":
						fl.Created = parseTime(p[1])
					case "la":
						fl.LastAccess = parseTime(p[1])
					case "ip":
						fl.LastIP = unq(p[1])
					case "ua":
						fl.UAHash, _ = strconv.ParseUint(p[1], 10, 64)
					case "rf":
						if p[1] != "-" {
							fl.ReferenceID = unq(p[1])
						}
					case "da":
						if p[1] != "nil" {
							fl.DataNil = false
							fl.Data = parseTyped(p[1]).(map[string]interface{})
						}
					}
				}
				s := sessions.VerifNewSession(fl)
				if codec == "gob" {
					// the bytes GobEncode handed out earlier must not change when another session is encoded
					if direct, err := s.GobEncode(); err == nil {
						if prevDirect != nil && !bytes.Equal(prevDirect, prevCopy) {
							emit("rt gob alias")
							prevDirect, prevCopy = nil, nil
							return
						}
						prevDirect = direct
						prevCopy = append([]byte(nil), direct...)
					}
				}
				b, err := encodeWith(codec, s)
				if err != nil {
					emit("rt %s encerr", codec)
					return
				}
				cs.lastLoadUser = "-"
				d, err := decodeWith(codec, b)
				if err != nil {
					emit("rt %s decerr bytes=%s", codec, hex.EncodeToString(b))
					return
				}
				emit("rt %s ok bytes=%s %s", codec, hex.EncodeToString(b), renderCodecFields(sessions.VerifFields(d), cs.lastLoadUser))
			case "dec":
				b, err := hex.DecodeString(tok[2])
				if err != nil {
					fatal("bad hex bytes")
				}
				cs.lastLoadUser = "-"
				d, err := decodeWith(codec, b)
				if err != nil {
					emit("dec %s err", codec)
					return
				}
				re := "ok"
				if _, err := encodeWith(codec, d); err != nil {
					re = "err"
				}
				emit("dec %s ok %s reenc=%s", codec, renderCodecFields(sessions.VerifFields(d), cs.lastLoadUser), re)
			}
		}()
	}
}
