module verifharness

go 1.21

require github.com/rivo/sessions v0.0.0

replace github.com/rivo/sessions => /repo
