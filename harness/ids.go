package main

import (
	"bufio"
	"crypto/rand"
	"encoding/hex"
	"fmt"
	"net/http"
	"os"
	"sort"
	"strings"
	"sync"
	"time"

	"github.com/rivo/sessions"
)

// recordingReader wraps the deterministic stream and remembers what was read.
type recordingReader struct {
	r   *countingReader
	buf []byte
}

func (r *recordingReader) Read(p []byte) (int, error) {
	n, err := r.r.Read(p)
	r.buf = append(r.buf, p[:n]...)
	return n, err
}

// newSessionID obtains one id from generateSessionID through the public API.
func newSessionID() (string, bool) {
	resp := &respWriter{h: http.Header{}}
	req := &http.Request{Method: "GET", Header: http.Header{}, RemoteAddr: "10.0.0.1:1"}
	s, err := sessions.Start(resp, req, true)
	if err != nil || s == nil {
		return "", false
	}
	r := http.Response{Header: resp.h}
	for _, c := range r.Cookies() {
		// Set-Cookie -> Cookie round trip
		req2 := &http.Request{Header: http.Header{}}
		req2.AddCookie(&http.Cookie{Name: c.Name, Value: c.Value})
		back, err := req2.Cookie(c.Name)
		return c.Value, err == nil && back.Value == c.Value && sessions.VerifFields(s).ID == c.Value
	}
	return "", false
}

// runIds: script lines
//   sid <n>             n session ids with the deterministic random stream
//   rid <n>             RandomID(n) with the deterministic stream
//   cuid <mac hex> <lastTime> <lastCounter> <step_ns>...   CUID calls separated by virtual sleeps
//   stat <n>            n session ids and RandomID(22) values from the real CSPRNG: per-bit and per-symbol counts, collisions
//   conc <g> <n>        g goroutines x n CUID calls: duplicates, per-goroutine order
func runIds(script, outPath string) {
	f, err := os.Create(outPath)
	if err != nil {
		fmt.Fprintln(os.Stderr, err)
		os.Exit(3)
	}
	out = bufio.NewWriterSize(f, 1<<20)
	defer out.Flush()
	sessions.Persistence = sessions.ExtendablePersistenceLayer{}
	sessions.MaxSessionCacheSize = 0
	// long virtual sleeps must not wake the lock table's periodic clean-up hundreds of thousands of times
	sessions.VerifMutexTuning(1<<20, 100*365*24*time.Hour, 200*365*24*time.Hour)
	realReader := rand.Reader
	data, err := os.ReadFile(script)
	if err != nil {
		fatal("%v", err)
	}
	for _, line := range strings.Split(string(data), "\n") {
		tok := strings.Fields(line)
		if len(tok) == 0 {
			continue
		}
		switch tok[0] {
		case "sid":
			rr := &recordingReader{r: &countingReader{}}
			rand.Reader = rr
			for i := int64(0); i < atoi64(tok[1]); i++ {
				rr.buf = rr.buf[:0]
				v, rt := newSessionID()
				emit("sid %s %s %d", q(v), hex.EncodeToString(rr.buf), b2i(rt))
			}
			rand.Reader = realReader
		case "rid":
			rr := &recordingReader{r: &countingReader{pos: 7}}
			rand.Reader = rr
			n := int(atoi64(tok[1]))
			v, err := sessions.RandomID(n)
			e := "-"
			if err != nil {
				e = "err"
			}
			hx := hex.EncodeToString(rr.buf)
			if hx == "" {
				hx = "-"
			}
			emit("rid %d %s %s %s", n, q(v), hx, e)
			rand.Reader = realReader
		case "cuid":
			macb, _ := hex.DecodeString(tok[1])
			var mac [6]byte
			copy(mac[:], macb)
			sessions.VerifSetCUIDState(mac, uint64(atoi64(tok[2])), uint64(atoi64(tok[3])))
			emit("cuidstart %s %s %s", tok[1], tok[2], tok[3])
			for _, st := range tok[4:] {
				if d := atoi64(st); d > 0 {
					time.Sleep(time.Duration(d))
				}
				now := time.Now()
				v := sessions.CUID()
				emit("cuid %d %d %s", now.Unix(), now.Nanosecond(), v)
			}
		case "stat":
			n := int(atoi64(tok[1]))
			var bits [128]int
			var sym [256]int
			seen := make(map[string]bool, n)
			coll := 0
			bad := 0
			for i := 0; i < n; i++ {
				v, ok := newSessionID()
				if !ok || len(v) != 24 {
					bad++
					continue
				}
				if seen[v] {
					coll++
				}
				seen[v] = true
				raw, err := decode64(v)
				if err != nil || len(raw) != 16 {
					bad++
					continue
				}
				for b := 0; b < 128; b++ {
					if raw[b/8]&(1<<(7-uint(b%8))) != 0 {
						bits[b]++
					}
				}
				if i%16 == 0 {
					r, err := sessions.RandomID(22)
					if err != nil || len(r) != 22 {
						bad++
					}
					for k := 0; k < len(r); k++ {
						sym[r[k]]++
					}
				}
			}
			var sb strings.Builder
			for b := 0; b < 128; b++ {
				fmt.Fprintf(&sb, " %d", bits[b])
			}
			emit("statbits %d %d %d%s", n, coll, bad, sb.String())
			sb.Reset()
			keys := []int{}
			for c := 0; c < 256; c++ {
				if sym[c] > 0 {
					keys = append(keys, c)
				}
			}
			sort.Ints(keys)
			for _, c := range keys {
				fmt.Fprintf(&sb, " %d:%d", c, sym[c])
			}
			emit("statsym%s", sb.String())
		case "conc":
			g, n := int(atoi64(tok[1])), int(atoi64(tok[2]))
			res := make([][]string, g)
			var wg sync.WaitGroup
			for i := 0; i < g; i++ {
				wg.Add(1)
				go func(i int) {
					defer wg.Done()
					for k := 0; k < n; k++ {
						res[i] = append(res[i], sessions.CUID())
					}
				}(i)
			}
			wg.Wait()
			seen := map[string]bool{}
			dup, unordered, badshape := 0, 0, 0
			for i := 0; i < g; i++ {
				for k, v := range res[i] {
					if seen[v] {
						dup++
					}
					seen[v] = true
					if len(v) != 11 {
						badshape++
					}
					if k > 0 && !(res[i][k-1] < v) {
						unordered++
					}
				}
			}
			emit("conc %d %d dup=%d unordered=%d badshape=%d", g, n, dup, unordered, badshape)
		}
	}
}

func decode64(s string) ([]byte, error) {
	const al = "ABCDEFGHIJKLMNOPQRSTUVWXYZabcdefghijklmnopqrstuvwxyz0123456789+/"
	var out []byte
	var acc, nb uint
	for i := 0; i < len(s); i++ {
		if s[i] == '=' {
			break
		}
		p := strings.IndexByte(al, s[i])
		if p < 0 {
			return nil, fmt.Errorf("bad symbol")
		}
		acc = acc<<6 | uint(p)
		nb += 6
		if nb >= 8 {
			nb -= 8
			out = append(out, byte(acc>>nb))
			acc &= (1 << nb) - 1
		}
	}
	return out, nil
}
