package main

// runIds: mode ids (stub, filled in by its check).
func runIds(script, out string) {
	fatal("mode ids not implemented")
}
