package main

import (
	"bufio"
	crand "crypto/rand"
	"fmt"
	"math/rand"
	"net/http"
	"os"
	"runtime"
	"strconv"
	"strings"
	"sync"
	"time"

	"github.com/rivo/sessions"
)

// Mode mx: schedules on the keyed mutex of mutexes.go (C13, C14) and
// concurrent Starts on one session id (C13's second sentence, C04).
//
// Script (one directive per line, "//" comments):
//
//	mode lock|start            (default lock)
//	procs <n>                  GOMAXPROCS (default 1)
//	tuning <maxSize> <cleanup_ns> <stale_ns>
//	seed <n>
//	yield <permille>           extra runtime.Gosched() around every step
//	mdelay <permille> <ns>     manager stalls inside the trace hook at acq/tok/rel: Gosched (ns=0) or a sleep of 1..ns
//	mat <ev> <key> <nth> <ns>  the nth (0-based) manager event <ev> on <key> stalls for ns (0 = Gosched)
//	watchdog <ns>              virtual instant at which every unfinished call is declared stuck
//	g <id> <steps...>          lock mode: L<k> U<k> X<k> (spurious Unlock) P (Purge) S<ns> Y
//	-- start mode only --
//	cfg <name> <value>         as in mode sess (idExpiry, grace, maxCache, ...)
//	reqs <n>                   concurrent requests presenting the same due id
//	others <n>                 further sessions, one concurrent request each (other keys of the lock table)
//	stagger <ns>               request i starts at i*ns after the common start
//	storedelay <ns>            every store / random-source callback stalls: Gosched (0) or a sleep of ns
//
// Log: "<t> <event...>" in ONE global order (a mutex serialises the appends):
//
//	acq|tok|rel|purge <key> <locks>        manager events, from the add-only hook in mutexes.go
//	call|ret L|U|X <g> <key>, call|ret P <g>
//	key <n> <id>                           start mode: session ids are interned as numbers
//	call S <r> <key> / ret S <r> <kind> <key of the returned session's id|-> / ev <r> <what> <key> / mint <r> <key>
//
// followed by "done <g>" | "stuck <g> <op> <key>" | "late <g> sleep", "size <n>", "end <t> wd=<0|1>".
// Under the virtual clock the watchdog instant is reached only when every goroutine is blocked,
// so "stuck" is a fact about the schedule, not a timeout guess.

type mxStep struct {
	op byte
	n  int64
}

type mxMat struct {
	ev  string
	key int
	nth int
}

type mxRun struct {
	mu    sync.Mutex
	lines []string

	// interning of non-integer keys (start mode)
	keyIDs map[string]int

	// what each goroutine is doing right now (guarded by mu)
	cur  map[int]string
	done map[int]bool

	// manager stalls
	mdelayP  int
	mdelayNs int64
	mat      map[mxMat]int64
	matSeen  map[string]int
	mrng     *rand.Rand

	yieldP int
	seed   int64
}

func (r *mxRun) logf(format string, args ...interface{}) {
	r.mu.Lock()
	r.lines = append(r.lines, strconv.FormatInt(nowRel(), 10)+" "+fmt.Sprintf(format, args...))
	r.mu.Unlock()
}

// begin/finish bracket a blocking call: the log line and the "current operation" change together.
func (r *mxRun) begin(g int, what string) {
	r.mu.Lock()
	r.lines = append(r.lines, strconv.FormatInt(nowRel(), 10)+" call "+what)
	r.cur[g] = what
	r.mu.Unlock()
}

func (r *mxRun) finish(g int, what string) {
	r.mu.Lock()
	r.lines = append(r.lines, strconv.FormatInt(nowRel(), 10)+" ret "+what)
	delete(r.cur, g)
	r.mu.Unlock()
}

// goKey turns the key number of a script into the Go value handed to Lock/Unlock. Even numbers become ints, odd numbers the
// STRING that prints like the int of the even number below: two different keys of different dynamic type and equal text. A lock
// table that confuses them couples unrelated keys.
func goKey(n int64) interface{} {
	if n%2 == 0 {
		return int(n/2 + 1)
	}
	return strconv.FormatInt(n/2+1, 10)
}

func (r *mxRun) keyOf(key interface{}) int {
	switch k := key.(type) {
	case int:
		return 2 * (k - 1)
	case string:
		if v, err := strconv.Atoi(k); err == nil && v > 0 {
			return 2*(v-1) + 1
		}
		return r.intern(k)
	}
	return r.intern(fmt.Sprint(key))
}

func (r *mxRun) intern(s string) int {
	r.mu.Lock()
	defer r.mu.Unlock()
	return r.internLocked(s)
}

func (r *mxRun) internLocked(s string) int {
	if n, ok := r.keyIDs[s]; ok {
		return n
	}
	n := len(r.keyIDs)
	r.keyIDs[s] = n
	r.lines = append(r.lines, strconv.FormatInt(nowRel(), 10)+" key "+strconv.Itoa(n)+" "+q(s))
	return n
}

// trace is installed as sessions.VerifMutexTrace. It runs on the manager goroutine of a lock table.
func (r *mxRun) trace(ev string, key interface{}, locks int) {
	r.mu.Lock()
	var k int
	switch x := key.(type) {
	case int:
		k = 2 * (x - 1) // inverse of goKey
	case string:
		if v, err := strconv.Atoi(x); err == nil && v > 0 {
			k = 2*(v-1) + 1
		} else {
			k = r.internLocked(x)
		}
	default:
		k = r.internLocked(fmt.Sprint(key))
	}
	r.lines = append(r.lines, strconv.FormatInt(nowRel(), 10)+" "+ev+" "+strconv.Itoa(k)+" "+strconv.Itoa(locks))
	id := ev + "/" + strconv.Itoa(k)
	nth := r.matSeen[id]
	r.matSeen[id] = nth + 1
	stall, directed := r.mat[mxMat{ev, k, nth}]
	random := false
	var rnd int64
	if !directed && ev != "purge" && r.mdelayP > 0 && r.mrng.Intn(1000) < r.mdelayP {
		random = true
		if r.mdelayNs > 0 {
			rnd = 1 + r.mrng.Int63n(r.mdelayNs)
		}
	}
	r.mu.Unlock()
	// The purge events are raised under the table's itemsMutex: never stall there.
	if ev == "purge" {
		return
	}
	if directed {
		if stall > 0 {
			time.Sleep(time.Duration(stall))
		} else {
			runtime.Gosched()
		}
	} else if random {
		if rnd > 0 {
			time.Sleep(time.Duration(rnd))
		} else {
			runtime.Gosched()
		}
	}
}

func mxParseSteps(toks []string) []mxStep {
	var steps []mxStep
	for _, t := range toks {
		if t == "" {
			continue
		}
		st := mxStep{op: t[0]}
		switch t[0] {
		case 'L', 'U', 'X', 'S':
			st.n = atoi64(t[1:])
		case 'P', 'Y':
			if len(t) != 1 {
				fatal("bad step %q", t)
			}
		default:
			fatal("bad step %q", t)
		}
		steps = append(steps, st)
	}
	return steps
}

type mxScript struct {
	mode       string
	procs      int
	maxSize    int
	cleanup    int64
	stale      int64
	tuned      bool
	watchdog   int64
	gids       []int
	progs      map[int][]mxStep
	cfg        [][2]string
	reqs       int
	others     int
	stagger    int64
	purges     int   // mode start: clean-ups of the lock table requested while the requests run
	purgeGap   int64 // ns between them
	create     bool // concurrent requests call Start with createIfNew = true
	storeDelay int64
	hasStoreD  bool
}

func runMx(script, outPath string) {
	if d := time.Now().Unix() - faketimeEpochUnix; d >= 0 && d < 2 {
		epoch0 = time.Unix(faketimeEpochUnix, 0)
	} else {
		epoch0 = time.Now()
	}
	f, err := os.OpenFile(outPath, os.O_TRUNC|os.O_CREATE|os.O_WRONLY, 0o644)
	if err != nil {
		fmt.Fprintln(os.Stderr, err)
		os.Exit(3)
	}
	out = bufio.NewWriterSize(f, 1<<16)
	data, err := os.ReadFile(script)
	if err != nil {
		fatal("%v", err)
	}
	r := &mxRun{keyIDs: map[string]int{}, cur: map[int]string{}, done: map[int]bool{}, mat: map[mxMat]int64{}, matSeen: map[string]int{}}
	sc := &mxScript{mode: "lock", procs: 1, watchdog: 1000000, progs: map[int][]mxStep{}, reqs: 2}
	for _, line := range strings.Split(string(data), "\n") {
		line = strings.TrimSpace(line)
		if line == "" || strings.HasPrefix(line, "//") {
			continue
		}
		tok := strings.Fields(line)
		need := func(n int) {
			if len(tok) < n+1 {
				fatal("directive %q needs %d arguments", tok[0], n)
			}
		}
		switch tok[0] {
		case "mode":
			need(1)
			sc.mode = tok[1]
		case "procs":
			need(1)
			sc.procs = int(atoi64(tok[1]))
		case "tuning":
			need(3)
			sc.maxSize, sc.cleanup, sc.stale, sc.tuned = int(atoi64(tok[1])), atoi64(tok[2]), atoi64(tok[3]), true
		case "seed":
			need(1)
			r.seed = atoi64(tok[1])
		case "yield":
			need(1)
			r.yieldP = int(atoi64(tok[1]))
		case "mdelay":
			need(2)
			r.mdelayP, r.mdelayNs = int(atoi64(tok[1])), atoi64(tok[2])
		case "mat":
			need(4)
			r.mat[mxMat{tok[1], int(atoi64(tok[2])), int(atoi64(tok[3]))}] = atoi64(tok[4])
		case "watchdog":
			need(1)
			sc.watchdog = atoi64(tok[1])
		case "g":
			need(1)
			id := int(atoi64(tok[1]))
			if _, dup := sc.progs[id]; dup {
				fatal("goroutine %d defined twice", id)
			}
			sc.gids = append(sc.gids, id)
			sc.progs[id] = mxParseSteps(tok[2:])
		case "cfg":
			need(2)
			sc.cfg = append(sc.cfg, [2]string{tok[1], tok[2]})
		case "reqs":
			need(1)
			sc.reqs = int(atoi64(tok[1]))
		case "others":
			need(1)
			sc.others = int(atoi64(tok[1]))
		case "create":
			sc.create = tok[1] == "1"
		case "purges":
			sc.purges, sc.purgeGap = int(atoi64(tok[1])), atoi64(tok[2])
		case "stagger":
			need(1)
			sc.stagger = atoi64(tok[1])
		case "storedelay":
			need(1)
			sc.storeDelay, sc.hasStoreD = atoi64(tok[1]), true
		default:
			fatal("unknown mx directive %q", tok[0])
		}
		emit("# %s", line)
	}
	if sc.procs < 1 {
		sc.procs = 1
	}
	runtime.GOMAXPROCS(sc.procs)
	r.mrng = rand.New(rand.NewSource(r.seed*7919 + 17))
	if sc.tuned {
		sessions.VerifMutexTuning(sc.maxSize, time.Duration(sc.cleanup), time.Duration(sc.stale))
	}
	sessions.VerifMutexTrace = r.trace
	switch sc.mode {
	case "lock":
		r.runLock(sc)
	case "start":
		r.runStart(sc)
	default:
		fatal("unknown mx mode %q", sc.mode)
	}
}

// finishRun writes the log and the final state and leaves the process (stuck goroutines stay behind).
func (r *mxRun) finishRun(gids []int, wd bool, size int) {
	r.mu.Lock()
	for _, l := range r.lines {
		out.WriteString(l)
		out.WriteByte('\n')
	}
	for _, g := range gids {
		switch {
		case r.done[g]:
			emit("done %d", g)
		case r.cur[g] != "":
			// cur is "<op> <g> <key>" or "P <g>"
			f := strings.Fields(r.cur[g])
			k := "-"
			if len(f) > 2 {
				k = f[2]
			}
			emit("stuck %d %s %s", g, f[0], k)
		default:
			emit("late %d sleep", g)
		}
	}
	emit("size %d", size)
	w := 0
	if wd {
		w = 1
	}
	emit("end %d wd=%d", nowRel(), w)
	out.Flush()
	os.Exit(0)
}

// wait blocks until every goroutine has finished (then lets the manager settle for one virtual
// nanosecond, i.e. until everything runnable has run) or the watchdog instant is reached.
func (r *mxRun) wait(wg *sync.WaitGroup, watchdog int64) bool {
	all := make(chan struct{})
	go func() {
		wg.Wait()
		close(all)
	}()
	d := time.Duration(watchdog - nowRel())
	if d < 0 {
		d = 0
	}
	select {
	case <-all:
		time.Sleep(1)
		return false
	case <-time.After(d):
		return true
	}
}

func (r *mxRun) runLock(sc *mxScript) {
	m := sessions.VerifNewMutexes()
	var wg sync.WaitGroup
	for _, id := range sc.gids {
		wg.Add(1)
		go func(g int, steps []mxStep) {
			defer wg.Done()
			rng := rand.New(rand.NewSource(r.seed*1000003 + int64(g)*101 + 1))
			maybeYield := func() {
				if r.yieldP > 0 && rng.Intn(1000) < r.yieldP {
					runtime.Gosched()
				}
			}
			for _, st := range steps {
				maybeYield()
				switch st.op {
				case 'L':
					w := fmt.Sprintf("L %d %d", g, st.n)
					r.begin(g, w)
					m.Lock(goKey(st.n))
					r.finish(g, w)
				case 'U', 'X':
					w := fmt.Sprintf("%c %d %d", st.op, g, st.n)
					r.begin(g, w)
					m.Unlock(goKey(st.n))
					r.finish(g, w)
				case 'P':
					w := fmt.Sprintf("P %d", g)
					r.begin(g, w)
					m.Purge()
					r.finish(g, w)
				case 'S':
					time.Sleep(time.Duration(st.n))
				case 'Y':
					runtime.Gosched()
				}
				maybeYield()
			}
			r.mu.Lock()
			r.done[g] = true
			r.mu.Unlock()
		}(id, sc.progs[id])
	}
	wd := r.wait(&wg, sc.watchdog)
	size := -1
	if !wd {
		size = m.Len()
	}
	r.finishRun(sc.gids, wd, size)
}

// ---------------------------------------------------------------------------
// start mode: concurrent sessions.Start calls on one due session id

// goid returns the runtime's number of the calling goroutine (first line of its stack trace).
func goid() int64 {
	var buf [64]byte
	n := runtime.Stack(buf[:], false)
	f := strings.Fields(string(buf[:n]))
	if len(f) < 2 {
		return -1
	}
	id, _ := strconv.ParseInt(f[1], 10, 64)
	return id
}

// mxStore wraps the harness store: it serialises the calls (the wrapped store is not made for
// concurrent use), attributes every call to the request whose goroutine makes it, and logs it.
type mxStore struct {
	r     *mxRun
	st    *store
	smu   sync.Mutex
	who   sync.Map // goroutine number -> request number
	delay int64
	stall bool
}

func (s *mxStore) req() int {
	if v, ok := s.who.Load(goid()); ok {
		return v.(int)
	}
	return -1 // a background goroutine of the package
}

func (s *mxStore) pause() {
	if !s.stall {
		return
	}
	if s.delay > 0 {
		time.Sleep(time.Duration(s.delay))
	} else {
		runtime.Gosched()
	}
}

func (s *mxStore) LoadSession(id string) (*sessions.Session, error) {
	req := s.req()
	s.pause()
	s.smu.Lock()
	x, err := s.st.LoadSession(id)
	res := "nil"
	if x != nil {
		res = "ok"
		if ref := sessions.VerifFields(x).ReferenceID; ref != "" {
			res = "ref"
		}
	}
	s.smu.Unlock()
	s.r.logf("ev %d load-%s %d", req, res, s.r.intern(id))
	s.pause()
	return x, err
}

func (s *mxStore) SaveSession(id string, x *sessions.Session) error {
	req := s.req()
	s.pause()
	s.smu.Lock()
	err := s.st.SaveSession(id, x)
	s.smu.Unlock()
	kind := "save"
	if ref := sessions.VerifFields(x).ReferenceID; ref != "" {
		kind = "saveref"
	}
	s.r.logf("ev %d %s %d", req, kind, s.r.intern(id))
	s.pause()
	return err
}

func (s *mxStore) DeleteSession(id string) error {
	req := s.req()
	s.pause()
	s.smu.Lock()
	err := s.st.DeleteSession(id)
	s.smu.Unlock()
	s.r.logf("ev %d del %d", req, s.r.intern(id))
	s.pause()
	return err
}

func (s *mxStore) UserSessions(userID interface{}) ([]string, error) {
	s.smu.Lock()
	defer s.smu.Unlock()
	return s.st.UserSessions(userID)
}

func (s *mxStore) LoadUser(id interface{}) (sessions.User, error) {
	s.smu.Lock()
	defer s.smu.Unlock()
	return s.st.LoadUser(id)
}

// mxRand is the deterministic random source; every 16-byte draw is one minted id, attributed to the request.
type mxRand struct {
	s   *mxStore
	mu  sync.Mutex
	rng countingReader
}

func (m *mxRand) Read(p []byte) (int, error) {
	req := m.s.req()
	m.s.pause()
	m.mu.Lock()
	n := m.rng.pos / 16
	m.rng.Read(p)
	m.mu.Unlock()
	if len(p) == 16 {
		m.s.r.logf("mint %d %d", req, m.s.r.intern(genID(n)))
	} else {
		m.s.r.logf("rand %d %d", req, len(p))
	}
	m.s.pause()
	return len(p), nil
}

func (r *mxRun) runStart(sc *mxScript) {
	h := &sessHarness{cfg: map[string]int64{}, ck: cookieCfg{Name: "id", HTTPOnly: true}}
	h.applyCookieCfg()
	// defaults of this mode: every presented id is due at once, nothing expires, replaced ids stay valid
	h.applyCfg("idExpiry", 0)
	h.applyCfg("grace", int64(time.Hour))
	h.applyCfg("sessionExpiry", int64(24*time.Hour))
	h.applyCfg("cacheExpiry", int64(time.Hour))
	h.applyCfg("maxCache", 0)
	for _, kv := range sc.cfg {
		h.applyCfg(kv[0], atoi64(kv[1]))
	}
	ms := &mxStore{r: r, st: newStore("gob"), delay: sc.storeDelay}
	mr := &mxRand{s: ms}
	crand.Reader = mr
	sessions.Persistence = viaExtendable(ms)

	// the sessions the requests will present: created by cookie-less requests, one after the other
	n := 1 + sc.others
	ids := make([]string, n)
	for i := 0; i < n; i++ {
		req := &http.Request{Method: "GET", Header: http.Header{}, RemoteAddr: "10.0.0.1:1"}
		req.Header.Set("User-Agent", "ua")
		s, err := sessions.Start(&respWriter{h: http.Header{}}, req, true)
		if err != nil || s == nil {
			fatal("could not create session %d: %v", i, err)
		}
		ids[i] = sessions.VerifFields(s).ID
		r.logf("created %d", r.intern(ids[i]))
		time.Sleep(4)
	}
	time.Sleep(1000)
	ms.stall = sc.hasStoreD
	t0 := nowRel()
	r.logf("concurrent")

	total := sc.reqs + sc.others
	gids := make([]int, total)
	var wg sync.WaitGroup
	for i := 0; i < total; i++ {
		gids[i] = i
		id := ids[0]
		if i >= sc.reqs {
			id = ids[1+i-sc.reqs]
		}
		wg.Add(1)
		go func(rq int, id string) {
			defer wg.Done()
			ms.who.Store(goid(), rq)
			rng := rand.New(rand.NewSource(r.seed*1000003 + int64(rq)*101 + 1))
			if sc.stagger > 0 {
				time.Sleep(time.Duration(int64(rq) * sc.stagger))
			}
			if r.yieldP > 0 && rng.Intn(1000) < r.yieldP {
				runtime.Gosched()
			}
			req := &http.Request{Method: "GET", Header: http.Header{}, RemoteAddr: "10.0.0.1:1"}
			req.Header.Set("User-Agent", "ua")
			req.Header.Set("Cookie", "id="+id)
			resp := &respWriter{h: http.Header{}}
			k := r.intern(id)
			w := fmt.Sprintf("S %d %d", rq, k)
			r.begin(rq, w)
			kind, sid := "sess", "-"
			func() {
				defer func() {
					if p := recover(); p != nil {
						kind = "panic"
					}
				}()
				s, err := sessions.Start(resp, req, sc.create)
				switch {
				case err != nil:
					kind = "err:" + classify(err)
				case s == nil:
					kind = "nil"
				default:
					sid = strconv.Itoa(r.intern(sessions.VerifFields(s).ID))
				}
			}()
			ck := "-"
			if c := (&http.Response{Header: resp.h}).Cookies(); len(c) > 0 {
				ck = strconv.Itoa(r.intern(c[len(c)-1].Value))
			}
			r.mu.Lock()
			r.lines = append(r.lines, fmt.Sprintf("%d ret S %d %d %s %s %s", nowRel(), rq, k, kind, sid, ck))
			delete(r.cur, rq)
			r.done[rq] = true
			r.mu.Unlock()
		}(i, id)
	}
	if sc.purges > 0 {
		// clean-ups of the lock table while requests are inside Start (what the periodic goroutine does every ten minutes)
		go func() {
			for i := 0; i < sc.purges; i++ {
				time.Sleep(time.Duration(sc.purgeGap))
				sessions.VerifSessionIDMutexes().Purge()
			}
		}()
	}
	wd := r.wait(&wg, t0+sc.watchdog)
	size := -1
	if !wd {
		size = sessions.VerifSessionIDMutexes().Len()
	}
	r.finishRun(gids, wd, size)
}
