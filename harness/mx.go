package main

// runMx: mode mx (stub, filled in by its check).
func runMx(script, out string) {
	fatal("mode mx not implemented")
}
