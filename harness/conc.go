package main

// Mode conc: real concurrency against the real package (property C15). No virtual clock: this mode is
// meant for the binary built with -race (the detector's reports go to the file named by GORACE
// log_path) and also runs in the plain build.
//
// Script: one "name value" pair per line (defaults in defaultConc):
//
//	clients 3            number of clients (each has its own cookie jar and session)
//	inflight 3           request goroutines per client, all using the client's jar
//	reqs 100             requests per goroutine
//	hops 4               handler operations per request
//	seed 1
//	cache 2              MaxSessionCacheSize
//	codec gob|json
//	idexpiry 0           SessionIDExpiry in ns (0: the ID is replaced on every request)
//	grace 20000000       SessionIDGracePeriod in ns
//	sessionexpiry max    SessionExpiry in ns
//	cacheexpiry ...      SessionCacheExpiry in ns
//	keys 2               size of the key space of the key/value operations
//	mix set=4,get=4,...  weights of the handler operations (set get del getdel login loginx logout regen
//	                     user lastaccess expired enc dec destroy)
//	cuid 1 / purge 1     extra goroutines calling sessions.CUID() / sessions.PurgeSessions()
//	hist 1               record the call/return history of the key/value operations. The time stamps come
//	                     from one atomic counter, which orders the goroutines for the race detector, so
//	                     race hunting scenarios switch it off.
//	deadline 60000       ms until the goroutines are told to stop; 10 s later whatever still runs is "stuck"
//	directed <name>      run a directed two/three goroutine schedule instead of the generator (see directed())
//	storedelay <permille> <max µs>   slow store: LoadSession/DeleteSession sleep up to max µs with that probability (default 0 0)
//	iters 300            iterations of a directed schedule
//
// Transcript:
//
//	conc <the effective parameters>
//	call <ts> <g> <op> <object> <key> [<value>]     key/value operation called (ts: global atomic counter)
//	ret <ts> <g> <op> <result>                      ... returned: ok | err | <value> | - (nothing stored)
//	panic <g> <message>                             a recovered panic inside an API call
//	stuck <n>                                       n goroutines had not finished at the hard deadline
//	resurrect <iteration> <setup> <what>            directed destroy-race: an ended session was obtainable afterwards
//	stat <name> <n>
//	end
import (
	"errors"
	"bufio"
	"bytes"
	"encoding/gob"
	"encoding/json"
	"fmt"
	mrand "math/rand"
	"net/http"
	"os"
	"runtime"
	"sort"
	"strconv"
	"strings"
	"sync"
	"sync/atomic"
	"time"

	"github.com/rivo/sessions"
)

// ---------------------------------------------------------------------------
// The honest store made safe for concurrent callers: one mutex around every call ("serialising store").

type lockedStore struct {
	mu sync.Mutex
	st *store
	// a slow store: with probability delayPermille/1000 LoadSession, SaveSession and DeleteSession wait up to delayMaxUs
	// microseconds of real time before they touch the records (before taking the store's mutex), and LoadSession
	// again before it returns
	delayPermille, delayMaxUs int
	// a store that sometimes fails: with probability saveFailPermille/1000 SaveSession returns an error and writes nothing
	saveFailPermille int
}

var errInjectedSave = errors.New("injected: the store could not save")

func (l *lockedStore) delay() {
	if l.delayPermille > 0 && l.delayMaxUs > 0 && mrand.Intn(1000) < l.delayPermille {
		time.Sleep(time.Duration(1+mrand.Intn(l.delayMaxUs)) * time.Microsecond)
	}
}

// fullRecord reports whether the store holds a non-reference record under id.
func (l *lockedStore) fullRecord(id string) bool {
	l.mu.Lock()
	defer l.mu.Unlock()
	b, ok := l.st.recs[id]
	if !ok {
		return false
	}
	s, err := l.st.decodeQuiet(b)
	return err == nil && sessions.VerifFields(s).ReferenceID == ""
}

func (l *lockedStore) trim() { l.st.events = l.st.events[:0] }

func (l *lockedStore) LoadSession(id string) (*sessions.Session, error) {
	l.delay()
	// the answer of a slow store also takes its time to arrive: a window between "the record was read" and "the caller
	// has it", in which a delete or a save of the same ID by another caller must not be able to slip in unnoticed
	defer l.delay()
	l.mu.Lock()
	defer l.mu.Unlock()
	defer l.trim()
	return l.st.LoadSession(id)
}

func (l *lockedStore) SaveSession(id string, s *sessions.Session) error {
	l.delay()
	if l.saveFailPermille > 0 && mrand.Intn(1000) < l.saveFailPermille {
		return errInjectedSave
	}
	l.mu.Lock()
	defer l.mu.Unlock()
	defer l.trim()
	return l.st.SaveSession(id, s)
}

// hasRecord reports whether the store holds any record under id.
func (l *lockedStore) hasRecord(id string) bool {
	l.mu.Lock()
	defer l.mu.Unlock()
	_, ok := l.st.recs[id]
	return ok
}

// stored returns the decoded record under id (nil if there is none or it does not decode).
func (l *lockedStore) stored(id string) *sessions.Session {
	l.mu.Lock()
	defer l.mu.Unlock()
	b, ok := l.st.recs[id]
	if !ok {
		return nil
	}
	s, err := l.st.decodeQuiet(b)
	if err != nil {
		return nil
	}
	return s
}

func (l *lockedStore) DeleteSession(id string) error {
	l.delay()
	l.mu.Lock()
	defer l.mu.Unlock()
	defer l.trim()
	return l.st.DeleteSession(id)
}

func (l *lockedStore) UserSessions(userID interface{}) ([]string, error) {
	l.mu.Lock()
	defer l.mu.Unlock()
	defer l.trim()
	return l.st.UserSessions(userID)
}

// LoadUser is called by the package's decoders, i.e. from inside the store's own decoding (the mutex is
// then held by the caller) and from decoding done by handler goroutines. It touches no shared state.
func (l *lockedStore) LoadUser(id interface{}) (sessions.User, error) {
	return &user{ID: fmt.Sprint(id)}, nil
}

// ---------------------------------------------------------------------------

type concCfg struct {
	clients, inflight, reqs, hops int
	seed                          int64
	cache                         int
	codec                         string
	idExpiry, grace               time.Duration
	sessExpiry, cacheExpiry       time.Duration
	keys                          int
	mix                           string
	cuid, purge                   int
	hist                          bool
	deadline                      time.Duration
	directed                      string
	iters                         int
	delayPermille, delayMaxUs     int
	saveFail                      int
}

const defaultMix = "set=5,get=5,del=2,getdel=4,login=1,loginx=1,logout=1,regen=1,user=1,lastaccess=1,expired=1,enc=1,dec=1,destroy=0"

func defaultConc() concCfg {
	return concCfg{clients: 3, inflight: 3, reqs: 100, hops: 4, seed: 1, cache: 2, codec: "gob", idExpiry: 0, grace: 20 * time.Millisecond,
		sessExpiry: 1<<63 - 1, cacheExpiry: time.Hour, keys: 2, mix: defaultMix, cuid: 1, purge: 1, hist: true, deadline: 60 * time.Second, iters: 300}
}

func parseConc(path string) concCfg {
	c := defaultConc()
	data, err := os.ReadFile(path)
	if err != nil {
		fatal("%v", err)
	}
	for _, line := range strings.Split(string(data), "\n") {
		line = strings.TrimSpace(line)
		if line == "" || strings.HasPrefix(line, "//") || strings.HasPrefix(line, "#") {
			continue
		}
		t := strings.Fields(line)
		if len(t) == 3 && t[0] == "storedelay" {
			c.delayPermille, c.delayMaxUs = int(atoi64(t[1])), int(atoi64(t[2]))
			continue
		}
		if len(t) == 2 && t[0] == "savefail" {
			c.saveFail = int(atoi64(t[1]))
			continue
		}
		if len(t) != 2 {
			fatal("bad conc script line %q", line)
		}
		switch t[0] {
		case "clients":
			c.clients = int(atoi64(t[1]))
		case "inflight":
			c.inflight = int(atoi64(t[1]))
		case "reqs":
			c.reqs = int(atoi64(t[1]))
		case "hops":
			c.hops = int(atoi64(t[1]))
		case "seed":
			c.seed = atoi64(t[1])
		case "cache":
			c.cache = int(atoi64(t[1]))
		case "codec":
			if t[1] != "gob" && t[1] != "json" {
				fatal("bad codec %q", t[1])
			}
			c.codec = t[1]
		case "idexpiry":
			c.idExpiry = time.Duration(atoi64(t[1]))
		case "grace":
			c.grace = time.Duration(atoi64(t[1]))
		case "sessionexpiry":
			c.sessExpiry = time.Duration(atoi64(t[1]))
		case "cacheexpiry":
			c.cacheExpiry = time.Duration(atoi64(t[1]))
		case "keys":
			c.keys = int(atoi64(t[1]))
		case "mix":
			c.mix = t[1]
		case "cuid":
			c.cuid = int(atoi64(t[1]))
		case "purge":
			c.purge = int(atoi64(t[1]))
		case "hist":
			c.hist = t[1] != "0"
		case "deadline":
			c.deadline = time.Duration(atoi64(t[1])) * time.Millisecond
		case "directed":
			c.directed = t[1]
		case "iters":
			c.iters = int(atoi64(t[1]))
		default:
			fatal("unknown conc parameter %q", t[0])
		}
	}
	if c.clients < 1 || c.inflight < 1 || c.keys < 1 {
		fatal("clients, inflight and keys must be positive")
	}
	return c
}

type weighted struct {
	op string
	w  int
}

func parseMix(s string) ([]weighted, int) {
	known := map[string]bool{"set": true, "get": true, "del": true, "getdel": true, "login": true, "loginx": true, "logout": true, "regen": true,
		"user": true, "lastaccess": true, "expired": true, "enc": true, "dec": true, "destroy": true}
	var out []weighted
	total := 0
	for _, p := range strings.Split(s, ",") {
		kv := strings.SplitN(p, "=", 2)
		if len(kv) != 2 || !known[kv[0]] {
			fatal("bad mix entry %q", p)
		}
		w := int(atoi64(kv[1]))
		if w > 0 {
			out = append(out, weighted{kv[0], w})
			total += w
		}
	}
	if total == 0 {
		fatal("empty mix")
	}
	return out, total
}

// ---------------------------------------------------------------------------

type histEv struct {
	ts   int64
	line string
}

// cgor is the private state of one harness goroutine. Nothing in it is shared while the run lasts, so
// that the harness adds no synchronisation between the goroutines beyond the jar and the store.
type cgor struct {
	id     int
	rnd    *mrand.Rand
	hist   []histEv
	panics []string
	keep   []*sessions.Session // every object seen stays reachable, so "%p" identifies it for the whole run
	nset   int
	stat   map[string]int
	done   int32
}

type cjar struct {
	mu        sync.Mutex
	cur, prev string
}

type concH struct {
	cfg    concCfg
	mix    []weighted
	mixTot int
	jars   []*cjar
	clock  int64
	stop   int32
	gors   []*cgor
	wg     sync.WaitGroup
	store  *lockedStore
	extra  []string // lines of directed families (written by one goroutine, read after the join)
}

func (h *concH) stopped() bool { return atomic.LoadInt32(&h.stop) != 0 }

func (h *concH) newGor() *cgor {
	g := &cgor{id: len(h.gors), stat: map[string]int{}}
	g.rnd = mrand.New(mrand.NewSource(h.cfg.seed*1000003 + int64(g.id)*7919 + 1))
	h.gors = append(h.gors, g)
	return g
}

// spawn runs f on its own goroutine with panic capture and completion accounting.
func (h *concH) spawn(g *cgor, f func()) {
	h.wg.Add(1)
	go func() {
		defer h.wg.Done()
		defer atomic.StoreInt32(&g.done, 1)
		defer func() {
			if r := recover(); r != nil {
				g.panics = append(g.panics, "harness goroutine: "+firstLine(fmt.Sprint(r)))
			}
		}()
		f()
	}()
}

func firstLine(s string) string { return strings.SplitN(s, "\n", 2)[0] }

// safe runs one API call; a panic is recorded and the goroutine goes on.
func (g *cgor) safe(what string, f func()) (ok bool) {
	defer func() {
		if r := recover(); r != nil {
			g.panics = append(g.panics, what+": "+firstLine(fmt.Sprint(r)))
			g.stat["panics"]++
			ok = false
		}
	}()
	f()
	return true
}

func (h *concH) call(g *cgor, op, obj, key, val string) {
	if !h.cfg.hist {
		return
	}
	ts := atomic.AddInt64(&h.clock, 1)
	l := fmt.Sprintf("call %d %d %s %s %s", ts, g.id, op, obj, key)
	if val != "" {
		l += " " + val
	}
	g.hist = append(g.hist, histEv{ts, l})
}

func (h *concH) ret(g *cgor, op, res string) {
	if !h.cfg.hist {
		return
	}
	ts := atomic.AddInt64(&h.clock, 1)
	g.hist = append(g.hist, histEv{ts, fmt.Sprintf("ret %d %d %s %s", ts, g.id, op, res)})
}

func okErr(err error) string {
	if err != nil {
		return "err"
	}
	return "ok"
}

func valStr(v interface{}) string {
	switch x := v.(type) {
	case nil:
		return "-"
	case string:
		if x == "" || strings.ContainsAny(x, " \n") {
			return "?" + strconv.Quote(x)
		}
		return x
	default:
		return fmt.Sprintf("?%T", v)
	}
}

func newReq(client int, cookie string) (*http.Request, *respWriter) {
	req := &http.Request{Method: "GET", Header: http.Header{}, RemoteAddr: fmt.Sprintf("10.0.%d.1:4000", client%250)}
	req.Header.Set("User-Agent", fmt.Sprintf("agent-%d", client))
	if cookie != "" {
		req.Header.Set("Cookie", sessions.SessionCookie+"="+cookie)
	}
	return req, &respWriter{h: http.Header{}}
}

// cookieOf returns what a browser would do with the response: (value, set, deleted).
func cookieOf(resp *respWriter) (string, bool, bool) {
	r := http.Response{Header: resp.h}
	val, set, del := "", false, false
	for _, c := range r.Cookies() {
		if c.Name != sessions.SessionCookie {
			continue
		}
		if c.MaxAge < 0 || (!c.Expires.IsZero() && !c.Expires.After(time.Now())) {
			val, set, del = "", false, true
		} else {
			val, set, del = c.Value, true, false
		}
	}
	return val, set, del
}

func (h *concH) pick(g *cgor) string {
	n := g.rnd.Intn(h.mixTot)
	for _, w := range h.mix {
		if n < w.w {
			return w.op
		}
		n -= w.w
	}
	return h.mix[0].op
}

// handlerOp performs one random method call on a session obtained from Start.
func (h *concH) handlerOp(g *cgor, client int, s *sessions.Session, resp *respWriter, req *http.Request) {
	op := h.pick(g)
	obj := fmt.Sprintf("%p", s)
	key := "k" + strconv.Itoa(g.rnd.Intn(h.cfg.keys))
	g.stat["op_"+op]++
	switch op {
	case "set":
		val := fmt.Sprintf("v%d.%d", g.id, g.nset)
		g.nset++
		h.call(g, "set", obj, key, val)
		var err error
		if g.safe("Set", func() { err = s.Set(key, val) }) {
			h.ret(g, "set", okErr(err))
		}
	case "get":
		h.call(g, "get", obj, key, "")
		var v interface{}
		if g.safe("Get", func() { v = s.Get(key, nil) }) {
			h.ret(g, "get", valStr(v))
		}
	case "del":
		h.call(g, "del", obj, key, "")
		var err error
		if g.safe("Delete", func() { err = s.Delete(key) }) {
			h.ret(g, "del", okErr(err))
		}
	case "getdel":
		h.call(g, "getdel", obj, key, "")
		var v interface{}
		if g.safe("GetAndDelete", func() { v = s.GetAndDelete(key, nil) }) {
			h.ret(g, "getdel", valStr(v))
		}
	case "login", "loginx":
		u := &user{ID: "u" + strconv.Itoa(client)}
		g.safe("LogIn", func() {
			if err := s.LogIn(u, op == "loginx", resp); err != nil {
				g.stat["login_err"]++
			}
		})
	case "logout":
		g.safe("LogOut", func() { s.LogOut() })
	case "regen":
		g.safe("RegenerateID", func() {
			if err := s.RegenerateID(resp); err != nil {
				g.stat["regen_err"]++
			}
		})
	case "user":
		g.safe("User", func() { _ = s.User() })
	case "lastaccess":
		g.safe("LastAccess", func() { _ = s.LastAccess() })
	case "expired":
		g.safe("Expired", func() { _ = s.Expired() })
	case "enc", "dec":
		g.safe("encoding", func() {
			var buf bytes.Buffer
			if err := gob.NewEncoder(&buf).Encode(s); err != nil {
				g.stat["enc_err"]++
			}
			js, err := json.Marshal(s)
			if err != nil {
				g.stat["enc_err"]++
			}
			if op == "dec" {
				var a, b sessions.Session
				if err := gob.NewDecoder(&buf).Decode(&a); err != nil {
					g.stat["dec_err"]++
				}
				if err := json.Unmarshal(js, &b); err != nil {
					g.stat["dec_err"]++
				}
			}
		})
	case "destroy":
		g.safe("Destroy", func() { s.Destroy(resp, req) })
	}
}

// request is one HTTP request of a client: Start with a cookie from the jar, handler calls, jar update.
func (h *concH) request(g *cgor, client int) {
	jar := h.jars[client]
	jar.mu.Lock()
	cookie := jar.cur
	switch r := g.rnd.Intn(100); {
	case r < 20 && jar.prev != "":
		cookie = jar.prev // an in-flight request that still carries the replaced ID
	case r < 22:
		cookie = "" // cookie lost: a new session
	case r < 24:
		cookie = "AAAAAAAAAAAAAAAAAAAAAA==" // unknown ID
	}
	jar.mu.Unlock()
	req, resp := newReq(client, cookie)
	var s *sessions.Session
	var err error
	g.stat["requests"]++
	if !g.safe("Start", func() { s, err = sessions.Start(resp, req, true) }) {
		return
	}
	switch {
	case err != nil:
		g.stat["start_err"]++
	case s == nil:
		g.stat["start_nil"]++
	case cookie == "":
		g.stat["start_new"]++
	default:
		g.stat["start_ok"]++
	}
	if s != nil {
		g.keep = append(g.keep, s)
		for i := 0; i < h.cfg.hops && !h.stopped(); i++ {
			h.handlerOp(g, client, s, resp, req)
		}
	}
	if v, set, del := cookieOf(resp); set || del {
		jar.mu.Lock()
		if set && v != jar.cur {
			jar.prev, jar.cur = jar.cur, v
		} else if del && jar.cur == cookie {
			jar.cur = ""
		}
		jar.mu.Unlock()
	}
}

func (h *concH) generator() {
	for c := 0; c < h.cfg.clients; c++ {
		h.jars = append(h.jars, &cjar{})
	}
	for c := 0; c < h.cfg.clients; c++ {
		for i := 0; i < h.cfg.inflight; i++ {
			g, client := h.newGor(), c
			h.spawn(g, func() {
				for n := 0; n < h.cfg.reqs && !h.stopped(); n++ {
					h.request(g, client)
				}
			})
		}
	}
	total := h.cfg.reqs * (h.cfg.hops + 1)
	for i := 0; i < h.cfg.cuid; i++ {
		g := h.newGor()
		h.spawn(g, func() {
			for n := 0; n < total && !h.stopped(); n++ {
				g.safe("CUID", func() {
					if id := sessions.CUID(); len(id) != 11 {
						g.panics = append(g.panics, "CUID: length "+strconv.Itoa(len(id)))
					}
				})
				g.stat["cuid"]++
				if n%64 == 0 {
					runtime.Gosched()
				}
			}
		})
	}
	for i := 0; i < h.cfg.purge; i++ {
		g := h.newGor()
		h.spawn(g, func() {
			for n := 0; n < h.cfg.reqs && !h.stopped(); n++ {
				g.safe("PurgeSessions", func() { sessions.PurgeSessions() })
				g.stat["purge"]++
				time.Sleep(time.Duration(200+g.rnd.Intn(1800)) * time.Microsecond)
			}
		})
	}
}

// ---------------------------------------------------------------------------
// Directed schedules: each aims two or three goroutines at one pair of accesses.

// startAs performs Start for a client with the given cookie and returns the session and the cookie value
// the response sets (if any).
func startAs(g *cgor, client int, cookie string) (*sessions.Session, string) {
	req, resp := newReq(client, cookie)
	var s *sessions.Session
	g.safe("Start", func() {
		var err error
		s, err = sessions.Start(resp, req, true)
		if err != nil {
			g.stat["start_err"]++
		}
	})
	v, _, _ := cookieOf(resp)
	if s != nil {
		g.keep = append(g.keep, s)
	}
	g.stat["requests"]++
	return s, v
}

func (h *concH) loop(n int, f func(i int)) {
	for i := 0; i < n && !h.stopped(); i++ {
		f(i)
	}
}

// twoHandles: two requests of one client obtain the same cached object through Start.
func (h *concH) twoHandles(g0 *cgor) (a, b *sessions.Session, id string) {
	_, id = startAs(g0, 0, "")
	a, _ = startAs(g0, 0, id)
	b, _ = startAs(g0, 0, id)
	if a == nil || a != b {
		fatal("directed: the two requests did not obtain one shared object")
	}
	return a, b, id
}

func (h *concH) directed() {
	g0 := h.newGor()
	n := h.cfg.iters
	dummy := func() *respWriter { return &respWriter{h: http.Header{}} }
	// hammer runs f against a concurrent RegenerateID loop on the same object.
	againstRegen := func(f func(g *cgor, s *sessions.Session, i int)) {
		a, b, _ := h.twoHandles(g0)
		g1, g2 := h.newGor(), h.newGor()
		h.spawn(g1, func() { h.loop(n, func(i int) { f(g1, a, i) }) })
		h.spawn(g2, func() {
			h.loop(n, func(i int) { g2.safe("RegenerateID", func() { b.RegenerateID(dummy()) }) })
		})
	}
	switch h.cfg.directed {
	case "start-ua":
		// the replaced ID (in its grace period) and the new ID are presented concurrently: different
		// per-ID locks, one object. Start's unlocked read of lastUserAgentHash against Start's write.
		_, id0 := startAs(g0, 0, "")
		s, _ := startAs(g0, 0, id0)
		resp := dummy()
		if s == nil || s.RegenerateID(resp) != nil {
			fatal("directed start-ua: setup failed")
		}
		id1, _, _ := cookieOf(resp)
		g1, g2 := h.newGor(), h.newGor()
		h.spawn(g1, func() { h.loop(n, func(int) { startAs(g1, 0, id0) }) })
		h.spawn(g2, func() { h.loop(n, func(int) { startAs(g2, 0, id1) }) })
	case "compact":
		// requests on cached sessions while other clients create sessions, which makes the cache evict:
		// compact's read of lastAccess against Start's write.
		k := h.cfg.cache
		if k < 1 {
			k = 1
		}
		for c := 0; c < k; c++ {
			_, id := startAs(g0, c, "")
			g, client := h.newGor(), c
			h.spawn(g, func() { h.loop(n, func(int) { startAs(g, client, id) }) })
		}
		for j := 0; j < 2; j++ {
			g := h.newGor()
			h.spawn(g, func() { h.loop(n, func(i int) { startAs(g, 100+g.id, "") }) })
		}
	case "id-set":
		againstRegen(func(g *cgor, s *sessions.Session, i int) { g.safe("Set", func() { s.Set("k0", "v"+strconv.Itoa(i)) }) })
	case "id-delete":
		againstRegen(func(g *cgor, s *sessions.Session, i int) { g.safe("Delete", func() { s.Delete("k0") }) })
	case "id-logout":
		againstRegen(func(g *cgor, s *sessions.Session, i int) {
			g.safe("LogIn", func() { s.LogIn(&user{ID: "u0"}, false, dummy()) })
			g.safe("LogOut", func() { s.LogOut() })
		})
	case "id-login":
		againstRegen(func(g *cgor, s *sessions.Session, i int) {
			g.safe("LogIn", func() { s.LogIn(&user{ID: "u0"}, false, dummy()) })
		})
	case "login-leak":
		// LogIn takes the per-ID lock of the session's current ID around RegenerateID. While LogIn and
		// RegenerateID run concurrently on one object every ID the session ever had is collected; afterwards
		// each of them is presented once. A per-ID lock that was taken and never released blocks that Start.
		a, b, _ := h.twoHandles(g0)
		g1, g2 := h.newGor(), h.newGor()
		g1.done, g2.done = 1, 1
		var ids [2][]string
		var phase sync.WaitGroup
		hammer := func(g *cgor, slot int, f func(resp *respWriter)) {
			defer phase.Done()
			h.loop(n, func(int) {
				resp := dummy()
				g.safe("LogIn/RegenerateID", func() { f(resp) })
				if v, set, _ := cookieOf(resp); set {
					ids[slot] = append(ids[slot], v)
				}
			})
		}
		h.spawn(g0, func() {
			phase.Add(2)
			go hammer(g1, 0, func(resp *respWriter) { a.LogIn(&user{ID: "u0"}, false, resp) })
			go hammer(g2, 1, func(resp *respWriter) { b.RegenerateID(resp) })
			phase.Wait()
			for _, id := range append(ids[0], ids[1]...) {
				if h.stopped() {
					break
				}
				startAs(g0, 0, id)
			}
		})
	case "destroy-race":
		h.spawn(g0, func() { h.destroyRace(g0) })
	case "cleanup-race":
		h.spawn(g0, func() { h.cleanupRace(g0) })
	case "load-race":
		h.spawn(g0, func() { h.loadRace(g0) })
	case "id-destroy":
		// per round: two requests hold the session; one destroys it while the other changes its ID.
		g1, g2 := h.newGor(), h.newGor()
		g1.done, g2.done = 1, 1 // their goroutines live inside g0's rounds
		var round sync.WaitGroup
		h.spawn(g0, func() {
			h.loop(n, func(int) {
				a, b, id := h.twoHandles(g0)
				round.Add(2)
				go func() {
					defer round.Done()
					req, resp := newReq(0, id)
					g1.safe("Destroy", func() { a.Destroy(resp, req) })
				}()
				go func() {
					defer round.Done()
					for j := 0; j < 8; j++ {
						g2.safe("RegenerateID", func() { b.RegenerateID(dummy()) })
					}
				}()
				round.Wait()
			})
		})
	case "regen-fields":
		// RegenerateID's unlocked reads of id/created/lastIP/lastUserAgentHash against another
		// RegenerateID (created, id) and against Start through the first, replaced ID (lastIP, hash).
		a, b, id0 := h.twoHandles(g0)
		g1, g2, g3 := h.newGor(), h.newGor(), h.newGor()
		h.spawn(g1, func() { h.loop(n, func(int) { g1.safe("RegenerateID", func() { a.RegenerateID(dummy()) }) }) })
		h.spawn(g2, func() { h.loop(n, func(int) { g2.safe("RegenerateID", func() { b.RegenerateID(dummy()) }) }) })
		h.spawn(g3, func() { h.loop(n, func(int) { startAs(g3, 0, id0) }) })
	default:
		fatal("unknown directed schedule %q", h.cfg.directed)
	}
}

// destroyRace (property C07 under concurrency): per iteration a session with data, sometimes a user, and k replaced IDs
// in their grace period is ended by one goroutine — a handler calling Destroy on a handle it got from Start, or a Start
// that invalidates it (changed User-Agent; idle longer than SessionExpiry) — while `inflight` goroutines present its
// current and replaced IDs to Start (createIfNew=false), `hops` times each. When all of them have finished (so the
// ending call has returned), sequentially: no ID that ever belonged to the session may yield a session, the cache may
// hold no full object and the store no full record under any of them. (Reference records of replaced IDs may remain;
// they lead nowhere.) SessionIDExpiry should be large: an automatic ID change by a concurrent request re-saves the object.
func (h *concH) destroyRace(g0 *cgor) {
	const agent = "agent-0" // what newReq sends for client 0
	request := func(g *cgor, cookie, ua string, create bool) (*sessions.Session, *respWriter, *http.Request) {
		req, resp := newReq(0, cookie)
		if ua != "" {
			req.Header.Set("User-Agent", ua)
		}
		var s *sessions.Session
		g.safe("Start", func() { s, _ = sessions.Start(resp, req, create) })
		g.stat["requests"]++
		return s, resp, req
	}
	savedExpiry := sessions.SessionExpiry
	hammers := make([]*cgor, h.cfg.inflight)
	for i := range hammers {
		hammers[i] = h.newGor()
		hammers[i].done = 1 // they live inside g0's iterations
	}
	ender := h.newGor()
	ender.done = 1
	purger := h.newGor()
	purger.done = 1
	for it := 0; it < h.cfg.iters && !h.stopped(); it++ {
		// ---- setup (sequential)
		variant := []string{"destroy", "destroy", "destroy", "agent", "agent", "expiry"}[g0.rnd.Intn(6)]
		k := g0.rnd.Intn(3)
		withUser := g0.rnd.Intn(3) == 0
		secret := fmt.Sprintf("secret-%d", it)
		_, resp, _ := request(g0, "", "", true)
		id, _, _ := cookieOf(resp)
		s, _, _ := request(g0, id, "", false)
		if s == nil || id == "" {
			h.extra = append(h.extra, fmt.Sprintf("panic %d destroy-race: setup failed in iteration %d", g0.id, it))
			continue
		}
		ids := []string{id}
		g0.safe("Set", func() { s.Set("secret", secret) })
		for j := 0; j < k || (withUser && j == 0 && k == 0); j++ {
			r := &respWriter{h: http.Header{}}
			if withUser && j == 0 {
				g0.safe("LogIn", func() { s.LogIn(&user{ID: "u0"}, false, r) })
			} else {
				g0.safe("RegenerateID", func() { s.RegenerateID(r) })
			}
			if v, set, _ := cookieOf(r); set {
				ids = append(ids, v)
			}
		}
		cur := ids[len(ids)-1]
		setup := fmt.Sprintf("%s,k=%d,user=%d", variant, len(ids)-1, b2i(withUser))
		if variant == "expiry" {
			sessions.SessionExpiry = 15 * time.Millisecond
			time.Sleep(20 * time.Millisecond)
		}
		// ---- the race
		var wg sync.WaitGroup
		start := make(chan struct{})
		wg.Add(1 + len(hammers))
		go func() {
			defer wg.Done()
			<-start
			switch variant {
			case "destroy":
				if hs, resp, req := request(ender, cur, "", false); hs != nil {
					ender.safe("Destroy", func() { hs.Destroy(resp, req) })
				}
			case "agent":
				request(ender, cur, "another-agent", false)
			case "expiry":
				request(ender, cur, "", false)
			}
		}()
		for _, g := range hammers {
			g := g
			go func() {
				defer wg.Done()
				<-start
				for n := 0; n < h.cfg.hops; n++ {
					if hs, _, _ := request(g, ids[g.rnd.Intn(len(ids))], "", false); hs != nil {
						g.stat["hammer_got_session"]++
					} else {
						g.stat["hammer_got_nothing"]++
					}
				}
			}()
		}
		if g0.rnd.Intn(2) == 0 {
			// a PurgeSessions in the middle of it all: its flushes must not bring the ended session back either
			wg.Add(1)
			go func() {
				defer wg.Done()
				<-start
				for n := 0; n < 2; n++ {
					time.Sleep(time.Duration(purger.rnd.Intn(400)) * time.Microsecond)
					purger.safe("PurgeSessions", func() { sessions.PurgeSessions() })
					purger.stat["purges"]++
				}
			}()
		}
		close(start)
		wg.Wait()
		sessions.SessionExpiry = savedExpiry
		g0.stat["destroy_iterations"]++
		g0.stat["destroy_"+variant]++
		// ---- afterwards (sequential): nothing of the session may be left
		bad := func(format string, args ...interface{}) {
			h.extra = append(h.extra, fmt.Sprintf("resurrect %d %s ", it, setup)+fmt.Sprintf(format, args...))
			g0.stat["resurrect"]++
		}
		for n, x := range ids {
			if c := sessions.VerifCached(x); c != nil && sessions.VerifFields(c).ReferenceID == "" {
				bad("cache holds the ended session under id#%d of %d", n, len(ids)-1)
			}
			if h.store.fullRecord(x) {
				bad("store holds a full record of the ended session under id#%d of %d", n, len(ids)-1)
			}
		}
		for n, x := range ids {
			if after, _, _ := request(g0, x, "", false); after != nil {
				var v interface{}
				var u sessions.User
				g0.safe("Get", func() { v, u = after.Get("secret", nil), after.User() })
				bad("Start with id#%d of %d returned a session after the end: secret=%s user=%s", n, len(ids)-1, valStr(v), renderUser(u, false))
			}
		}
	}
}

// cleanupRace (property C05 under concurrency): "…and nothing afterwards". Per iteration a session's ID is replaced once or
// twice with a grace period of a few milliseconds; the cache is purged so that the records of the replaced IDs have to
// be loaded; `inflight` goroutines keep presenting the replaced IDs to Start and one goroutine calls PurgeSessions
// while the package's clean-up goroutines delete the replaced IDs at the end of their grace periods. When every
// clean-up has run and every request has returned, sequentially: a replaced ID is neither cached nor stored and a
// request presenting it gets no session. (While the race lasts a request may legitimately be served: it started inside
// the grace period.)
func (h *concH) cleanupRace(g0 *cgor) {
	request := func(g *cgor, cookie string, create bool) (*sessions.Session, *respWriter, *http.Request) {
		req, resp := newReq(0, cookie)
		var s *sessions.Session
		g.safe("Start", func() { s, _ = sessions.Start(resp, req, create) })
		g.stat["requests"]++
		return s, resp, req
	}
	hammers := make([]*cgor, h.cfg.inflight)
	for i := range hammers {
		hammers[i] = h.newGor()
		hammers[i].done = 1
	}
	purger := h.newGor()
	purger.done = 1
	savedGrace := sessions.SessionIDGracePeriod
	defer func() { sessions.SessionIDGracePeriod = savedGrace }()
	for it := 0; it < h.cfg.iters && !h.stopped(); it++ {
		grace := time.Duration(6+g0.rnd.Intn(10)) * time.Millisecond
		sessions.SessionIDGracePeriod = grace
		_, resp, _ := request(g0, "", true)
		id, _, _ := cookieOf(resp)
		s, _, _ := request(g0, id, false)
		if s == nil || id == "" {
			h.extra = append(h.extra, fmt.Sprintf("panic %d cleanup-race: setup failed in iteration %d", g0.id, it))
			continue
		}
		g0.safe("Set", func() { s.Set("marker", fmt.Sprintf("live-%d", it)) })
		ids := []string{id}
		k := 1 + g0.rnd.Intn(2)
		for j := 0; j < k; j++ {
			r := &respWriter{h: http.Header{}}
			g0.safe("RegenerateID", func() { s.RegenerateID(r) })
			if v, set, _ := cookieOf(r); set {
				ids = append(ids, v)
			}
		}
		last := time.Now()
		replaced := ids[:len(ids)-1]
		setup := fmt.Sprintf("k=%d,grace=%dms", len(replaced), grace/time.Millisecond)
		if g0.rnd.Intn(3) > 0 {
			g0.safe("PurgeSessions", func() { sessions.PurgeSessions() })
		}
		until := last.Add(grace + 4*time.Millisecond)
		var wg sync.WaitGroup
		wg.Add(1 + len(hammers))
		for _, g := range hammers {
			g := g
			go func() {
				defer wg.Done()
				for time.Now().Before(until) && !h.stopped() {
					if hs, _, _ := request(g, replaced[g.rnd.Intn(len(replaced))], false); hs != nil {
						g.stat["hammer_got_session"]++
					} else {
						g.stat["hammer_got_nothing"]++
					}
					time.Sleep(time.Duration(g.rnd.Intn(300)) * time.Microsecond)
				}
			}()
		}
		go func() {
			defer wg.Done()
			for time.Now().Before(until) && !h.stopped() {
				time.Sleep(time.Duration(500+purger.rnd.Intn(2500)) * time.Microsecond)
				purger.safe("PurgeSessions", func() { sessions.PurgeSessions() })
				purger.stat["purges"]++
			}
		}()
		wg.Wait()
		// every clean-up goroutine has slept its grace period by now; their deletes (slow store, busy machine) may still be
		// on their way: wait until the replaced IDs are gone from cache and store, for at most three seconds. What is
		// still there then stays there: nothing else will remove it.
		if d := time.Until(last.Add(grace + 5*time.Millisecond)); d > 0 {
			time.Sleep(d)
		}
		for waited := 0; waited < 3000; waited += 5 {
			gone := true
			for _, x := range replaced {
				if sessions.VerifCached(x) != nil || h.store.hasRecord(x) {
					gone = false
				}
			}
			if gone {
				break
			}
			time.Sleep(5 * time.Millisecond)
		}
		g0.stat["cleanup_iterations"]++
		bad := func(format string, args ...interface{}) {
			h.extra = append(h.extra, fmt.Sprintf("graceover %d %s ", it, setup)+fmt.Sprintf(format, args...))
			g0.stat["graceover"]++
		}
		for n, x := range replaced {
			if sessions.VerifCached(x) != nil {
				bad("cache still holds replaced id#%d of %d after its clean-up", n, len(replaced))
			}
			if h.store.hasRecord(x) {
				bad("store still holds a record under replaced id#%d of %d after its clean-up", n, len(replaced))
			}
		}
		for n, x := range replaced {
			if after, _, _ := request(g0, x, false); after != nil {
				var v interface{}
				g0.safe("Get", func() { v = after.Get("marker", nil) })
				bad("Start with replaced id#%d of %d returned a session after grace period and clean-up: marker=%s", n, len(replaced), valStr(v))
			}
		}
		// end the session so that the cache stays small
		if cur, resp, req := request(g0, ids[len(ids)-1], false); cur != nil {
			g0.safe("Destroy", func() { cur.Destroy(resp, req) })
		}
	}
}

// loadRace (properties C09/C12/C01 under concurrency): one object per cached session. Per iteration a session with a user
// and one replaced ID in its grace period is pushed out of the cache (PurgeSessions); then, concurrently, one request
// presents its current ID and writes a value, one presents the replaced ID (Start follows the reference to the same
// session) and writes another value, and one goroutine calls RefreshUser / LogOut(userID) for its user. The cache is large
// and nobody purges during the race, so the package has no reason to hold two objects for the session. Afterwards,
// sequentially: the handles the two requests received are the object the cache holds, and that object agrees with the
// stored record in data and user (the store encodes under its own mutex, so the last save holds the latest state).
func (h *concH) loadRace(g0 *cgor) {
	request := func(g *cgor, cookie string, create bool) (*sessions.Session, *respWriter, *http.Request) {
		req, resp := newReq(0, cookie)
		var s *sessions.Session
		g.safe("Start", func() { s, _ = sessions.Start(resp, req, create) })
		g.stat["requests"]++
		return s, resp, req
	}
	g1, g2, g3 := h.newGor(), h.newGor(), h.newGor()
	g1.done, g2.done, g3.done = 1, 1, 1
	for it := 0; it < h.cfg.iters && !h.stopped(); it++ {
		uid := fmt.Sprintf("u%d", it)
		_, resp, _ := request(g0, "", true)
		id0, _, _ := cookieOf(resp)
		s, _, _ := request(g0, id0, false)
		if s == nil || id0 == "" {
			h.extra = append(h.extra, fmt.Sprintf("panic %d load-race: setup failed in iteration %d", g0.id, it))
			continue
		}
		r := &respWriter{h: http.Header{}}
		g0.safe("LogIn", func() { s.LogIn(&user{ID: uid}, false, r) })
		id1, set, _ := cookieOf(r)
		if !set {
			continue
		}
		g0.safe("PurgeSessions", func() { sessions.PurgeSessions() })
		s = nil
		variant := []string{"refresh", "logout", "none"}[g0.rnd.Intn(3)]
		setup := "user=" + variant
		var ha, hb *sessions.Session
		var wg sync.WaitGroup
		start := make(chan struct{})
		wg.Add(3)
		go func() {
			defer wg.Done()
			<-start
			if ha, _, _ = request(g1, id1, false); ha != nil {
				g1.safe("Set", func() { ha.Set("a", fmt.Sprintf("a-%d", it)) })
			}
		}()
		go func() {
			defer wg.Done()
			<-start
			if hb, _, _ = request(g2, id0, false); hb != nil {
				g2.safe("Set", func() { hb.Set("b", fmt.Sprintf("b-%d", it)) })
			}
		}()
		go func() {
			defer wg.Done()
			<-start
			switch variant {
			case "refresh":
				g3.safe("RefreshUser", func() { sessions.RefreshUser(&user{ID: uid}) })
			case "logout":
				g3.safe("LogOut", func() { sessions.LogOut(uid) })
			}
		}()
		close(start)
		wg.Wait()
		g0.stat["load_iterations"]++
		bad := func(format string, args ...interface{}) {
			h.extra = append(h.extra, fmt.Sprintf("incoherent %d %s ", it, setup)+fmt.Sprintf(format, args...))
			g0.stat["incoherent"]++
		}
		c := sessions.VerifCached(id1)
		if ha == nil || hb == nil {
			bad("a request presenting a valid ID got no session (current id: %v, replaced id: %v)", ha != nil, hb != nil)
		} else if ha != hb {
			bad("two concurrent requests for one cached session received two different objects")
		}
		if c != nil && ha != nil && c != ha {
			bad("the cache holds another object for the session than the one the request on its current ID received")
		}
		if st := h.store.stored(id1); st != nil && c != nil {
			fc, fs := sessions.VerifFields(c), sessions.VerifFields(st)
			for _, key := range []string{"a", "b"} {
				if valStr(fc.Data[key]) != valStr(fs.Data[key]) {
					bad("cached object and stored record disagree on %q: %s vs %s", key, valStr(fc.Data[key]), valStr(fs.Data[key]))
				}
			}
			if (fc.User == nil) != (fs.User == nil) {
				bad("cached object and stored record disagree on the user: %s vs %s", renderUser(fc.User, false), renderUser(fs.User, false))
			}
		} else if c != nil {
			bad("the session is cached but has no stored record")
		}
		if cur, resp, req := request(g0, id1, false); cur != nil {
			g0.safe("Destroy", func() { cur.Destroy(resp, req) })
		}
	}
}

// ---------------------------------------------------------------------------

func runConc(script, outPath string) {
	f, err := os.OpenFile(outPath, os.O_APPEND|os.O_CREATE|os.O_WRONLY, 0o644)
	if err != nil {
		fmt.Fprintln(os.Stderr, err)
		os.Exit(3)
	}
	out = bufio.NewWriterSize(f, 1<<16)
	defer out.Flush()
	epoch0 = time.Now()
	cfg := parseConc(script)
	h := &concH{cfg: cfg}
	h.mix, h.mixTot = parseMix(cfg.mix)
	emit("conc clients=%d inflight=%d reqs=%d hops=%d seed=%d cache=%d codec=%s idexpiry=%d grace=%d keys=%d mix=%s cuid=%d purge=%d hist=%d directed=%s iters=%d storedelay=%d/%d procs=%d",
		cfg.clients, cfg.inflight, cfg.reqs, cfg.hops, cfg.seed, cfg.cache, cfg.codec, int64(cfg.idExpiry), int64(cfg.grace), cfg.keys, cfg.mix,
		cfg.cuid, cfg.purge, b2i(cfg.hist), qopt(cfg.directed), cfg.iters, cfg.delayPermille, cfg.delayMaxUs, runtime.GOMAXPROCS(0))
	out.Flush()

	h.store = &lockedStore{st: newStore(cfg.codec), delayPermille: cfg.delayPermille, delayMaxUs: cfg.delayMaxUs, saveFailPermille: cfg.saveFail}
	sessions.Persistence = viaExtendable(h.store)
	sessions.MaxSessionCacheSize = cfg.cache
	sessions.SessionIDExpiry = cfg.idExpiry
	sessions.SessionIDGracePeriod = cfg.grace
	sessions.SessionExpiry = cfg.sessExpiry
	sessions.SessionCacheExpiry = cfg.cacheExpiry

	if cfg.directed != "" {
		h.directed()
	} else {
		h.generator()
	}
	finished := make(chan struct{})
	go func() { h.wg.Wait(); close(finished) }()
	stuck := 0
	select {
	case <-finished:
	case <-time.After(cfg.deadline):
		atomic.StoreInt32(&h.stop, 1)
		select {
		case <-finished:
			emit("stat deadline_reached 1")
		case <-time.After(10 * time.Second):
			for _, g := range h.gors {
				if atomic.LoadInt32(&g.done) == 0 {
					stuck++
				}
			}
		}
	}
	if stuck > 0 {
		// The goroutines still run: print nothing of their private state, only the fact and the stacks.
		emit("stuck %d", stuck)
		buf := make([]byte, 1<<20)
		buf = buf[:runtime.Stack(buf, true)]
		for _, l := range strings.Split(string(buf), "\n") {
			emit("# %s", l)
		}
		emit("end")
		out.Flush()
		os.Exit(5)
	}
	var evs []histEv
	stat := map[string]int{}
	objs := map[*sessions.Session]map[int]bool{}
	for _, g := range h.gors {
		evs = append(evs, g.hist...)
		for k, v := range g.stat {
			stat[k] += v
		}
		for _, s := range g.keep {
			if objs[s] == nil {
				objs[s] = map[int]bool{}
			}
			objs[s][g.id] = true
		}
	}
	sort.Slice(evs, func(i, j int) bool { return evs[i].ts < evs[j].ts })
	for _, e := range evs {
		emit("%s", e.line)
	}
	for _, l := range h.extra {
		emit("%s", l)
	}
	for _, g := range h.gors {
		for _, p := range g.panics {
			emit("panic %d %s", g.id, p)
		}
	}
	shared := 0
	for _, gs := range objs {
		if len(gs) > 1 {
			shared++
		}
	}
	stat["objects"] = len(objs)
	stat["objects_shared"] = shared
	stat["goroutines"] = len(h.gors)
	names := make([]string, 0, len(stat))
	for k := range stat {
		names = append(names, k)
	}
	sort.Strings(names)
	for _, k := range names {
		emit("stat %s %d", k, stat[k])
	}
	emit("end")
}
