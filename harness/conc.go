package main

// runConc: mode conc (stub, filled in by its check).
func runConc(script, out string) {
	fatal("mode conc not implemented")
}
