package main

import (
	"bufio"
	"encoding/base64"
	"encoding/binary"
	"encoding/hex"
	"fmt"
	"math"
	"os"
	"sort"
	"strconv"
	"strings"
	"time"

	"github.com/rivo/sessions"
)

// ---------------------------------------------------------------------------
// Canonical text

// q renders a string for the transcript: as is when it is non-empty and made
// of harmless characters, otherwise "~" followed by its hex bytes.
func q(s string) string {
	if s == "" {
		return "~"
	}
	for i := 0; i < len(s); i++ {
		c := s[i]
		if !(c >= 'a' && c <= 'z' || c >= 'A' && c <= 'Z' || c >= '0' && c <= '9' ||
			c == '+' || c == '/' || c == '=' || c == '.' || c == '_' || c == '-' || c == ':') {
			return "~" + hex.EncodeToString([]byte(s))
		}
	}
	return s
}

// unq is the inverse of q.
func unq(s string) string {
	if strings.HasPrefix(s, "~") {
		b, err := hex.DecodeString(s[1:])
		if err != nil {
			panic("bad hex in script: " + s)
		}
		return string(b)
	}
	return s
}

func qopt(s string) string {
	if s == "" {
		return "-"
	}
	return q(s)
}

// typed value rendering
func renderVal(v interface{}) string {
	switch x := v.(type) {
	case nil:
		return "n"
	case string:
		return "s" + hex.EncodeToString([]byte(x))
	case int:
		return "i" + strconv.Itoa(x)
	case int64:
		return "i" + strconv.FormatInt(x, 10)
	case float64:
		if x == math.Trunc(x) && math.Abs(x) < 1e15 {
			return "f" + strconv.FormatInt(int64(x), 10)
		}
		return "F" + strconv.FormatFloat(x, 'g', -1, 64)
	case bool:
		if x {
			return "b1"
		}
		return "b0"
	case []interface{}:
		// session scripts use one-element slices of a string as their only slice-typed values
		if len(x) == 1 {
			if e, ok := x[0].(string); ok {
				return "l" + hex.EncodeToString([]byte(e))
			}
		}
		return fmt.Sprintf("?%T", v)
	default:
		return fmt.Sprintf("?%T", v)
	}
}

func parseVal(s string) interface{} {
	if s == "" {
		panic("empty value")
	}
	switch s[0] {
	case 'n':
		return nil
	case 's':
		b, err := hex.DecodeString(s[1:])
		if err != nil {
			panic(err)
		}
		return string(b)
	case 'i':
		n, err := strconv.Atoi(s[1:])
		if err != nil {
			panic(err)
		}
		return n
	case 'f':
		n, err := strconv.ParseFloat(s[1:], 64)
		if err != nil {
			panic(err)
		}
		return n
	case 'b':
		return s[1:] == "1"
	case 'l':
		b, err := hex.DecodeString(s[1:])
		if err != nil {
			panic(err)
		}
		return []interface{}{string(b)}
	}
	panic("bad value " + s)
}

// ---------------------------------------------------------------------------
// Time

// epoch0 is the instant the transcript's clock counts from. Under the Go
// runtime's virtual clock (build tag faketime) every process starts at
// 2009-11-10 23:00:00 UTC, so it is a constant across restarts.
var epoch0 time.Time

const faketimeEpochUnix = 1257894000

func rel(t time.Time) int64 {
	return t.Sub(epoch0).Nanoseconds()
}

func nowRel() int64 { return rel(time.Now()) }

// ---------------------------------------------------------------------------
// Deterministic randomness: the n-th 16-byte chunk of the stream is
// be64((n+1)*0x9E3779B97F4A7C15 mod 2^64) ++ be64(n+1).

type countingReader struct{ pos uint64 }

func chunk(n uint64) [16]byte {
	var b [16]byte
	binary.BigEndian.PutUint64(b[:8], (n+1)*0x9E3779B97F4A7C15)
	binary.BigEndian.PutUint64(b[8:], n+1)
	return b
}

func (r *countingReader) Read(p []byte) (int, error) {
	for i := range p {
		c := chunk(r.pos / 16)
		p[i] = c[r.pos%16]
		r.pos++
	}
	return len(p), nil
}

func genID(n uint64) string {
	c := chunk(n)
	return base64.StdEncoding.EncodeToString(c[:])
}

// resolveID turns a script id spec (g<n> or a q-string) into the string.
func resolveID(spec string) string {
	if len(spec) > 1 && spec[0] == 'g' {
		if n, err := strconv.ParseUint(spec[1:], 10, 64); err == nil {
			return genID(n)
		}
	}
	return unq(spec)
}

// ---------------------------------------------------------------------------
// Users

type user struct {
	ID  string
	Ver int
}

func (u *user) GetID() interface{} { return u.ID }

func renderUser(u sessions.User, withVer bool) string {
	if u == nil {
		return "-"
	}
	if x, ok := u.(*user); ok {
		if x == nil {
			return "-"
		}
		if withVer {
			return q(x.ID) + "@" + strconv.Itoa(x.Ver)
		}
		return q(x.ID)
	}
	return fmt.Sprintf("?%T", u)
}

// ---------------------------------------------------------------------------
// Session fields

func renderData(f sessions.VerifSessionFields) string {
	if f.DataNil {
		return "nil"
	}
	keys := make([]string, 0, len(f.Data))
	for k := range f.Data {
		keys = append(keys, k)
	}
	sort.Strings(keys)
	var sb strings.Builder
	sb.WriteString("{")
	for i, k := range keys {
		if i > 0 {
			sb.WriteString(",")
		}
		sb.WriteString(q(k))
		sb.WriteString("=")
		sb.WriteString(renderVal(f.Data[k]))
	}
	sb.WriteString("}")
	return sb.String()
}

// renderFields prints the fields of an in-memory object (withID, user with
// version) or of a decoded stored record (no id, user by id only).
func renderFields(f sessions.VerifSessionFields, object bool) string {
	var sb strings.Builder
	if object {
		sb.WriteString("id=" + q(f.ID) + " ")
	}
	sb.WriteString("rf=" + qopt(f.ReferenceID))
	sb.WriteString(" us=" + renderUser(f.User, object))
	sb.WriteString(" cr=" + strconv.FormatInt(rel(f.Created), 10))
	sb.WriteString(" la=" + strconv.FormatInt(rel(f.LastAccess), 10))
	sb.WriteString(" ip=" + q(f.LastIP))
	sb.WriteString(" ua=" + strconv.FormatUint(f.UAHash, 10))
	sb.WriteString(" da=" + renderData(f))
	return sb.String()
}

// ---------------------------------------------------------------------------
// Output

var out *bufio.Writer

func emit(format string, args ...interface{}) {
	fmt.Fprintf(out, format, args...)
	out.WriteByte('\n')
}

func fatal(format string, args ...interface{}) {
	if out != nil {
		emit("fatal "+format, args...)
		out.Flush()
	}
	fmt.Fprintf(os.Stderr, "harness: "+format+"\n", args...)
	os.Exit(3)
}

func atoi64(s string) int64 {
	if s == "max" {
		return math.MaxInt64
	}
	n, err := strconv.ParseInt(s, 10, 64)
	if err != nil {
		fatal("bad integer %q", s)
	}
	return n
}


// viaExtendable routes a store through the package's own ExtendablePersistenceLayer (persistence.go), so that the wrapper
// methods the package offers to applications are part of every run. On the unchanged package they delegate one to one.
func viaExtendable(p sessions.PersistenceLayer) sessions.PersistenceLayer {
	return sessions.ExtendablePersistenceLayer{
		LoadSessionFunc:   p.LoadSession,
		SaveSessionFunc:   p.SaveSession,
		DeleteSessionFunc: p.DeleteSession,
		UserSessionsFunc:  p.UserSessions,
		LoadUserFunc:      p.LoadUser,
	}
}
